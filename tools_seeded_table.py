#!/usr/bin/env python3
"""Regenerates seeded/README.md (which checks catch which seeded change) from seeded/*/meta.json."""
import glob, json, os
HERE = os.path.dirname(os.path.abspath(__file__))
rows = []
for f in sorted(glob.glob(os.path.join(HERE, "seeded", "*", "meta.json"))):
    m = json.load(open(f))
    notes = ""
    np_ = os.path.join(os.path.dirname(f), "notes.md")
    first = ""
    if os.path.exists(np_):
        for ln in open(np_):
            ln = ln.strip()
            if ln and not ln.startswith("#"):
                first = ln
                break
    fired = "; ".join("%s: %s" % (k, ", ".join(sorted({x.split(" ")[0] for x in v}))) for k, v in sorted(m["checks_that_fire"].items())) or "none"
    if m.get("cannot_decide"):
        fired = "none - CANNOT DECIDE (exit 2, never `holds`): " + m.get("cannot_decide_reason", "")[:260]
    elif m.get("declined"):
        fired = "none - DECLINED: " + m.get("declined_reason", "")[:200]
    und = ", ".join(sorted(m.get("checks_that_cannot_decide", {}))) or "-"
    rows.append("| %s | %s | %s | %s | %s |" % (m["id"], m["breaks_property"], first.replace("|", "/")[:170], fired, und))
out = ["# Seeded changes and the checks that catch them", "",
       "Each directory holds `patch.diff` (apply with `git -C /repo apply`, undo with `git -C /repo checkout -- .`), `demo.py` (exits 1 with the patch, 0 without), the sub-agent's `notes.md` and `meta.json` (what was run to confirm it).",
       "All were written by independent sub-agents that saw only the property text and a scratch worktree. Every one keeps the 66 pinned tests green.", "",
       "| seed | breaks | what (first line of the author's notes) | rules that fire (quick tier) | checks answering 'cannot decide' |", "|---|---|---|---|---|"] + rows
open(os.path.join(HERE, "seeded", "README.md"), "w").write("\n".join(out) + "\n")
print(len(rows), "seeds")
