"""Role-based anchor discovery and helpers shared by the rule modules."""
import ast

from engine import tables
from engine.cfg import CFG, flag_test, self_attr
from engine.index import own_nodes
from engine.report import AnalysisError

_cache = {}


def fold_config(idx):
    """Fold the two configuration constants (`six.PY3`, numpy >= 1.10) in CFG construction."""

    def fold(test):
        try:
            s = ast.unparse(test)
        except Exception:
            return None
        if s == "six.PY3":
            return True
        if isinstance(test, ast.UnaryOp) and isinstance(test.op, ast.Not):
            inner = fold(test.operand)
            return None if inner is None else (not inner)
        if isinstance(test, ast.Compare) and len(test.ops) == 1 and s.replace(" ", "").startswith("version.parse(numpy.__version__)") and isinstance(test.comparators[0], ast.Call) and test.comparators[0].args and isinstance(test.comparators[0].args[0], ast.Constant):
            # the installed numpy is at least the minimum pyproject.toml states: decidable when the bound compared with is not above it
            m = test.comparators[0].args[0].value
            nm = idx.config.get("numpy_min")
            if isinstance(m, str) and nm:
                parts = tuple(int(x) for x in m.split(".")[:2])
                op = test.ops[0]
                if nm >= parts:
                    if isinstance(op, ast.GtE):
                        return True
                    if isinstance(op, ast.Lt):
                        return False
                if nm > parts:
                    if isinstance(op, ast.Gt):
                        return True
                    if isinstance(op, ast.LtE):
                        return False
            raise AnalysisError("numpy version test %s can not be folded from pyproject.toml" % s)
        return None

    return fold


def cfg_of(idx, fi):
    k = ("cfg", id(idx), fi.key)
    if k not in _cache:
        _cache[k] = CFG(fi.node, idx, fi.module, fi, fold=fold_config(idx))
    return _cache[k]


def self_name(fi):
    a = fi.node.args.args
    return a[0].arg if a else "self"


def src(node):
    try:
        return " ".join(ast.unparse(node).split())
    except Exception:
        return type(node).__name__


class Anchors(object):
    """The run-time protocol of commands, found by role."""

    def __init__(self, idx):
        self.idx = idx
        self.command = tables.command_base(idx)
        self.program = idx.cls("mpilot.program", "Program")
        self.result_prop = self.command.methods.get("result")
        if self.result_prop is None or self.result_prop.kind != "property":
            raise AnalysisError("Command.result property vanished")
        self.run = self.command.methods.get("run")
        if self.run is None:
            raise AnalysisError("Command.run vanished")
        self.init = self.command.methods.get("__init__")
        self.program_run = self.program.methods.get("run")
        if self.program_run is None:
            raise AnalysisError("Program.run vanished")
        sn = self_name(self.result_prop)
        memo = set()
        for n in own_nodes(self.result_prop.node):
            if isinstance(n, ast.Return) and n.value is not None:
                a = self_attr(n.value, sn)
                if a is None:
                    memo.add(None)
                else:
                    memo.add(a)
        self.memo_candidates = memo
        memo.discard(None)
        if len(memo) != 1:
            raise AnalysisError("cannot identify the memo field returned by Command.result (returns: %s)" % sorted(map(str, memo)))
        self.memo = next(iter(memo))
        # the finished flag: the attribute tested by the guard in front of the run() call
        flags = []
        for n in own_nodes(self.result_prop.node):
            if isinstance(n, ast.If):
                t = n.test
                while isinstance(t, ast.UnaryOp) and isinstance(t.op, ast.Not):
                    t = t.operand
                a = flag_test(t, sn)
                if a:
                    flags.append(a)
        if not flags:
            # fall back: the flag tested at the top of run()
            for n in own_nodes(self.run.node):
                if isinstance(n, ast.If):
                    t = n.test
                    while isinstance(t, ast.UnaryOp) and isinstance(t.op, ast.Not):
                        t = t.operand
                    a = flag_test(t, self_name(self.run))
                    if a:
                        flags.append(a)
                        break
        if not flags:
            raise AnalysisError("cannot identify the finished flag tested by Command.result / Command.run")
        self.flag = flags[0]

    def is_command_subclass(self, ci):
        return self.command in self.idx.mro(ci)


def anchors(idx):
    k = ("anchors", id(idx))
    if k not in _cache:
        _cache[k] = Anchors(idx)
    return _cache[k]


def table(idx):
    k = ("table", id(idx))
    if k not in _cache:
        _cache[k] = tables.command_table(idx)
    return _cache[k]


def walk_facts(path, attrs, selfname="self", init=None, on_call=None):
    """Replay one CFG path keeping facts about boolean self attributes; yields (node, facts-before-node)."""
    st = dict(init or {})
    prev = None
    for n, lab in path:
        if prev is not None and prev.kind == "test" and lab in ("true", "false"):
            a = flag_test(prev.ast, selfname)
            if a in attrs:
                st[a] = lab == "true"
        yield n, dict(st)
        if n.kind == "store" and n.meta.get("attr") in attrs and self_attr(n.ast, selfname):
            v = n.meta.get("value")
            if isinstance(v, ast.Constant) and isinstance(v.value, bool):
                st[n.meta["attr"]] = v.value
            else:
                st.pop(n.meta["attr"], None)
        if on_call is not None and n.kind == "call":
            on_call(n, st)
        prev = n


def path_text(path, only=("call", "test", "store", "raise", "return", "handler", "iter", "aug")):
    out = []
    for n, lab in path:
        if n.kind in only:
            out.append("L%s %s%s %s" % (n.line, n.kind, "" if lab in (None, "next") else "[%s]" % lab, n.text()))
        elif n.kind in ("exit", "raise_exit"):
            out.append("-> %s" % ("normal exit" if n.kind == "exit" else "exceptional exit"))
    return out


def is_self_call(node, method, selfname="self"):
    f = node.func if isinstance(node, ast.Call) else None
    return isinstance(f, ast.Attribute) and f.attr == method and isinstance(f.value, ast.Name) and f.value.id == selfname


def is_super_call(node, method=None):
    f = node.func if isinstance(node, ast.Call) else None
    return (
        isinstance(f, ast.Attribute)
        and (method is None or f.attr == method)
        and isinstance(f.value, ast.Call)
        and isinstance(f.value.func, ast.Name)
        and f.value.func.id == "super"
    )


def all_functions(idx):
    return list(idx.funcs)


def rel(fi):
    return fi.module.rel


def names_in(expr):
    return {n.id for n in ast.walk(expr) if isinstance(n, ast.Name)}


def derived_names(fi, seeds, extra_attr_ok=True):
    """Flow-insensitive closure: local names whose every assignment draws only on names already in the set
    (used to follow `x = kwargs['p']`-style copies).  Returns the set of names that MAY hold a value derived from seeds."""
    may = set(seeds)
    changed = True
    assigns = []
    for n in own_nodes(fi.node):
        if isinstance(n, ast.Assign):
            for t in n.targets:
                for x in ast.walk(t):
                    if isinstance(x, ast.Name) and isinstance(x.ctx, ast.Store):
                        assigns.append((x.id, n.value))
        elif isinstance(n, (ast.For, ast.comprehension)):
            for x in ast.walk(n.target):
                if isinstance(x, ast.Name):
                    assigns.append((x.id, n.iter))
        elif isinstance(n, ast.NamedExpr):
            assigns.append((n.target.id, n.value))
    while changed:
        changed = False
        for nm, v in assigns:
            if nm not in may and names_in(v) & may:
                may.add(nm)
                changed = True
    return may


def scoped_nodes(idx):
    """yield (module, FuncInfo|None, node) for every AST node of the package, with its innermost function"""
    k = ("scoped", id(idx))
    if k not in _cache:
        out = []
        for mod in idx.modules.values():
            owned = set()
            for fi in idx.funcs:
                if fi.module is not mod:
                    continue
                if getattr(fi, "absorbed", False):
                    # a private helper inlined at every call site: its statements are seen inside its callers
                    owned.update(id(n) for n in ast.walk(fi.node_orig))
                    continue
                for n in own_nodes(fi.node):
                    out.append((mod, fi, n))
                    owned.add(id(n))
                for n in ast.walk(fi.node.args):
                    out.append((mod, fi, n))
                    owned.add(id(n))
                owned.add(id(fi.node))
                owned.update(id(n) for n in ast.walk(fi.node_orig))
            for n in ast.walk(mod.tree):
                if id(n) not in owned and not isinstance(n, (ast.FunctionDef,)):
                    out.append((mod, None, n))
        _cache[k] = out
    return _cache[k]


def where(mod, fi):
    return "%s::%s" % (mod.rel, fi.qualname if fi is not None else "<module>")


def single_defs(fi):
    """local names bound exactly once by a plain assignment (not a loop target, not augmented, not a parameter)"""
    k = ("sdefs", id(fi), id(fi.node))
    if k in _cache:
        return _cache[k]
    counts = {}
    values = {}
    params = {a.arg for a in fi.node.args.args + fi.node.args.kwonlyargs}
    if fi.node.args.vararg:
        params.add(fi.node.args.vararg.arg)
    if fi.node.args.kwarg:
        params.add(fi.node.args.kwarg.arg)
    for n in own_nodes(fi.node):
        if isinstance(n, ast.Assign):
            for t in n.targets:
                if isinstance(t, ast.Name):
                    counts[t.id] = counts.get(t.id, 0) + 1
                    values[t.id] = n.value
                else:
                    for x in ast.walk(t):
                        if isinstance(x, ast.Name) and isinstance(x.ctx, ast.Store):
                            counts[x.id] = counts.get(x.id, 0) + 2
        elif isinstance(n, (ast.AugAssign, ast.AnnAssign)) and isinstance(n.target, ast.Name):
            counts[n.target.id] = counts.get(n.target.id, 0) + 2
        elif isinstance(n, (ast.For, ast.comprehension)):
            for x in ast.walk(n.target):
                if isinstance(x, ast.Name):
                    counts[x.id] = counts.get(x.id, 0) + 2
        elif isinstance(n, ast.ExceptHandler) and n.name:
            counts[n.name] = counts.get(n.name, 0) + 2
        elif isinstance(n, ast.withitem) and n.optional_vars is not None:
            for x in ast.walk(n.optional_vars):
                if isinstance(x, ast.Name):
                    counts[x.id] = counts.get(x.id, 0) + 2
    # a name whose object is changed in place after its definition is not "its defining expression" any more
    MUT = ("append", "extend", "insert", "add", "update", "pop", "remove", "clear", "sort", "reverse", "setdefault", "popitem", "discard")
    for n in own_nodes(fi.node):
        if isinstance(n, ast.Call) and isinstance(n.func, ast.Attribute) and n.func.attr in MUT and isinstance(n.func.value, ast.Name):
            counts[n.func.value.id] = counts.get(n.func.value.id, 0) + 2
        if isinstance(n, (ast.Subscript, ast.Attribute)) and isinstance(n.ctx, (ast.Store, ast.Del)) and isinstance(n.value, ast.Name) and isinstance(values.get(n.value.id), (ast.List, ast.Dict, ast.Set, ast.ListComp, ast.DictComp)):
            counts[n.value.id] = counts.get(n.value.id, 0) + 2
    out = {nm: values[nm] for nm, c in counts.items() if c == 1 and nm in values and nm not in params}
    _cache[k] = out
    return out


def expand(fi, expr, depth=6):
    """`expr` with single-assignment locals replaced by their defining expressions (for pattern matching only)"""
    import copy

    defs = single_defs(fi)
    if expr is None:
        return None

    class T(ast.NodeTransformer):
        def __init__(self, d):
            self.d = d

        def visit_Name(self, node):
            if isinstance(node.ctx, ast.Load) and node.id in defs and self.d > 0:
                v = copy.deepcopy(defs[node.id])
                return T(self.d - 1).visit(v)
            return node

    return T(depth).visit(copy.deepcopy(expr))


def helper_closure(idx, fi):
    """`fi`, its nested functions and every package helper (non-protocol function or method) it reaches through
    resolved calls - the unit a rule about `fi` has to read when helpers were extracted to module level or other modules"""
    from engine.normalize import _is_protocol

    out = [fi]
    work = [fi]
    while work:
        f = work.pop()
        cands = list(f.nested.values())
        for c in idx.own_calls(f):
            t, how = idx.call_targets(f, c)
            if how in ("resolved", "self", "class") and len(t) == 1:
                cands.extend(t)
        for g in cands:
            if g in out:
                continue
            if g.parent is None and _is_protocol(g.name):
                continue
            out.append(g)
            work.append(g)
    return out


def lossy_number_formatting(idx, fi):
    """[(node, what)] for constructs that print a number with fewer digits than it has: format specs with a
    precision/presentation type, % formatting, rounding and narrowing conversions"""
    out = []
    for n in own_nodes(fi.node):
        if isinstance(n, ast.Call):
            q = idx.qualname(fi.module, n.func, fi) or src(n.func)
            nm = q.split(".")[-1]
            if nm in ("round", "around", "rint", "floor", "ceil", "trunc", "float32", "float16", "format_float_positional", "format_float_scientific", "array2string"):
                out.append((n, nm))
            if isinstance(n.func, ast.Attribute) and n.func.attr == "format" and isinstance(n.func.value, ast.Constant) and isinstance(n.func.value.value, str):
                import re
                for m in re.finditer(r"\{[^{}:]*:([^{}]*)\}", n.func.value.value):
                    spec = m.group(1)
                    if spec and (spec[-1] in "eEfFgGdn%" or "." in spec):
                        out.append((n, "format spec `%s`" % spec))
            if isinstance(n.func, ast.Name) and n.func.id == "format" and len(n.args) == 2 and isinstance(n.args[1], ast.Constant) and n.args[1].value:
                out.append((n, "format spec `%s`" % n.args[1].value))
        if isinstance(n, ast.JoinedStr) and any(isinstance(v, ast.FormattedValue) and v.format_spec is not None for v in n.values):
            out.append((n, "format spec"))
        if isinstance(n, ast.BinOp) and isinstance(n.op, ast.Mod) and isinstance(n.left, ast.Constant) and isinstance(n.left.value, str) and any(c in n.left.value for c in ("%e", "%f", "%g", "%d", "%.", "%E", "%G")):
            out.append((n, "% formatting"))
    return out


def dep_names(fi, expr, depth=6):
    """every local name `expr` depends on, following single-assignment definitions transitively"""
    defs = {}
    for n in own_nodes(fi.node):
        if isinstance(n, ast.Assign):
            for t in n.targets:
                if isinstance(t, ast.Name):
                    defs.setdefault(t.id, []).append(n.value)
    seen = set()
    work = list(names_in(expr))
    d = 0
    while work and d < 200:
        d += 1
        n = work.pop()
        if n in seen:
            continue
        seen.add(n)
        for v in defs.get(n, ()):
            work.extend(names_in(v))
    return seen


def flow_expand(fi, expr, anchor):
    """`expr` as it stands at the statement containing `anchor`, with the plain name assignments that precede it on the
    straight line (in the enclosing blocks, innermost last) substituted in order - also names assigned several times
    (`x = a; x = x or b; use(x)` gives `a or b`).  Names reassigned inside intervening compound statements are dropped."""
    import copy

    env = {}

    class S(ast.NodeTransformer):
        def visit_Name(self, x):
            if isinstance(x.ctx, ast.Load) and x.id in env:
                return copy.deepcopy(env[x.id])
            return x

    def contains(st):
        return any(x is anchor for x in ast.walk(st))

    def walk(stmts):
        for st in stmts:
            if contains(st):
                if isinstance(st, (ast.For, ast.While)):
                    for x in ast.walk(st.target) if isinstance(st, ast.For) else []:
                        if isinstance(x, ast.Name):
                            env.pop(x.id, None)
                for f_ in ("body", "orelse", "finalbody"):
                    v = getattr(st, f_, None)
                    if isinstance(v, list) and v and isinstance(v[0], ast.stmt) and any(contains(b) for b in v):
                        return walk(v)
                for h in getattr(st, "handlers", []) or []:
                    if any(contains(b) for b in h.body):
                        return walk(h.body)
                return True
            if isinstance(st, ast.Assign) and len(st.targets) == 1 and isinstance(st.targets[0], ast.Name):
                env[st.targets[0].id] = S().visit(copy.deepcopy(st.value))
            else:
                for x in ast.walk(st):
                    if isinstance(x, ast.Name) and isinstance(x.ctx, (ast.Store, ast.Del)):
                        env.pop(x.id, None)
        return False

    walk(fi.node.body)
    return S().visit(copy.deepcopy(expr))


MUTATORS = frozenset("append extend insert pop remove clear update setdefault add discard popitem sort reverse __setitem__ __delitem__".split())


def mutable_module_state(idx):
    """Module-level names that hold state surviving between calls: bound at module level and then mutated (item store / delete,
    mutating method, augmented assignment) or rebound through `global` by some function.  A table nobody mutates is a constant.
    -> {(module name, name): [(fi, node, how), ...]}"""
    memo = getattr(idx, "_mutable_state", None)
    if memo is not None:
        return memo
    out = {}
    for fi in idx.funcs:
        node = getattr(fi, "node", None)
        if node is None:
            continue
        mod = fi.module
        declared_global = set()
        locals_ = set()
        for n in own_nodes(node):
            if isinstance(n, ast.Global):
                declared_global.update(n.names)
        for n in own_nodes(node):
            if isinstance(n, ast.Name) and isinstance(n.ctx, ast.Store) and n.id not in declared_global:
                locals_.add(n.id)
        for a in node.args.args + node.args.kwonlyargs + ([node.args.vararg] if node.args.vararg else []) + ([node.args.kwarg] if node.args.kwarg else []):
            locals_.add(a.arg)

        def is_global(nm):
            return nm in mod.consts and nm not in locals_

        for n in own_nodes(node):
            if isinstance(n, ast.Name) and isinstance(n.ctx, (ast.Store, ast.Del)) and n.id in declared_global:
                out.setdefault((mod.name, n.id), []).append((fi, n, "rebinds the global"))
            elif isinstance(n, ast.Subscript) and isinstance(n.ctx, (ast.Store, ast.Del)) and isinstance(n.value, ast.Name) and is_global(n.value.id):
                out.setdefault((mod.name, n.value.id), []).append((fi, n, "stores an item"))
            elif isinstance(n, ast.Call) and isinstance(n.func, ast.Attribute) and n.func.attr in MUTATORS and isinstance(n.func.value, ast.Name) and is_global(n.func.value.id):
                out.setdefault((mod.name, n.func.value.id), []).append((fi, n, "calls .%s()" % n.func.attr))
            elif isinstance(n, ast.AugAssign) and isinstance(n.target, ast.Name) and n.target.id in declared_global:
                out.setdefault((mod.name, n.target.id), []).append((fi, n, "updates the global in place"))
    idx._mutable_state = out
    return out


def state_uses(idx, fi):
    """reads or writes of mutable module state in `fi` and the helpers it reaches -> [(helper fi, node, (module, name))]"""
    state = mutable_module_state(idx)
    if not state:
        return []
    hits = []
    for f_ in helper_closure(idx, fi):
        node = getattr(f_, "node", None)
        if node is None:
            continue
        shadow = {a.arg for a in node.args.args}
        for n in own_nodes(node):
            if isinstance(n, ast.Name) and (f_.module.name, n.id) in state and n.id not in shadow:
                hits.append((f_, n, (f_.module.name, n.id)))
            elif isinstance(n, ast.Attribute) and isinstance(n.value, ast.Name):
                q = idx.qualname(f_.module, n, f_) or ""
                if "." in q:
                    m_, a_ = q.rsplit(".", 1)
                    if (m_, a_) in state:
                        hits.append((f_, n, (m_, a_)))
    return hits


def state_is_content_checked(idx, fi, hits):
    """Some use of the module state in `fi` (helpers included) is compared (== / !=) with text read from a file in the same function:
    a cache that is validated against the current content before it is reused.  Whether the validation is complete is beyond
    these rules - callers answer "cannot decide" instead of reporting the cache."""
    for f_ in {h[0] for h in hits}:
        node = f_.node
        fresh = set()
        for n in own_nodes(node):
            if isinstance(n, ast.Assign) and len(n.targets) == 1 and isinstance(n.targets[0], ast.Name) and isinstance(n.value, ast.Call) and isinstance(n.value.func, ast.Attribute) and n.value.func.attr in ("readlines", "read", "read_text", "read_bytes"):
                fresh.add(n.targets[0].id)
        if not fresh and node.args.kwarg is not None:
            # second form: the kept entry is handed, together with the arrays of THIS execution, to a comparison in an `if` test
            # (`if entry is not None and not same(entry_layers, arrays)`): a cache validated against the current values
            kw = node.args.kwarg.arg
            cur = {kw}
            for _ in range(3):
                for n in own_nodes(node):
                    if isinstance(n, ast.Assign) and (names_in(n.value) & cur):
                        for t in n.targets:
                            cur |= {x.id for x in ast.walk(t) if isinstance(x, ast.Name)}
            statenames = {h[2][1] for h in hits if h[0] is f_}
            kept = set(statenames)
            for _ in range(3):
                for n in own_nodes(node):
                    if isinstance(n, ast.Assign) and (names_in(n.value) & kept):
                        for t in n.targets:
                            kept |= {x.id for x in ast.walk(t) if isinstance(x, ast.Name)}
            kept -= statenames
            for n in own_nodes(node):
                if isinstance(n, ast.If):
                    for c in ast.walk(n.test):
                        if isinstance(c, ast.Call) and len(c.args) >= 2:
                            per = [names_in(a) for a in c.args]
                            if any(p_ & kept and not (p_ & (cur - kept)) for p_ in per) and any(p_ & (cur - kept) and not (p_ & kept) for p_ in per):
                                return True
        if not fresh:
            continue
        statenames = {h[2][1] for h in hits if h[0] is f_}
        derived = set(statenames)
        for _ in range(3):
            for n in own_nodes(node):
                if isinstance(n, ast.Assign) and (names_in(n.value) & derived):
                    for t in n.targets:
                        derived |= {x.id for x in ast.walk(t) if isinstance(x, ast.Name)}
        derived -= fresh
        for n in own_nodes(node):
            if isinstance(n, ast.Compare) and len(n.ops) == 1 and isinstance(n.ops[0], (ast.Eq, ast.NotEq)):
                l, r = names_in(n.left), names_in(n.comparators[0])
                if (l & derived and r & fresh) or (r & derived and l & fresh):
                    return True
    return False


def zip_parallel(fi, loop):
    """`for a, b, c in zip(A, B, C)` where B and C are element-wise maps of A (directly or through another element-wise map of A):
    {b: expression of a, c: expression of a}.  Names that cannot be traced are left out."""
    import copy

    out = {}
    it = loop.iter
    if not (isinstance(it, ast.Call) and isinstance(it.func, ast.Name) and it.func.id == "zip" and isinstance(loop.target, ast.Tuple) and len(loop.target.elts) == len(it.args) and all(isinstance(x, ast.Name) for x in loop.target.elts)):
        return out
    if not (it.args and isinstance(it.args[0], ast.Name)):
        return out
    base = it.args[0].id
    first = loop.target.elts[0].id
    defs = single_defs(fi)

    def as_map_of_base(name, depth=0):
        """the comprehension element of list `name` written in terms of `first`, or None"""
        if name == base:
            return ast.Name(id=first, ctx=ast.Load())
        d = defs.get(name)
        if depth > 3 or not isinstance(d, (ast.ListComp, ast.GeneratorExp)) or len(d.generators) != 1 or d.generators[0].ifs or not isinstance(d.generators[0].target, ast.Name) or not isinstance(d.generators[0].iter, ast.Name):
            return None
        inner = as_map_of_base(d.generators[0].iter.id, depth + 1)
        if inner is None:
            return None
        var = d.generators[0].target.id

        class S(ast.NodeTransformer):
            def visit_Name(self, x):
                if x.id == var and isinstance(x.ctx, ast.Load):
                    return copy.deepcopy(inner)
                return x

        return S().visit(copy.deepcopy(d.elt))

    for tgt, arg in zip(loop.target.elts[1:], it.args[1:]):
        if isinstance(arg, ast.Name):
            e = as_map_of_base(arg.id)
            if e is not None:
                out[tgt.id] = e
    return out


def holds_on_edge(cfg, t, x, label="true"):
    """node x is reached only through the `label` edge of test t"""
    seen, work = set(), [cfg.entry]
    while work:
        n_ = work.pop()
        if n_ in seen:
            continue
        seen.add(n_)
        for m_, lab in n_.succ:
            if n_ is t and lab == label:
                continue
            work.append(m_)
    return x not in seen


def absent_at(cfg, node, kwname="kwargs"):
    """names N for which `"N" not in kwargs` is established at `node` (every path to it takes the corresponding edge)"""
    out = set()
    for t in cfg.find("test"):
        e = t.ast
        if isinstance(e, ast.Compare) and len(e.ops) == 1 and isinstance(e.ops[0], (ast.In, ast.NotIn)) and isinstance(e.left, ast.Constant) and isinstance(e.left.value, str) \
                and isinstance(e.comparators[0], ast.Name) and e.comparators[0].id == kwname:
            lab = "true" if isinstance(e.ops[0], ast.NotIn) else "false"
            if cfg.dominates(t, node) and holds_on_edge(cfg, t, node, lab):
                out.add(e.left.value)
    return out


MEMO_DECORATORS = {"functools.lru_cache", "functools.cache", "functools.cached_property", "functools32.lru_cache", "cachetools.cached", "cachetools.func.lru_cache", "cachetools.func.ttl_cache"}


def kept_values_are_copied(idx, fi, hits, memo):
    """Every array taken out of what is kept between executions is copied before anything else is done with it:
      * a read of the module state that yields a kept value (`S[k]`, `S.get(k)`) is the receiver of `.copy()` / the argument of
        copy.copy / copy.deepcopy / numpy.array right there;
      * the value of a call to a cached helper is bound to a name whose first use other than a None test is `name = name.copy()`.
    Then no result shares storage with the kept arrays (C09's concern); whether the kept VALUE is still right is another question."""
    par = {}
    fns = {h[0] for h in hits} | {fi}
    for f_ in fns:
        node = getattr(f_, "node_orig", None) or f_.node
        for x in ast.walk(node):
            for c in ast.iter_child_nodes(x):
                par[id(c)] = x

    def copied(n):
        up = par.get(id(n))
        if isinstance(up, ast.Attribute) and up.attr == "copy" and isinstance(par.get(id(up)), ast.Call):
            return True
        if isinstance(up, ast.Call) and n in up.args and (src(up.func) in ("copy.copy", "copy.deepcopy", "deepcopy", "numpy.array", "numpy.ma.array", "numpy.copy", "numpy.ma.copy")) \
                and not any(k.arg == "copy" and isinstance(k.value, ast.Constant) and k.value.value is False for k in up.keywords):
            return True
        return False

    statenames = {h[2][1] for h in hits}
    for f_ in {h[0] for h in hits}:
        node = getattr(f_, "node_orig", None) or f_.node
        for x in ast.walk(node):
            takes = None
            if isinstance(x, ast.Subscript) and isinstance(x.ctx, ast.Load) and isinstance(x.value, ast.Name) and x.value.id in statenames:
                takes = x
            if isinstance(x, ast.Call) and isinstance(x.func, ast.Attribute) and x.func.attr in ("get", "pop", "setdefault") and isinstance(x.func.value, ast.Name) and x.func.value.id in statenames:
                takes = x
            if takes is not None and not copied(takes):
                return False
        # the bare state object handed on / returned / iterated (values()) is not followed
        for x in ast.walk(node):
            if isinstance(x, ast.Call) and isinstance(x.func, ast.Attribute) and x.func.attr in ("values", "items") and isinstance(x.func.value, ast.Name) and x.func.value.id in statenames:
                return False
    memo_names = {m[0].name for m in memo}
    if memo_names:
        node = getattr(fi, "node_orig", None) or fi.node
        for x in ast.walk(node):
            if isinstance(x, ast.Call) and ((isinstance(x.func, ast.Name) and x.func.id in memo_names) or (isinstance(x.func, ast.Attribute) and x.func.attr in memo_names)):
                up = par.get(id(x))
                if copied(x):
                    continue
                if not (isinstance(up, ast.Assign) and len(up.targets) == 1 and isinstance(up.targets[0], ast.Name)):
                    return False
                nm = up.targets[0].id
                copies = [a for a in ast.walk(node) if isinstance(a, ast.Assign) and len(a.targets) == 1 and isinstance(a.targets[0], ast.Name) and a.targets[0].id == nm
                          and isinstance(a.value, ast.Call) and isinstance(a.value.func, ast.Attribute) and a.value.func.attr == "copy" and isinstance(a.value.func.value, ast.Name) and a.value.func.value.id == nm]
                if not copies:
                    return False
                first = min(c.lineno for c in copies)
                for u in ast.walk(node):
                    if isinstance(u, ast.Name) and u.id == nm and isinstance(u.ctx, ast.Load) and up.lineno < u.lineno < first:
                        pu = par.get(id(u))
                        if not (isinstance(pu, ast.Compare) and all(isinstance(o, (ast.Is, ast.IsNot)) for o in pu.ops)):
                            return False
    return True


def memoised_helpers(idx, fi):
    """functions reached from `fi` (helpers included, on the source as written) that carry a result cache: [(helper, decorator text)]"""
    out = []
    reach = list(helper_closure(idx, fi))
    for f_ in list(reach) + [g for f2 in reach for g in getattr(f2, "nested", {}).values()]:
        node = getattr(f_, "node_orig", None) or getattr(f_, "node", None)
        if node is None:
            continue
        for d_ in getattr(node, "decorator_list", []):
            target = d_.func if isinstance(d_, ast.Call) else d_
            q = idx.qualname(f_.module, target, f_) if isinstance(target, (ast.Name, ast.Attribute)) else None
            if q in MEMO_DECORATORS or (q or src(target)).split(".")[-1] in ("lru_cache", "memoize", "memoized", "cached"):
                out.append((f_, src(d_)))
    return out



def success_flag_ok(cfg, fi, f, good):
    """`if <local>: self.<finished flag> = True` (in a finally block, say) where <local> is False from the start and set True only
    after the result was stored: on every path the flag store is taken exactly when the store happened.  `f` is the CFG node of
    the flag store, `good` the nodes that store execute's value."""
    import ast as _ast

    node = f.ast if isinstance(getattr(f, "ast", None), _ast.AST) else None
    if node is None or not good:
        return False
    par = {}
    for x in _ast.walk(fi.node):
        for ch in _ast.iter_child_nodes(x):
            par[id(ch)] = x
    # the statement holding the store
    st = node
    while st is not None and not isinstance(st, _ast.stmt):
        st = par.get(id(st))
    up = par.get(id(st)) if st is not None else None
    if not (isinstance(up, _ast.If) and st in up.body and isinstance(up.test, _ast.Name)):
        return False
    L = up.test.id
    assigns = [n for n in cfg.find("store") if isinstance(n.ast, _ast.Name) and n.ast.id == L]
    if not assigns or any(not isinstance(n.meta.get("value"), _ast.Constant) or n.meta["value"].value not in (True, False) for n in assigns):
        return False
    trues = [n for n in assigns if n.meta["value"].value is True]
    falses = [n for n in assigns if n.meta["value"].value is False]
    if not trues:
        return False
    if not all(cfg.must_pass_through(cfg.entry, t, set(good)) for t in trues):
        return False  # set True on a path that did not store the result
    if not all(cfg.must_pass_through(m, cfg.exit, set(trues)) for m in good):
        return False  # the result stored but the local left False on some normal path
    for t in trues:
        if any(x in cfg.reachable([t]) for x in falses):
            return False
    return True



def int_length_guard(fn):
    """A hand-made length test in front of int() in a token function: `if <limit> > 0 and len(<text without its sign>) > <limit>: raise
    SyntaxError` with <limit> read from sys.get_int_max_str_digits (0 = switched off; the sign is not a digit).
    -> ("exact", node) | ("wrong", node, why) | None (no such test, or a form not read here)"""
    import ast as _ast

    for st in _ast.walk(fn):
        if not (isinstance(st, _ast.If) and any(isinstance(x, _ast.Raise) for b in st.body for x in _ast.walk(b))):
            continue
        conj = st.test.values if isinstance(st.test, _ast.BoolOp) and isinstance(st.test.op, _ast.And) else [st.test]
        lens = [c for c in conj if isinstance(c, _ast.Compare) and len(c.ops) == 1 and isinstance(c.ops[0], (_ast.Gt, _ast.GtE)) and isinstance(c.left, _ast.Call) and src(c.left.func) == "len" and isinstance(c.comparators[0], _ast.Name)]
        if not lens:
            continue
        lim = lens[0].comparators[0].id
        defs = [n.value for n in _ast.walk(fn) if isinstance(n, _ast.Assign) and any(isinstance(t, _ast.Name) and t.id == lim for t in n.targets)]
        if len(defs) != 1 or "get_int_max_str_digits" not in src(defs[0]):
            return None
        arg = lens[0].left.args[0] if lens[0].left.args else None
        a_src = src(arg).replace(" ", "") if arg is not None else ""
        stripped = a_src.endswith('.value.lstrip("+-")') or a_src.endswith('.value.lstrip("-+")') or a_src.endswith(".value.lstrip('+-')") or a_src.endswith(".value.lstrip('-+')")
        positive = any(isinstance(c, _ast.Compare) and len(c.ops) == 1 and isinstance(c.ops[0], _ast.Gt) and isinstance(c.left, _ast.Name) and c.left.id == lim and isinstance(c.comparators[0], _ast.Constant) and c.comparators[0].value == 0 for c in conj) \
            or any(isinstance(c, _ast.Name) and c.id == lim for c in conj)
        if not isinstance(lens[0].ops[0], _ast.Gt):
            return ("wrong", st, "a literal of exactly the limit's length is refused (`>=`), int() converts it")
        if a_src.endswith(".value") and not stripped:
            return ("wrong", st, "`len(%s)` counts the sign, int() does not: `-` followed by exactly the limit's number of digits is refused although Python converts it" % src(arg))
        if not stripped:
            return None
        if not positive:
            return ("wrong", st, "the limit reads 0 when it is switched off (sys.set_int_max_str_digits(0)): without a `%s > 0` test every integer literal is then refused" % lim)
        return ("exact", st)
    return None
