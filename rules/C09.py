"""C09 — computed results are immutable: commands never modify their inputs."""
import ast

from engine.arrays import Arr, Scal, is_input_token

from . import arrayrules as R
from . import common as K


def run(ctx, idx):
    A = K.anchors(idx)
    ctx.assume("numpy axioms on storage sharing: .data/.mask/basic slices/asarray are views; x.copy(), operators, numpy.ma.array of a list, sum() are fresh; reduce() over one element returns it (A2, A6, A8, A14)")
    ctx.rule("C09.a", "At every in-place site of every execute body and helper (augmented assignment, subscript store, .mask store, mutating method, out= argument, helper that writes its argument) the target's may-alias set contains no input and no view of an input.")
    ctx.rule("C09.b", "insure_fuzzy's summary (writes argument 0, returns argument 0) is computed from its body, not trusted.")
    ctx.rule("C09.c", "Outside Command.run nothing stores to the memo field, and no package code writes through `<x>.result`.")
    ctx.rule("C09.d", "A result is its producer's own: no execute body hands out arrays it keeps in module-level state or gets from a cached helper, unless each such array is copied where it is taken out (decided before the array analyser runs). A buffer kept between executions is one buffer under every result made from it - the in-place work a later producer does on 'its' array (rounding, stamping fill values, clamping) changes the result an earlier command produced.")
    n_kept = R.no_kept_state(ctx, idx, "C09.d", None, "; a later execution that works in place on what it was handed changes the values an earlier command's result holds", copies_suffice=True)
    ctx.floor("C09.d", "execute bodies", n_kept, 30)
    kinds = {}
    n_sites = 0
    for key, (d, r) in sorted(R.results(idx).items()):
        per = {}
        for w in r.writes:
            n_sites += 1
            cat = w.what.split(" ")[0]
            kinds[cat] = kinds.get(cat, 0) + 1
            bad = sorted(a for a in w.alias if is_input_token(a) and a != "self")
            site = w.via[0] if w.via else w.node
            role = "inplace@%s" % K.src(site)[:70]
            con = "%s.execute::%s" % (d.key, role)
            rec = per.setdefault(con, {"line": getattr(site, "lineno", w.line), "bad": set(), "whats": []})
            rec["bad"] |= set(bad)
            rec["whats"].append("L%d %s" % (w.line, w.what))
        for con, rec in per.items():
            if rec["bad"]:
                ctx.violate("C09.a", con, d.module.rel, rec["line"],
                            "writes in place through a value that may be the input %s itself (or a view of it): %s — the producer's memoised result changes under every other consumer"
                            % (R.tok_text(rec["bad"]), "; ".join(rec["whats"][:4])))
            else:
                ctx.hold("C09.a", con, d.module.rel, rec["line"], "target is fresh: %s" % "; ".join(rec["whats"][:2]))
        # information: returning an input alias is harmless exactly when C09.a holds
        for n, s, v in R.ret_sites(d, r):
            if isinstance(v, Arr) and any(is_input_token(a) for a in v.alias):
                ctx.note("%s returns a value that may be its input itself (%s) — harmless while C09.a holds" % (R.ret_key(d, n), R.tok_text(a for a in v.alias if is_input_token(a))))
    ctx.floor("C09.a", "in-place sites in execute bodies and inlined helpers", n_sites, 60)
    ctx.extra["inplace_site_kinds"] = kinds
    # C09.b
    sym = Arr(kind="masked", alias=frozenset({"X"}), M=frozenset({"X"}), D=frozenset({"X"}), shape="same")
    res, out, fi = R.summarize_helper(idx, "mpilot.utils", "insure_fuzzy", [sym, Scal(sym="lo"), Scal(sym="hi")])
    writes_arg = any("X" in w.alias for w in res.writes)
    returns_arg = isinstance(out, Arr) and "X" in out.alias
    ctx.hold("C09.b", "%s::summary" % fi.key, K.rel(fi), fi.node.lineno,
             "summary from body: %s argument 0 in place, returns %s" % ("writes" if writes_arg else "does not write", "argument 0" if returns_arg else "a fresh value"))
    # C09.c
    n = 0
    for mod, f, node in K.scoped_nodes(idx):
        tgt = None
        if isinstance(node, (ast.Assign, ast.AugAssign)):
            tgts = node.targets if isinstance(node, ast.Assign) else [node.target]
            for t in tgts:
                for x in ast.walk(t):
                    if isinstance(x, ast.Attribute) and x.attr == "result" and isinstance(x.ctx, ast.Load) and x is not t:
                        tgt = x
                    if isinstance(x, ast.Attribute) and x.attr == "result" and x is t and isinstance(node, ast.AugAssign):
                        tgt = x  # `c.result += v` operates in place on the shared array before the (failing) rebind
        if tgt is not None:
            n += 1
            top = f
            while top is not None and top.parent is not None:
                top = top.parent
            in_exec = top is not None and top.name == "execute"
            if in_exec:
                continue  # execute bodies are covered by C09.a through the alias analysis
            ctx.violate("C09.c", "%s::write-through-result" % K.where(mod, f), mod.rel, node.lineno, "a store goes through `.result` of a command: %s" % K.src(node))
    # the memo itself is rebound only by Command.run: a cleaner or consumer that stores a converted / validated copy back into
    # `<command>._result` changes the element type or the object under every later reader
    n_mem = 0
    for mod, f, nd in K.scoped_nodes(idx):
        hit = None
        if isinstance(nd, ast.Attribute) and isinstance(nd.ctx, (ast.Store, ast.Del)) and nd.attr == A.memo:
            hit = nd
        if isinstance(nd, ast.Call) and isinstance(nd.func, ast.Name) and nd.func.id == "setattr" and len(nd.args) >= 2 and isinstance(nd.args[1], ast.Constant) and nd.args[1].value == A.memo:
            hit = nd
        if hit is None:
            continue
        n_mem += 1
        inside = f is A.run or f is A.init
        if not inside and f is not None and f.cls is A.command:
            continue  # methods of Command itself are C01.b's business (release protocols and the like)
        ctx.ob("C09.c", "%s::store(%s)" % (K.where(mod, f), A.memo), mod.rel, hit.lineno, inside,
               "the memo is stored by Command.run / __init__" if inside else
               "`%s` rebinds a command's stored result from outside Command.run: a result that consumers have already read is replaced (another object, another element type) depending on which command is validated or run next" % K.src(hit)[:60], nontrivial=not inside)
    ctx.floor("C09.c", "stores to the memo field", n_mem, 2)
    ctx.hold("C09.c", "package::no-write-through-result", "mpilot", 0, "no store through `.result` outside execute bodies (%d candidate statement(s) inspected)" % n, nontrivial=False)
