"""C13 — only declared error types escape, and the CLI reports them."""
import ast

from engine import grammar, tables
from engine import regexlang as RL
from engine.index import own_nodes
from engine.report import AnalysisError

from . import common as K
from .C20 import is_mpilot_error, total


def run(ctx, idx):
    A = K.anchors(idx)
    from .C14 import rule_d as _computed_attrs

    _computed_attrs(ctx, idx, A, rule="C13.f")
    # Program.run works outside Command.run's wrapper: what it does with a raw argument value must not be able to raise.  The
    # raw value of an argument may be handed to a cleaner (total by C13.a) or tested with isinstance - not iterated, hashed as a
    # key, or flattened: a number where a list is declared, a list where a name is, then escape as TypeError.
    ctx.rule("C13.g", "In Program.run a raw argument value (`<argument>.value`) goes only to a parameter's clean() or into an isinstance test; it is never iterated, flattened or used as a dictionary key before it has been cleaned (a raw TypeError there is outside every wrapper).")
    pr_ = A.program_run
    # Program.run and the Program methods it hands the work to (a per-command helper split off the pre-pass is still outside
    # Command.run's wrapper)
    fns_ = [pr_] + [f_ for f_ in K.helper_closure(idx, pr_) if f_ is not pr_ and getattr(f_, "cls", None) is pr_.cls]
    grew_ = True
    while grew_:  # private helpers the normaliser inlined are not in the call graph: followed by name, through `self.<helper>(...)`
        grew_ = False
        called_ = {c_.func.attr for g_ in fns_ for c_ in ast.walk(getattr(g_, "node_orig", None) or g_.node) if isinstance(c_, ast.Call) and isinstance(c_.func, ast.Attribute)}
        for f_ in idx.funcs:
            if getattr(f_, "absorbed", False) and getattr(f_, "cls", None) is pr_.cls and f_.name in called_ and f_ not in fns_:
                fns_.append(f_)
                grew_ = True
    nodes_ = [getattr(f_, "node_orig", None) or f_.node for f_ in fns_]
    par_ = {}
    for node_ in nodes_:
        for x_ in ast.walk(node_):
            for c_ in ast.iter_child_nodes(x_):
                par_[id(c_)] = x_
    argvars = {t_.id for node_ in nodes_ for lp_ in ast.walk(node_) if isinstance(lp_, (ast.For, ast.comprehension)) and K.src(lp_.iter).endswith(".arguments") for t_ in ast.walk(lp_.target) if isinstance(t_, ast.Name)}
    n_raw = 0
    seen_ = set()
    for x_ in [y_ for node_ in nodes_ for y_ in ast.walk(node_)]:
        if id(x_) in seen_:
            continue
        seen_.add(id(x_))
        if not (isinstance(x_, ast.Attribute) and x_.attr == "value" and isinstance(x_.value, ast.Name) and x_.value.id in argvars and isinstance(x_.ctx, ast.Load)):
            continue
        n_raw += 1
        up = par_.get(id(x_))
        ok_use = False
        if isinstance(up, ast.Call) and isinstance(up.func, ast.Attribute) and up.func.attr == "clean" and up.args and up.args[0] is x_:
            ok_use = True
        if isinstance(up, ast.Call) and isinstance(up.func, ast.Name) and up.func.id == "isinstance" and up.args and up.args[0] is x_:
            ok_use = True
        if isinstance(up, ast.Assign) and up.value is x_:
            ok_use = True  # stored under a name: the uses of that name are not followed (no verdict from this site)
        if isinstance(up, ast.Call) and isinstance(up.func, ast.Name) and any(a_ is x_ for a_ in up.args) \
                and any(isinstance(d_, ast.FunctionDef) and d_.name == up.func.id and d_ is not node_ for node_ in nodes_ for d_ in ast.walk(node_)):
            ok_use = True  # handed to a function defined inside the method: what that function does with its parameter is not followed (no verdict from this site)
        if isinstance(up, (ast.List, ast.Tuple)) and isinstance(up.ctx, ast.Load) and isinstance(par_.get(id(up)), ast.Assign):
            ok_use = True  # put into a list display that is stored under a name: building it cannot raise, its uses are not followed
        if not ok_use:
            # under a test that the raw value is a string (`isinstance(a.value, six.string_types) and a.value not in self.commands`):
            # a string is hashable and iterable, nothing done with it there raises TypeError
            STR_ = ("six.string_types", "str", "six.text_type", "(str,)", "six.string_types + (six.text_type,)")
            is_str_test = lambda t_: isinstance(t_, ast.Call) and isinstance(t_.func, ast.Name) and t_.func.id == "isinstance" and len(t_.args) == 2 \
                and K.src(t_.args[0]) == K.src(x_) and K.src(t_.args[1]) in STR_  # noqa: E731
            conj = lambda t_: list(t_.values) if isinstance(t_, ast.BoolOp) and isinstance(t_.op, ast.And) else [t_]  # noqa: E731
            ch_, an_ = x_, par_.get(id(x_))
            while an_ is not None and not isinstance(an_, (ast.FunctionDef, ast.Lambda)):
                if isinstance(an_, ast.BoolOp) and isinstance(an_.op, ast.And):
                    before = an_.values[:next(i_ for i_, v_ in enumerate(an_.values) if v_ is ch_)]
                    if any(is_str_test(v_) for v_ in before):
                        ok_use = True
                if isinstance(an_, (ast.If, ast.IfExp)) and ch_ is not an_.test and (ch_ is an_.body if isinstance(an_, ast.IfExp) else any(ch_ is b_ for b_ in an_.body)):
                    if any(is_str_test(v_) for v_ in conj(an_.test)):
                        ok_use = True
                ch_, an_ = an_, par_.get(id(an_))
        ctx.ob("C13.g", "%s::raw-argument-value@%d" % (pr_.key, n_raw), K.rel(pr_), x_.lineno, ok_use,
               "the raw value goes to clean() / an isinstance test" if ok_use else
               "`%s` uses the raw value of an argument before it was cleaned (`%s`): a value of the wrong kind - a number where a list of results is declared, a list where one name is - raises TypeError here, in Program.run's own code, outside Command.run's wrapper" % (K.src(up)[:70] if up is not None else K.src(x_), K.src(x_)))
    ctx.floor("C13.g", "uses of raw argument values in Program.run", n_raw, 1)
    # a line number is optional: commands and arguments added through the API have `lineno=None`.  Ordering by it - sorted / sort /
    # min / max with a key that reads `.lineno`, or `<`-style comparisons of it - raises a raw TypeError on Python 3 as soon as one
    # such command is among the values, in Program's own code, outside every wrapper.
    # an answer that can be EMPTY is not indexed: `get_close_matches(...)[0]`, `re.findall(...)[0]`, `glob(...)[0]` raise IndexError
    # when there is no match - in the loader that is a raw error outside every wrapper
    ctx.rule("C13.i", "In program / command / parameter / utility code the result of a call that may be an empty sequence (difflib.get_close_matches, re.findall, glob, heapq.nlargest / nsmallest, Counter.most_common, a filtered comprehension) is not indexed directly: with no match the IndexError escapes loading as a raw error.")
    MAYBE_EMPTY = ("get_close_matches", "findall", "glob", "iglob", "nlargest", "nsmallest", "most_common", "split_lines", "splitlines")
    n_i = 0
    for mod_, f_, n_ in K.scoped_nodes(idx):
        if mod_.name.startswith("mpilot.libraries") or "/tests/" in mod_.rel or mod_.name.startswith("mpilot.parser.parsetab"):
            continue
        if not (isinstance(n_, ast.Subscript) and isinstance(n_.ctx, ast.Load) and isinstance(n_.slice, ast.Constant) and isinstance(n_.slice.value, int)):
            continue
        base_ = n_.value
        if isinstance(base_, ast.Name) and f_ is not None:
            base_ = K.expand(f_, base_) or base_
        kind_ = None
        if isinstance(base_, ast.Call) and K.src(base_.func).split(".")[-1] in MAYBE_EMPTY:
            kind_ = K.src(base_.func).split(".")[-1]
        elif isinstance(base_, ast.ListComp) and any(g_.ifs for g_ in base_.generators):
            kind_ = "a filtered comprehension"
        if kind_ is None:
            continue
        n_i += 1
        par_i = {}
        if f_ is not None:
            for x_ in ast.walk(f_.node):
                for ch_ in ast.iter_child_nodes(x_):
                    par_i[id(ch_)] = x_
        up_ = par_i.get(id(n_))
        guarded = False
        while up_ is not None:
            if isinstance(up_, ast.Try) and any(h_.type is None or any(nm_ in K.src(h_.type) for nm_ in ("IndexError", "LookupError", "Exception")) for h_ in up_.handlers):
                guarded = True
            if isinstance(up_, (ast.If, ast.IfExp)) and (K.src(n_.value) in K.src(up_.test)):
                guarded = True
            up_ = par_i.get(id(up_))
        ctx.ob("C13.i", "%s::indexed-answer(%s)" % (K.where(mod_, f_), kind_), mod_.rel, n_.lineno, guarded, "indexed only after a test / inside a handler" if guarded else
               "`%s` indexes the answer of %s, which is EMPTY when nothing matches: IndexError escapes as a raw error (the command-line tool ends in a traceback instead of the problem / solution report)" % (K.src(n_)[:60], kind_))
    if not n_i:
        ctx.hold("C13.i", "mpilot::no-indexed-maybe-empty-answer", "mpilot/program.py", 1, "no direct index into a possibly empty answer", nontrivial=False)
    ctx.rule("C13.h", "Line numbers are optional (None for commands and arguments added through the API): program / command / parameter code never orders by `.lineno` - no sorted / sort / min / max whose key reads it, no `<`, `<=`, `>`, `>=` on it - because None does not order against None or an int (TypeError outside Command.run's wrapper).")
    n_lines = 0
    found_h = []
    for mod_, fi_, n_ in K.scoped_nodes(idx):
        if mod_.name not in ("mpilot.program", "mpilot.commands", "mpilot.params", "mpilot.utils", "mpilot.arguments"):
            continue
        if isinstance(n_, ast.Attribute) and n_.attr == "lineno" and isinstance(n_.ctx, ast.Load):
            n_lines += 1
        key_ = None
        if isinstance(n_, ast.Call) and ((isinstance(n_.func, ast.Name) and n_.func.id in ("sorted", "min", "max")) or (isinstance(n_.func, ast.Attribute) and n_.func.attr == "sort")):
            key_ = next((k_.value for k_ in n_.keywords if k_.arg == "key"), None)
        if key_ is not None:
            reads = any(isinstance(x_, ast.Attribute) and x_.attr == "lineno" for x_ in ast.walk(key_)) or \
                (isinstance(key_, ast.Call) and K.src(key_.func).endswith("attrgetter") and any(isinstance(a_, ast.Constant) and a_.value == "lineno" for a_ in key_.args))
            guarded = any(isinstance(x_, (ast.IfExp, ast.BoolOp)) for x_ in ast.walk(key_))  # `c.lineno or 0`, `... if c.lineno is not None else ...`: a total key
            if reads and not guarded:
                found_h.append((mod_, fi_, n_, "`%s` orders by `.lineno`" % K.src(n_)[:70]))
        if isinstance(n_, ast.Compare) and any(isinstance(o_, (ast.Lt, ast.LtE, ast.Gt, ast.GtE)) for o_ in n_.ops) and any(isinstance(x_, ast.Attribute) and x_.attr == "lineno" for x_ in [n_.left] + list(n_.comparators)):
            found_h.append((mod_, fi_, n_, "`%s` compares `.lineno` for order" % K.src(n_)[:70]))
    if found_h:
        for mod_, fi_, n_, what_ in found_h[:3]:
            ctx.violate("C13.h", "%s::orders-by-optional-line" % K.where(mod_, fi_), mod_.rel, n_.lineno, "%s: a command or argument added through the API has no line number (None), and Python 3 cannot order None against None or an int - a raw TypeError escapes from %s for a valid model" % (what_, fi_.qualname if fi_ is not None else "module code"))
    else:
        ctx.hold("C13.h", "mpilot::optional-line-numbers-are-not-ordered", "mpilot/program.py", 1, "no sort key or order comparison reads `.lineno` (%d reads of it examined)" % n_lines, nontrivial=False)
    ctx.floor("C13.h", "reads of .lineno in program / command / parameter code", n_lines, 10)
    ctx.assume("operation table of Engine D (see C20); third-party code raises nothing on well-typed arguments; six.raise_from and sys.exit do not return")
    ctx.rule("C13.a", "Cleaners are total: for every Parameter.clean and every raw kind the escape set ⊆ subclasses of MPilotError.")
    ctx.rule("C13.b", "Run boundary: Command.run's try covers validate_params and execute, catches Exception, re-raises MPilotError unchanged and raises UnexpectedError (a ProgramError) from everything else; inside any handler an attribute read on the caught error exists for every class the handler admits; every explicit raise reachable from from_source / Program.run outside that handler is SyntaxError or an MPilotError subclass.")
    ctx.rule("C13.c", "Lexer and parser callbacks: t_error and p_error raise SyntaxError on every path; numeric token functions cannot raise (token language ⊆ builtin's language); string decoding is guarded.")
    ctx.rule("C13.d", "Exception classes construct: each super(K, self).__init__ inside class C has K is C (or a base of C) and its arguments fit the base signature.")
    ctx.rule("C13.e", "CLI handler: main's try contains the from_source and run calls; the handler catches the root MPilotError; every path through it writes six.text_type(ex) to stderr and reaches sys.exit with a non-zero constant.")
    total(ctx, idx, "C13.a")
    # ------------------------------------------------------------------ b
    fi = A.run
    cfg = K.cfg_of(idx, fi)
    sn = K.self_name(fi)
    tries = [n for n in own_nodes(fi.node) if isinstance(n, ast.Try)]
    execs = cfg.find("call", lambda n: K.is_self_call(n.ast, "execute", sn))
    vals = cfg.find("call", lambda n: K.is_self_call(n.ast, "validate_params", sn))
    con = "%s::wrapping-handler" % fi.key
    ok = False
    why = "Command.run has no try/except around execute"
    for t in tries:
        inside = lambda node: any(node.ast is x for b in t.body for x in ast.walk(b))  # noqa: E731
        if not execs or not all(inside(e) for e in execs):
            continue
        if not vals or not all(inside(v) for v in vals):
            why = "validate_params runs outside the try: an unexpected error in a cleaner escapes unwrapped"
            continue
        hs = t.handlers
        catch = [h for h in hs if h.type is None or idx.qualname(fi.module, h.type, fi) in ("builtins.Exception", "builtins.BaseException")]
        if not catch:
            why = "the handler catches %s, not Exception: other exception types escape from run()" % ", ".join(K.src(h.type) for h in hs)
            continue
        h = catch[0]
        # handler body: MPilotError re-raised unchanged; everything else -> UnexpectedError
        hcfg_nodes = [n for n in cfg.nodes if n.stmt is not None and any(n.stmt is x for b in h.body for x in ast.walk(b))]
        reraise = [n for n in hcfg_nodes if n.kind == "raise" and n.ast.exc is None]
        tests = [n for n in hcfg_nodes if n.kind == "test" and "isinstance" in n.text() and "MPilotError" in n.text()]
        wraps = [n for n in hcfg_nodes if n.kind == "call" and (n.meta.get("qual") or "").endswith("UnexpectedError")]
        rf = [n for n in hcfg_nodes if (n.kind == "call" and n.meta.get("noreturn")) or (n.kind == "raise" and n.ast.exc is not None)]
        handler_node = [n for n in cfg.find("handler") if n.ast is h]
        falls = handler_node and cfg.exit in cfg.reachable(handler_node[0], avoid=set())
        # does any path from the handler entry reach the normal exit?
        if handler_node:
            falls = cfg.exit in cfg.reachable(handler_node[0])
        # alternative form: a dedicated `except MPilotError: raise` clause placed before the catch-all one
        earlier = hs[: hs.index(h)]
        dedicated = False
        for h0 in earlier:
            q0 = idx.qualname(fi.module, h0.type, fi) if h0.type is not None and not isinstance(h0.type, ast.Tuple) else ""
            if q0.endswith("exceptions.MPilotError") and len(h0.body) == 1 and isinstance(h0.body[0], ast.Raise) and h0.body[0].exc is None:
                dedicated = True
        if dedicated and wraps and rf and not falls:
            ok = True
            why = "try covers validate_params and execute; `except MPilotError: raise` first, then except Exception -> UnexpectedError"
        elif not (reraise and tests):
            why = "MPilotError is not re-raised unchanged (it would be wrapped as UnexpectedError and lose its type)"
        elif not wraps or not rf:
            why = "foreign exceptions are not converted to UnexpectedError"
        elif falls:
            why = "a path through the handler swallows the exception and returns normally"
        else:
            ok = True
            why = "try covers validate_params and execute; except Exception: MPilotError re-raised, others -> UnexpectedError"
    ctx.ob("C13.b", con, K.rel(fi), fi.node.lineno, ok, why)
    ue = idx.cls("mpilot.exceptions", "UnexpectedError")
    ctx.ob("C13.b", "mpilot/exceptions.py::UnexpectedError::is-mpilot-error", ue.module.rel, ue.node.lineno, is_mpilot_error(idx, ue.qual), "UnexpectedError is an MPilotError", nontrivial=False)
    # explicit raises reachable from loading / running, outside Command.run's handler
    prog = A.program
    starts = [prog.methods[m] for m in ("from_source", "run", "__init__", "add_command", "to_string", "to_file") if m in prog.methods]
    execs_f = [d.execute for d in K.table(idx) if d.execute is not None]
    reach, parent = idx.reachable(starts, stop=[A.run])
    reach = {f for f in reach if f not in execs_f and f.name != "execute"}
    lexicon = grammar.Lexicon(idx)
    n_raise = 0
    for f in sorted(reach, key=lambda f: f.key):
        c = K.cfg_of(idx, f)
        for r in c.find("raise"):
            if r not in c.reachable() or c.raise_exit not in c.reachable(r):
                continue
            q = r.meta.get("qual")
            if getattr(r.ast, "exc", None) is None and isinstance(r.ast, ast.Raise):
                continue  # re-raise of what the handler caught; classified at its origin
            quals = [q]
            if q is None:
                # `error = A if c else B; raise error(...)`: every alternative is classified
                exc = getattr(r.ast, "exc", None)
                callee = exc.func if isinstance(exc, ast.Call) else exc
                alts = []
                if isinstance(callee, ast.Name):
                    d_ = K.single_defs(f).get(callee.id)
                    work = [d_] if d_ is not None else []
                    while work:
                        x_ = work.pop()
                        if isinstance(x_, ast.IfExp):
                            work += [x_.body, x_.orelse]
                        else:
                            alts.append(idx.qualname(f.module, x_, f) if isinstance(x_, (ast.Name, ast.Attribute)) else None)
                if not alts or any(a_ is None for a_ in alts):
                    raise AnalysisError("C13.b: cannot resolve the class raised at %s:%s" % (K.rel(f), r.line))
                quals = alts
                q = alts[0]
            n_raise += 1
            good = all(q_ in ("builtins.SyntaxError",) or is_mpilot_error(idx, q_) for q_ in quals) or (f.name in ("execute",))
            if q == "builtins.NotImplementedError" and f.cls is A.command:
                continue
            ctx.ob("C13.b", "%s::raise(%s)" % (f.key, q.split(".")[-1]), K.rel(f), r.line, good,
                   "declared error type" if good else "%s raises %s, which is neither SyntaxError nor an MPilotError, on a path reachable from loading/running outside Command.run's handler" % (f.qualname, q), nontrivial=not good)
    ctx.floor("C13.b", "explicit raise sites reachable from the load/run boundary", n_raise, 15)
    # implicit StopIteration / unguarded next()
    for f in sorted(reach, key=lambda f: f.key):
        c = K.cfg_of(idx, f)
        for n in c.find("call", lambda n: n.meta.get("qual") == "builtins.next" and len(n.ast.args) == 1):
            pads = [m for m, l in n.succ if l == "exc"]
            caught = any(h.kind == "handler" and any("StopIteration" in str(t) or t in ("builtins.Exception",) for t in (h.meta.get("types") or ["bare"])) for p in pads for h, _ in [(x, 0) for x, _l in p.succ])
            if not caught:
                # next(iter(X)) / next(iter(X.values())) where X was just tested non-empty: a test on X itself whose true edge is the
                # only way to the call, with nothing in between that stores to X or calls a method on it
                a0 = n.ast.args[0]
                inner = a0.args[0] if isinstance(a0, ast.Call) and isinstance(a0.func, ast.Name) and a0.func.id == "iter" and len(a0.args) == 1 else None
                if isinstance(inner, ast.Call) and isinstance(inner.func, ast.Attribute) and inner.func.attr in ("values", "keys", "items") and not inner.args:
                    inner = inner.func.value
                if inner is not None:
                    text = K.src(inner)
                    for t in c.find("test", lambda t: K.src(t.ast) == text):
                        if not c.dominates(t, n):
                            continue
                        seen, work = set(), [m for m, l in t.succ if l != "true"]
                        while work:
                            x = work.pop()
                            if x in seen:
                                continue
                            seen.add(x)
                            work += [m for m, l in x.succ]
                        via_true = c.reachable([m for m, l in t.succ if l == "true"], avoid={n})
                        between = [x for x in via_true if x.kind in ("store", "call") and x is not t and text in K.src(x.ast) and not (x.kind == "call" and x.ast is inner)]
                        between = [x for x in between if c.reachable(x) & {n} and not any(x.ast is y for y in ast.walk(n.ast))]
                        if n not in seen and not between:
                            caught = True
            ctx.ob("C13.b", "%s::next()" % f.key, K.rel(f), n.line, caught, "StopIteration handled, or the container was tested non-empty" if caught else "next() without a default outside a StopIteration handler")
    # ------------------------------------------------------------------ c
    rel = lexicon.mod.rel
    for nm, fn in (("t_error", lexicon.t_error), ("p_error", lexicon.p_error)):
        con = "%s::%s::raises-syntax-error" % (rel, nm)
        if fn is None:
            ctx.violate("C13.c", con, rel, 0, "%s vanished" % nm)
            continue
        from engine.cfg import CFG
        c = CFG(fn, idx, lexicon.mod, None)
        rz = [n for n in c.find("raise") if n.meta.get("qual") == "builtins.SyntaxError"]
        other = [n for n in c.find("raise") if n not in rz]
        ok = c.exit not in c.reachable() and rz and not other
        ctx.ob("C13.c", con, rel, fn.lineno, ok, "SyntaxError on every path" if ok else "%s can return normally or raise another type" % nm)
    handler_attribute_reads(ctx, idx, "C13.b")
    grammar_action_types(ctx, idx, "C13.c", lexicon)
    from .C10 import error_callbacks_total
    error_callbacks_total(ctx, idx, "C13.c", lexicon)
    dfas = {r.name: RL.dfa(r.pattern) for r in lexicon.rules}
    for r in lexicon.rules:
        if r.kind != "func":
            continue
        fn = r.node
        con = "%s::%s::cannot-raise" % (rel, r.name)
        probs = []
        for n in ast.walk(fn):
            if isinstance(n, ast.Call) and isinstance(n.func, ast.Name) and n.func.id in ("int", "float"):
                ref = RL.dfa(RL.L_INT_BUILTIN if n.func.id == "int" else RL.L_FLOAT_BUILTIN)
                w = RL.not_included(dfas[r.name], ref)
                if w is not None:
                    probs.append("%s(%r) raises ValueError: the token pattern accepts text the builtin rejects" % (n.func.id, w))
                if n.func.id == "int" and RL.accepts(dfas[r.name], "1" * (RL.INT_MAX_STR_DIGITS + 1)) and not value_error_guarded(fn, n) and K.int_length_guard(fn) is None:
                    probs.append("int() refuses more than %d digits with ValueError (Python >= 3.11) and the %s pattern bounds no length: a long enough digit string escapes the lexer as ValueError instead of a syntax error" % (RL.INT_MAX_STR_DIGITS, r.token))
            if isinstance(n, ast.Call) and isinstance(n.func, ast.Attribute) and n.func.attr == "decode":
                guarded = False
                for t in ast.walk(fn):
                    if isinstance(t, ast.Try) and any(n is x for b in t.body for x in ast.walk(b)):
                        for h in t.handlers:
                            hs = K.src(h.type) if h.type is not None else ""
                            if ("Unicode" in hs or "ValueError" in hs or hs in ("Exception", "")) and any(isinstance(x, ast.Raise) and x.exc is not None and "SyntaxError" in K.src(x.exc) for x in ast.walk(h)):
                                guarded = True
                if not guarded and n.args and isinstance(n.args[0], ast.Constant) and "escape" in str(n.args[0].value):
                    probs.append("`%s` can raise UnicodeDecodeError on a malformed escape and nothing converts it to SyntaxError" % K.src(n)[:60])
            if isinstance(n, ast.Call) and K.src(n.func).split(".")[-1] in ("escape_decode", "escape_encode"):
                # codecs.escape_decode reports a malformed escape (`\x` without two hex digits) as a plain ValueError,
                # not as UnicodeDecodeError
                covered = False
                for t in ast.walk(fn):
                    if isinstance(t, ast.Try) and any(n is x for b in t.body for x in ast.walk(b)):
                        for h in t.handlers:
                            hs = K.src(h.type) if h.type is not None else ""
                            names = {x_.strip() for x_ in hs.strip("()").split(",")} if hs else {""}
                            if names & {"ValueError", "Exception", "BaseException", ""} and any(isinstance(x, ast.Raise) and x.exc is not None and "SyntaxError" in K.src(x.exc) for x in ast.walk(h)):
                                covered = True
                if not covered:
                    probs.append("`%s` reports a malformed escape (`\\x` without two hex digits) as ValueError, which the handler (UnicodeDecodeError) does not catch: it escapes from the lexer as a foreign exception instead of a syntax error" % K.src(n)[:50])
            if isinstance(n, ast.Raise) and n.exc is not None and "SyntaxError" not in K.src(n.exc):
                probs.append("raises %s" % K.src(n.exc)[:40])
        if probs:
            ctx.violate("C13.c", con, rel, fn.lineno, "; ".join(probs))
        else:
            ctx.hold("C13.c", con, rel, fn.lineno, "conversions proven safe by language inclusion / guarded")
    exception_construct(ctx, idx, "C13.d")
    str_methods_total(ctx, idx, "C13.d")
    # ------------------------------------------------------------------ e
    cli = idx.func("mpilot.cli.mpilot", "main")
    c = K.cfg_of(idx, cli)
    tries = [n for n in own_nodes(cli.node) if isinstance(n, ast.Try)]
    con = "%s::handler" % cli.key
    # the work may sit in a plain function that RETURNS the exit status, the click command being a thin wrapper: read on the source
    # as written (the normaliser inlines such a helper into the command)
    for f_ in idx.funcs:
        if f_.module is not cli.module or f_ is cli:
            continue
        n0_ = getattr(f_, "node_orig", None) or f_.node
        for t_ in [x for x in ast.walk(n0_) if isinstance(x, ast.Try)]:
            body_src = " ".join(K.src(b_) for b_ in t_.body)
            hs_ = [h_ for h_ in t_.handlers if h_.type is not None and K.src(h_.type).split(".")[-1] == "MPilotError"]
            if "from_source" in body_src and ".run(" in body_src and hs_ and status_reaches_exit(idx, f_, hs_[0]):
                h_ = hs_[0]
                hsrc = " ".join(K.src(b_) for b_ in h_.body)
                wrote = ("stderr" in hsrc or "err=True" in hsrc) and ("text_type(%s)" % (h_.name or "ex") in hsrc or "str(%s)" % (h_.name or "ex") in hsrc)
                ctx.ob("C13.e", con, K.rel(cli), h_.lineno, wrote, "except MPilotError in %s: message to stderr, a non-zero status returned, and every caller hands a non-zero status to sys.exit" % f_.name if wrote else
                       "the error text six.text_type(ex) is not written to stderr in the handler of %s" % f_.name)
                return
    fs_calls = [n for n in own_nodes(cli.node) if isinstance(n, ast.Call) and isinstance(n.func, ast.Attribute) and n.func.attr == "from_source"]
    run_calls = [n for n in own_nodes(cli.node) if isinstance(n, ast.Call) and isinstance(n.func, ast.Attribute) and n.func.attr == "run"]
    ok = False
    why = "main has no handler around loading and running"
    for t in tries:
        inside = lambda node: any(node is x for b in t.body for x in ast.walk(b))  # noqa: E731
        if not (fs_calls and run_calls and all(inside(x) for x in fs_calls + run_calls)):
            why = "the try does not contain both the from_source and the run call"
            continue
        hs = [h for h in t.handlers if h.type is not None and (idx.qualname(cli.module, h.type, cli) or "").endswith("exceptions.MPilotError")]
        broad = [h for h in t.handlers if h.type is None or idx.qualname(cli.module, h.type, cli) in ("builtins.Exception", "builtins.BaseException")]
        if not hs and not broad:
            why = "the handler catches %s, not the root MPilotError: other MPilot errors end in a traceback" % ", ".join(K.src(h.type) for h in t.handlers)
            continue
        h = (hs or broad)[0]
        hn = [n for n in c.find("handler") if n.ast is h]
        if not hn:
            raise AnalysisError("C13.e: handler node not found")
        exits = c.find("call", lambda n: n.meta.get("qual") == "sys.exit" and any(n.ast is x for b in h.body for x in ast.walk(b)))
        writes = c.find("call", lambda n: isinstance(n.ast.func, ast.Attribute) and n.ast.func.attr == "write" and "stderr" in K.src(n.ast.func) and ("text_type(%s)" % (h.name or "ex") in K.src(n.ast) or "str(%s)" % (h.name or "ex") in K.src(n.ast)))
        # click.echo / click.secho write to standard error exactly when err=True is passed (stdout otherwise)
        writes += c.find("call", lambda n: (n.meta.get("qual") or K.src(n.ast.func)) in ("click.echo", "click.secho", "click.utils.echo", "click.termui.secho")
                         and any(k.arg == "err" and isinstance(k.value, ast.Constant) and k.value.value is True for k in n.ast.keywords)
                         and not any(k.arg == "file" for k in n.ast.keywords)
                         and ("text_type(%s)" % (h.name or "ex") in K.src(n.ast) or "str(%s)" % (h.name or "ex") in K.src(n.ast)))
        if not exits and status_reaches_exit(idx, cli, h):
            ok = bool(writes) and all(c.must_pass_through(hn[0], r_, set(writes)) for r_ in c.find("return") if any(r_.ast is x for b in h.body for x in ast.walk(b)))
            why = "except MPilotError: message to stderr, a non-zero status returned, and every caller hands a non-zero status to sys.exit" if ok else "the error text six.text_type(ex) is not written to stderr on every path to the return of the status"
            continue
        if not exits:
            why = "the handler never calls sys.exit"
        elif c.exit in c.reachable(hn[0]):
            why = "a path through the handler returns normally: the process exits with status 0 after an error"
        elif not all(e.ast.args and isinstance(K_const(idx, cli, e.ast.args[0]), int) and K_const(idx, cli, e.ast.args[0]) != 0 for e in exits):
            why = "sys.exit is called with a zero or non-constant status"
        elif not writes or not all(c.must_pass_through(hn[0], e, set(writes)) for e in exits):
            why = "the error text six.text_type(ex) is not written to stderr on every path to sys.exit"
        else:
            ok = True
            why = "except MPilotError: message to stderr, sys.exit(non-zero) on every path"
    ctx.ob("C13.e", con, K.rel(cli), cli.node.lineno, ok, why)


def status_reaches_exit(idx, fn, handler):
    """The handler leaves by `return <non-zero constant>` on every path, and every call of `fn` in its module hands a non-zero
    status to the interpreter: `sys.exit(fn(...))`, or `s = fn(...)` followed in the same block by `sys.exit(s)` - unconditionally
    or under `if s:` / `if s != 0:`.  (click discards what a command function returns: `return fn(...)` exits with status 0.)"""
    last = handler.body[-1] if handler.body else None
    rets = [x for b in handler.body for x in ast.walk(b) if isinstance(x, ast.Return)]
    if not rets or not isinstance(last, ast.Return):
        return False
    for r in rets:
        v = r.value
        if isinstance(v, ast.UnaryOp) and isinstance(v.op, ast.USub):
            v = v.operand
        if not (isinstance(v, ast.Constant) and isinstance(v.value, int) and v.value != 0):
            return False
    calls = []
    for f in idx.funcs:  # on the source as written (a helper the normaliser inlines is no longer called in the normalised caller)
        if f.module is not fn.module or f is fn:
            continue
        node0 = getattr(f, "node_orig", None) or f.node
        for n in ast.walk(node0):
            if isinstance(n, ast.Call) and isinstance(n.func, ast.Name) and n.func.id == fn.name:
                calls.append((f, n))
    if not calls:
        return False
    for f, call in calls:
        node0 = getattr(f, "node_orig", None) or f.node
        par = {}
        for x in ast.walk(node0):
            for ch in ast.iter_child_nodes(x):
                par[id(ch)] = x
        up = par.get(id(call))
        if isinstance(up, ast.Call) and K.src(up.func) in ("sys.exit", "exit", "raise SystemExit") and call in up.args:
            continue
        if not (isinstance(up, ast.Assign) and len(up.targets) == 1 and isinstance(up.targets[0], ast.Name)):
            return False
        s_ = up.targets[0].id
        blk = None
        for x in ast.walk(node0):
            for fld in ("body", "orelse", "finalbody"):
                b = getattr(x, fld, None)
                if isinstance(b, list) and up in b:
                    blk = b
        if blk is None:
            return False
        ok = False
        for st in blk[blk.index(up) + 1:]:
            def exits_with(stm):
                return isinstance(stm, ast.Expr) and isinstance(stm.value, ast.Call) and K.src(stm.value.func) in ("sys.exit", "exit") and stm.value.args and K.src(stm.value.args[0]) == s_
            if exits_with(st):
                ok = True
                break
            if isinstance(st, ast.If) and any(exits_with(b_) for b_ in st.body):
                t = st.test
                if (isinstance(t, ast.Name) and t.id == s_) or (isinstance(t, ast.Compare) and len(t.ops) == 1 and isinstance(t.ops[0], ast.NotEq) and K.src(t.left) == s_ and isinstance(t.comparators[0], ast.Constant) and t.comparators[0].value == 0):
                    ok = True
                    break
            if any(isinstance(x, ast.Name) and x.id == s_ and isinstance(x.ctx, ast.Store) for x in ast.walk(st)) or isinstance(st, ast.Return):
                break
        if not ok:
            return False
    return True


BASE_EXC_ATTRS = {"args", "with_traceback", "__traceback__", "__cause__", "__context__", "__class__", "__doc__", "__dict__", "__module__", "__suppress_context__", "__notes__", "add_note"}


def instance_attrs(idx, ci):
    """names defined on instances of a package class: class attributes, methods and `self.X = ...` stores along the MRO"""
    out = set(BASE_EXC_ATTRS)
    for c in idx.mro(ci):
        if not hasattr(c, "methods"):
            continue
        out |= set(c.attrs) | set(c.methods)
        for m in c.methods.values():
            sn = K.self_name(m)
            for n in ast.walk(m.node):
                if isinstance(n, ast.Attribute) and isinstance(n.ctx, ast.Store) and isinstance(n.value, ast.Name) and n.value.id == sn:
                    out.add(n.attr)
    return out


def handler_attribute_reads(ctx, idx, rule):
    """Inside an `except ... as e` handler an attribute read on `e` must exist for every class the handler (narrowed by
    the enclosing isinstance tests) admits - otherwise the handler itself fails with AttributeError."""
    n_sites = 0
    for f in idx.funcs:
        if getattr(f, "absorbed", False):
            continue
        for h in [n for n in own_nodes(f.node) if isinstance(n, ast.ExceptHandler) and n.name and n.type is not None]:
            tnodes = h.type.elts if isinstance(h.type, ast.Tuple) else [h.type]
            base = []
            for t in tnodes:
                r = idx.resolve(f.module, t, f)
                base.append(r[1] if r and r[0] == "class" else None)

            def visit(node, narrowed):
                nonlocal n_sites
                if isinstance(node, ast.If):
                    nb = narrow(node.test, narrowed)
                    visit(node.test, narrowed)
                    visit_block(node.body, nb)
                    visit_block(node.orelse, narrowed)
                    return
                if isinstance(node, ast.BoolOp) and isinstance(node.op, ast.And):
                    cur = narrowed
                    for v in node.values:
                        visit(v, cur)
                        cur = narrow(v, cur)
                    return
                if isinstance(node, ast.BoolOp) and isinstance(node.op, ast.Or):
                    cur = narrowed
                    for v in node.values:
                        visit(v, cur)
                        cur = narrow_neg(v, cur)  # the next operand is evaluated only when this one was false
                    return
                if isinstance(node, ast.IfExp):
                    visit(node.test, narrowed)
                    visit(node.body, narrow(node.test, narrowed))
                    visit(node.orelse, narrowed)
                    return
                if isinstance(node, ast.Attribute) and isinstance(node.ctx, ast.Load) and isinstance(node.value, ast.Name) and node.value.id == h.name:
                    n_sites += 1
                    con = "%s::handler(%s).%s" % (f.key, h.name, node.attr)
                    if any(c is None for c in narrowed):
                        ok = node.attr in BASE_EXC_ATTRS
                        lacking = ["a class outside the package"] if not ok else []
                    else:
                        lacking = sorted({sc.name for c in narrowed for sc in idx.subclasses(c) if node.attr not in instance_attrs(idx, sc)})
                        ok = not lacking
                    ctx.ob(rule, con, K.rel(f), node.lineno, ok, "`%s.%s` exists for every admitted class" % (h.name, node.attr) if ok else
                           "`%s.%s` is read on a caught error that may be %s, which has no such attribute: the handler fails with AttributeError and the error is no longer reported as an MPilot error" % (h.name, node.attr, ", ".join(lacking[:4])))
                for c in ast.iter_child_nodes(node):
                    if isinstance(c, (ast.FunctionDef, ast.Lambda, ast.ClassDef)):
                        continue
                    visit(c, narrowed)

            def leaves(stmts):
                """the block never falls through: it ends in raise / return / continue / break / sys.exit(...)"""
                if not stmts:
                    return False
                last = stmts[-1]
                if isinstance(last, (ast.Raise, ast.Return, ast.Continue, ast.Break)):
                    return True
                if isinstance(last, ast.Expr) and isinstance(last.value, ast.Call):
                    q = idx.qualname(f.module, last.value.func, f) or K.src(last.value.func)
                    return q in ("sys.exit", "os._exit", "builtins.exit", "six.raise_from", "six.reraise")
                return False

            def visit_block(stmts, narrowed):
                cur = narrowed
                for st in stmts:
                    visit(st, cur)
                    # guard clause: `if not (isinstance(e, C) and ...): <leaves>` - what follows runs only when the test held
                    if isinstance(st, ast.If) and not st.orelse and leaves(st.body):
                        cur = narrow_neg(st.test, cur)

            def narrow_neg(test, narrowed):
                """what is known about the caught error when `test` is false"""
                if isinstance(test, ast.UnaryOp) and isinstance(test.op, ast.Not):
                    return narrow(test.operand, narrowed)
                if isinstance(test, ast.BoolOp) and isinstance(test.op, ast.Or):
                    cur = narrowed
                    for v in test.values:
                        cur = narrow_neg(v, cur)
                    return cur
                return narrowed

            def narrow(test, narrowed):
                if isinstance(test, ast.Call) and isinstance(test.func, ast.Name) and test.func.id == "isinstance" and len(test.args) == 2 and isinstance(test.args[0], ast.Name) and test.args[0].id == h.name:
                    ts = test.args[1].elts if isinstance(test.args[1], ast.Tuple) else [test.args[1]]
                    out = []
                    for t in ts:
                        r = idx.resolve(f.module, t, f)
                        out.append(r[1] if r and r[0] == "class" else None)
                    return out
                if isinstance(test, ast.BoolOp) and isinstance(test.op, ast.And):
                    cur = narrowed
                    for v in test.values:
                        cur = narrow(v, cur)
                    return cur
                return narrowed

            visit_block(h.body, base)
    return n_sites


def value_error_guarded(fn, call):
    """is `call` inside a try whose handler catches ValueError (or wider) and raises SyntaxError?"""
    for t in ast.walk(fn):
        if isinstance(t, ast.Try) and any(call is x for b in t.body for x in ast.walk(b)):
            for h in t.handlers:
                hs = K.src(h.type) if h.type is not None else ""
                if ("ValueError" in hs or hs in ("Exception", "")) and any(isinstance(x, ast.Raise) and x.exc is not None and "SyntaxError" in K.src(x.exc) for x in ast.walk(h)):
                    return True
    return False


def K_const(idx, fi, e):
    try:
        return idx.const(fi.module, e, fi)
    except KeyError:
        return None


def exception_construct(ctx, idx, rule, only_module=None, floors=True):
    """every error class's super().__init__ and every raise site construct (C13.d / C18.c)"""
    root, excs = tables.exception_classes(idx)
    n_sup = 0
    for ci in excs:
        if only_module and not ci.module.name.startswith(only_module):
            continue
        init = ci.methods.get("__init__")
        if init is None:
            continue
        for n in own_nodes(init.node):
            if isinstance(n, ast.Call) and K.is_super_call(n, "__init__"):
                n_sup += 1
                con = "%s::%s.__init__::super" % (ci.module.rel, ci.name)
                sa = n.func.value.args
                ok = True
                why = "super(%s, self).__init__" % ci.name
                if sa:
                    r = idx.resolve(ci.module, sa[0], init)
                    if not (r and r[0] == "class" and r[1] in idx.mro(ci)):
                        ok = False
                        why = "super(%s, self) inside class %s: %s is not a base of %s, so constructing the error raises TypeError" % (K.src(sa[0]), ci.name, K.src(sa[0]), ci.name)
                    after = r[1] if r and r[0] == "class" else ci
                else:
                    after = ci
                if ok:
                    base_init = idx.find_method(ci, "__init__", after=after)
                    if base_init is not None:
                        params = base_init.node.args.args[1:]
                        nreq = len(params) - len(base_init.node.args.defaults)
                        npos = len(n.args)
                        kw = {k.arg for k in n.keywords}
                        names = [p.arg for p in params]
                        if npos > len(params) and base_init.node.args.vararg is None:
                            ok = False
                            why = "passes %d positional argument(s) to %s.__init__, which takes %d" % (npos, base_init.cls.name, len(params))
                        elif any(k not in names for k in kw if k) and base_init.node.args.kwarg is None:
                            ok = False
                            why = "passes unknown keyword(s) %s to %s.__init__" % (sorted(kw - set(names)), base_init.cls.name)
                        elif len([x for x in names[:nreq] if x not in kw]) > npos:
                            ok = False
                            why = "omits required argument(s) of %s.__init__" % base_init.cls.name
                ctx.ob(rule, con, ci.module.rel, n.lineno, ok, why, nontrivial=not ok)
    if floors:
        ctx.floor(rule, "super().__init__ calls in exception classes", n_sup, 20)
    n_ct = 0
    for mod, f, n in K.scoped_nodes(idx):
        if only_module and not mod.name.startswith(only_module):
            continue
        if isinstance(n, ast.Raise) and isinstance(n.exc, ast.Call):
            r = idx.resolve(mod, n.exc.func, f)
            if r and r[0] == "class" and root in idx.mro(r[1]):
                init = idx.find_method(r[1], "__init__")
                if init is None:
                    continue
                n_ct += 1
                params = init.node.args.args[1:]
                names = [p.arg for p in params]
                nreq = len(params) - len(init.node.args.defaults)
                npos = len(n.exc.args)
                kw = {k.arg for k in n.exc.keywords}
                bad = None
                if npos > len(params) and init.node.args.vararg is None:
                    bad = "too many positional arguments"
                elif any(k not in names for k in kw if k) and init.node.args.kwarg is None:
                    bad = "unknown keyword %s" % sorted(kw - set(names))
                elif len([x for x in names[:nreq] if x not in kw]) > npos:
                    bad = "missing required argument(s) %s" % [x for x in names[:nreq] if x not in kw][npos:]
                elif set(names[:npos]) & kw:
                    bad = "argument given twice"
                if not bad:
                    # a line number handed over positionally must land in the `lineno` parameter: in a text parameter it is
                    # later concatenated / joined by __str__ and the error cannot even be printed
                    for pos_i, a_ in enumerate(n.exc.args):
                        is_line = (isinstance(a_, ast.Attribute) and a_.attr == "lineno") or (isinstance(a_, ast.Name) and a_.id in ("lineno", "line", "line_number")) \
                            or (isinstance(a_, ast.Call) and isinstance(a_.func, ast.Attribute) and a_.func.attr == "get" and isinstance(a_.func.value, ast.Attribute) and a_.func.value.attr == "argument_lines")
                        if is_line and pos_i < len(names) and names[pos_i] != "lineno" and "lineno" in names:
                            bad = "the line number `%s` is bound to the parameter `%s`, not to `lineno`" % (K.src(a_), names[pos_i])
                    if bad:
                        ctx.violate(rule, "%s::construct(%s)" % (K.where(mod, f), r[1].name), mod.rel, n.lineno, "`%s`: %s; the error then carries no line and its text parameter holds an integer, so printing it (str(), the command line's report) raises TypeError" % (K.src(n.exc)[:70], bad))
                        continue
                if bad:
                    ctx.violate(rule, "%s::construct(%s)" % (K.where(mod, f), r[1].name), mod.rel, n.lineno, "`%s` cannot be constructed (%s): a TypeError escapes instead of the MPilot error" % (K.src(n.exc)[:70], bad))
                else:
                    ctx.hold(rule, "%s::construct(%s)" % (K.where(mod, f), r[1].name), mod.rel, n.lineno, "arguments fit %s.__init__" % r[1].name, nontrivial=False)
    if floors:
        ctx.floor(rule, "raise sites constructing MPilot errors", n_ct, 40)
    return n_sup, n_ct


# payload attributes that hold text by construction (confirmed at every construction site of the package)
TEXT_PAYLOADS = {
    ("MissingParameters", "parameters"): "a set of declared input names (keys of the command's `inputs`)",
    ("InvalidDataFile", "problem"): "a message built with str.format at both raise sites of the CSV reader",
    ("InvalidDataFile", "solution"): "a constant, or the message passed by the raise site",
}


def str_methods_total(ctx, idx, rule, only=None, floor=True):
    """__str__ of every MPilot error formats without raising: placeholder counts match, no star-args of unknown length"""
    import string

    root, excs = tables.exception_classes(idx)
    n = 0
    for ci in excs:
        m = ci.methods.get("__str__")
        if m is None:
            continue
        if only is not None and ci.name not in only:
            continue
        n += 1
        probs = []
        # str.join and `"text" + x` need strings: a payload value reaches them only when it is text by construction (table)
        sn_ = K.self_name(m)

        # locals bound (on some path) to a payload attribute as it is
        carried = {}
        for _round in range(3):
            for st_ in own_nodes(m.node):
                if isinstance(st_, ast.Assign) and len(st_.targets) == 1 and isinstance(st_.targets[0], ast.Name):
                    v_ = st_.value
                    if isinstance(v_, ast.Attribute) and isinstance(v_.value, ast.Name) and v_.value.id == sn_:
                        carried.setdefault(st_.targets[0].id, set()).add(v_.attr)
                    elif isinstance(v_, ast.Name) and v_.id in carried:
                        carried.setdefault(st_.targets[0].id, set()).update(carried[v_.id])

        def constructed(cj):
            for mod_, f_, n_ in K.scoped_nodes(idx):
                if isinstance(n_, ast.Call) and isinstance(n_.func, (ast.Name, ast.Attribute)):
                    r_ = idx.resolve(mod_, n_.func, f_)
                    if r_ and r_[0] == "class" and r_[1] is cj:
                        return True
            return False

        def constant_text(attr_):
            """the attribute is a class-level constant (a str or a tuple of str) in this class family, never set per instance"""
            family = {c_ for c_ in list(idx.mro(ci)) + list(idx.subclasses(ci)) if hasattr(c_, "node")}
            defs_ = []
            for cj in family:
                for st_ in cj.node.body:
                    if isinstance(st_, ast.Assign) and any(isinstance(t_, ast.Name) and t_.id == attr_ for t_ in st_.targets):
                        if isinstance(st_.value, ast.Constant) and st_.value.value is None and not constructed(cj):
                            continue  # a placeholder in a base class nobody raises; the classes that are raised override it
                        defs_.append(st_.value)
                for mm in cj.methods.values():
                    for x_ in own_nodes(mm.node):
                        if isinstance(x_, ast.Attribute) and x_.attr == attr_ and isinstance(x_.ctx, ast.Store):
                            return False
            def is_text(v_):
                return (isinstance(v_, ast.Constant) and isinstance(v_.value, str)) or (isinstance(v_, (ast.Tuple, ast.List)) and all(is_text(y_) for y_ in v_.elts))
            return bool(defs_) and all(is_text(v_) for v_ in defs_)

        def payload_attrs(e_):
            return [a_ for a_ in payload_attrs0(e_) if not constant_text(a_)]

        def literal_at_every_site(attr_):
            """the attribute is set from one __init__ parameter, and every construction of the class (or a subclass without an
            __init__ of its own) passes a string literal, or nothing, for it: the template never holds interpolated text"""
            init_ = ci.methods.get("__init__")
            if init_ is None:
                return False
            params_ = [a_.arg for a_ in init_.node.args.args][1:]
            srcs_ = set()
            for x_ in own_nodes(init_.node):
                if isinstance(x_, ast.Assign) and any(isinstance(t_, ast.Attribute) and t_.attr == attr_ for t_ in x_.targets):
                    srcs_ |= {w_.id for w_ in ast.walk(x_.value) if isinstance(w_, ast.Name) and w_.id in params_}
                    if any(isinstance(w_, (ast.Call, ast.BinOp, ast.JoinedStr)) for w_ in ast.walk(x_.value)):
                        return False
            if len(srcs_) != 1:
                return False
            pn_ = next(iter(srcs_))
            pos_ = params_.index(pn_)
            fam_ = {ci} | {c_ for c_ in idx.subclasses(ci) if hasattr(c_, "methods")}
            seen_ = 0
            for mod_, f_, n_ in K.scoped_nodes(idx):
                if isinstance(n_, ast.Call) and isinstance(n_.func, (ast.Name, ast.Attribute)):
                    r_ = idx.resolve(mod_, n_.func, f_)
                    if r_ and r_[0] == "class" and r_[1] in fam_:
                        if r_[1] is not ci and "__init__" in r_[1].methods:
                            return False
                        if any(isinstance(a_, ast.Starred) for a_ in n_.args) or any(k_.arg is None for k_ in n_.keywords):
                            return False
                        seen_ += 1
                        v_ = n_.args[pos_] if pos_ < len(n_.args) else next((k_.value for k_ in n_.keywords if k_.arg == pn_), None)
                        if v_ is not None and not (isinstance(v_, ast.Constant) and (isinstance(v_.value, str) or v_.value is None)):
                            return False
            return seen_ > 0

        def payload_attrs0(e_):
            if isinstance(e_, ast.Name) and e_.id in carried:
                return sorted(carried[e_.id])
            e_ = K.expand(m, e_)
            wrapped = set()
            for w in ast.walk(e_):
                if isinstance(w, ast.Call) and ((isinstance(w.func, ast.Name) and w.func.id in ("str", "repr", "format")) or (idx.qualname(m.module, w.func, m) or "") in ("six.text_type", "builtins.str", "builtins.repr") or (isinstance(w.func, ast.Attribute) and w.func.attr == "format")):
                    wrapped |= {id(x) for x in ast.walk(w)}
            return sorted({x.attr for x in ast.walk(e_) if isinstance(x, ast.Attribute) and isinstance(x.value, ast.Name) and x.value.id == sn_ and id(x) not in wrapped and x.attr not in ("lineno",)})

        for c in own_nodes(m.node):
            if isinstance(c, ast.Call) and isinstance(c.func, ast.Attribute) and c.func.attr == "format" and isinstance(c.func.value, ast.Constant) and isinstance(c.func.value.value, str):
                fields = [f for _, f, _, _ in string.Formatter().parse(c.func.value.value) if f is not None]
                auto = [f for f in fields if f == "" or f.isdigit()]
                star = [a for a in c.args if isinstance(a, ast.Starred)]
                if star:
                    probs.append((c.lineno, "`%s` spreads a value of unknown length over %d placeholder(s): a shape of another rank raises IndexError while the message is printed" % (K.src(star[0])[:40], len(auto))))
                else:
                    need = len([f for f in auto if f == ""]) or (max([int(f) for f in auto if f.isdigit()] + [-1]) + 1)
                    if need > len(c.args):
                        probs.append((c.lineno, "format string has %d positional placeholder(s) but %d argument(s)" % (need, len(c.args))))
                import re as _re

                named = sorted({_re.split(r"[.\[]", f, 1)[0] for f in fields if f and not f[0].isdigit()})
                given = {k_.arg for k_ in c.keywords if k_.arg}
                if named and not any(k_.arg is None for k_ in c.keywords):
                    lacking = [f for f in named if f not in given]
                    if lacking:
                        probs.append((c.lineno, "the format string names `{%s}` but .format() is given %s: KeyError while the message is printed" % (lacking[0], ("only " + ", ".join(sorted(given))) if given else "no keyword")))
            if isinstance(c, ast.Call) and isinstance(c.func, ast.Attribute) and c.func.attr in ("format", "format_map") and not isinstance(c.func.value, ast.Constant):
                # the TEMPLATE is a payload: text the raise site built, usually by interpolating names and values of the model into
                # it.  A brace in such a name (`elev{m}`, `{}`, `{0`) is then read as a replacement field: KeyError / IndexError /
                # ValueError out of str(error) - inside the CLI's handler, past every `except MPilotError`
                tmpl_ = payload_attrs0(c.func.value)
                tmpl_ = [a_ for a_ in tmpl_ if not constant_text(a_) and not literal_at_every_site(a_)]
                if tmpl_:
                    probs.append((c.lineno, "`%s` uses the payload `%s` as the format TEMPLATE: that text is built at the raise sites, with names and values of the model interpolated into it, and a brace in one of those (`elev{m}`) is read as a replacement field - KeyError / IndexError / ValueError while the message is printed" % (K.src(c)[:60], tmpl_[0])))
            if isinstance(c, ast.BinOp) and isinstance(c.op, ast.Mod) and not isinstance(c.left, ast.Constant):
                tmpl_ = [a_ for a_ in payload_attrs0(c.left) if not constant_text(a_) and not literal_at_every_site(a_)]
                if tmpl_:
                    probs.append((c.lineno, "`%s` uses the payload `%s` as a %%-template: a `%%` in the interpolated model text raises TypeError / ValueError while the message is printed" % (K.src(c)[:60], tmpl_[0])))
            if isinstance(c, ast.Call) and isinstance(c.func, ast.Attribute) and c.func.attr == "join" and isinstance(c.func.value, ast.Constant) and c.args:
                arg = K.expand(m, c.args[0])
                elems = arg.elts if isinstance(arg, (ast.Tuple, ast.List)) else None
                for el in (elems if elems is not None else [arg]):
                    if elems is not None and isinstance(el, ast.BinOp):
                        continue  # checked as a concatenation below
                    for a_ in payload_attrs(el):
                        if (ci.name, a_) not in TEXT_PAYLOADS:
                            probs.append((c.lineno, "`%s` joins the payload `%s` as it is: str.join accepts text only, so a value holding a number or a nested list raises TypeError while the message is being produced" % (K.src(c)[:50], a_)))
            if isinstance(c, ast.BinOp) and isinstance(c.op, ast.Add) and (isinstance(c.left, ast.Constant) and isinstance(c.left.value, str) or isinstance(c.right, ast.Constant) and isinstance(c.right.value, str)):
                for a_ in payload_attrs(c.right if isinstance(c.left, ast.Constant) else c.left):
                    if (ci.name, a_) not in TEXT_PAYLOADS:
                        probs.append((c.lineno, "`%s` concatenates text with the payload `%s` as it is: anything but text raises TypeError while the message is being produced" % (K.src(c)[:50], a_)))
        con = "%s::%s.__str__::total" % (ci.module.rel, ci.name)
        if probs:
            ctx.violate(rule, con, ci.module.rel, probs[0][0], "%s.__str__ can raise instead of producing the message: %s" % (ci.name, probs[0][1]))
        else:
            ctx.hold(rule, con, ci.module.rel, m.node.lineno, "placeholders and arguments agree", nontrivial=False)
    if floor:
        ctx.floor(rule, "__str__ methods of MPilot errors", n, 20)
    return n


# ---------------------------------------------------------------------------------------------- grammar action types
def grammar_action_types(ctx, idx, rule, lexicon):
    """Infer the value type of every nonterminal (str / num / list / dict / node / tuple) by fixpoint over the productions
    and check that each action's operators are defined on the types its symbols can have."""
    tok_types = {"STRING": {"str"}, "PLAIN_STRING": {"str"}, "ID": {"str"}, "TRUE": {"str"}, "FALSE": {"str"},
                 "INT": {"num"} if lexicon.lexer_converts("INT") in ("int", "float") else {"str"}, "FLOAT": {"num"} if lexicon.lexer_converts("FLOAT") in ("int", "float") else {"str"}}
    types = {nt: set() for nt in lexicon.nonterminals()}
    problems = {}

    def sym_types(sym):
        if sym in types:
            return types[sym]
        return tok_types.get(sym, {"punct"})

    def ev(e, prod, parg, env=None):
        """set of possible types of expression e"""
        env = env if env is not None else {}
        if isinstance(e, ast.Name) and e.id in env:
            return set(env[e.id])
        if isinstance(e, ast.Subscript) and isinstance(e.value, ast.Name) and e.value.id == parg and isinstance(e.slice, ast.Constant):
            i = e.slice.value
            if 1 <= i <= len(prod.rhs):
                return set(sym_types(prod.rhs[i - 1]))
            return set()
        if isinstance(e, ast.Constant):
            return {"str"} if isinstance(e.value, str) else {"num"} if isinstance(e.value, (int, float)) else {"none"}
        if isinstance(e, ast.List):
            for x in e.elts:
                ev(x, prod, parg, env)
            return {"list"}
        if isinstance(e, ast.Tuple):
            for x in e.elts:
                ev(x, prod, parg, env)
            return {"tuple"}
        if isinstance(e, ast.Dict):
            return {"dict"}
        if isinstance(e, ast.BinOp) and isinstance(e.op, ast.Add):
            a, b = ev(e.left, prod, parg, env), ev(e.right, prod, parg, env)
            out = set()
            for x in a:
                for y in b:
                    if x == y and x in ("str", "list", "num", "tuple"):
                        out.add(x)
                    elif "any" in (x, y):
                        out.add("any")
                    else:
                        problems.setdefault((prod.func.name, K.src(e)), (e.lineno, "`%s` in `%s` adds a %s and a %s" % (K.src(e), prod, x, y)))
            return out
        if isinstance(e, ast.Call):
            f = K.src(e.func)
            args = [ev(a, prod, parg, env) for a in e.args]
            if f == "str":
                return {"str"}
            if f == "dict":
                for a in args:
                    for t in a:
                        if t not in ("list", "dict", "any"):
                            problems.setdefault((prod.func.name, K.src(e)), (e.lineno, "`%s` builds a dict from a %s" % (K.src(e), t)))
                return {"dict"}
            if f == "list":
                return {"list"}
            if f.endswith(".items"):
                base = ev(e.func.value, prod, parg, env)
                for t in base:
                    if t not in ("dict", "any"):
                        problems.setdefault((prod.func.name, K.src(e)), (e.lineno, "`%s` in `%s` calls .items() on a %s" % (K.src(e), prod, t)))
                return {"list"}
            if f.endswith(".lineno") or f.endswith("linespan"):
                return {"num"}
            if f and f[0].isupper():
                return {"node"}
            return {"any"}
        if isinstance(e, ast.IfExp):
            return ev(e.body, prod, parg, env) | ev(e.orelse, prod, parg, env)
        return {"any"}

    for _ in range(8):
        problems.clear()
        changed = False
        for prod in lexicon.productions:
            f = prod.func
            parg = f.args.args[-1].arg
            v = None
            env = {}
            # straight-line local environment (assignments in source order; later bindings join earlier ones)
            assigns = sorted([n for n in ast.walk(f) if isinstance(n, ast.Assign)], key=lambda n: (n.lineno, n.col_offset))
            for n in assigns:
                for t in n.targets:
                    if isinstance(t, ast.Subscript) and isinstance(t.value, ast.Name) and t.value.id == parg and isinstance(t.slice, ast.Constant) and t.slice.value == 0:
                        v = n.value
                    elif isinstance(t, ast.Name):
                        env[t.id] = env.get(t.id, set()) | ev(n.value, prod, parg, env)
                    elif isinstance(t, ast.Tuple):
                        for x in t.elts:
                            if isinstance(x, ast.Name):
                                env[x.id] = {"any"}
                    elif isinstance(t, ast.Subscript) and isinstance(t.value, ast.Name):
                        ev(n.value, prod, parg, env)
            if v is None:
                continue
            ts = ev(v, prod, parg, env)
            if not ts <= types[prod.lhs]:
                types[prod.lhs] |= ts
                changed = True
        if not changed:
            break
    rel = lexicon.mod.rel
    seen = set()
    for (fname, expr), (line, why) in sorted(problems.items()):
        con = "%s::Parser.%s::action-types" % (rel, fname)
        if con in seen:
            continue
        seen.add(con)
        ctx.violate(rule, con, rel, line, "grammar action can raise TypeError instead of a syntax error: %s" % why)
    for fname in sorted({p.func.name for p in lexicon.productions}):
        con = "%s::Parser.%s::action-types" % (rel, fname)
        if con not in seen:
            ctx.hold(rule, con, rel, 0, "operators defined on every type its symbols can carry", nontrivial=False)
    ctx.extra["nonterminal_types"] = {k: sorted(v) for k, v in types.items()}
