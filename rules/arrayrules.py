"""Shared access to Engine C results for the array properties (C02–C09, C17, C18)."""
from engine import arrays
from engine.arrays import Arr, is_input_token
from engine.report import AnalysisError

from . import common as K

_cache = {}


def results(idx):
    """decl.key -> (decl, Result).  An unsupported construct anywhere is 'cannot decide' (exit 2)."""
    k = id(idx)
    if k not in _cache:
        out = {}
        for d in K.table(idx):
            if d.execute is None or d.execute.cls.name == "Command":
                continue
            out[d.key] = (d, arrays.analyse_command(idx, d, fold=K.fold_config(idx)))
        _cache[k] = out
    return _cache[k]


def data_commands(idx):
    return [(d, r) for d, r in results(idx).values() if d.is_data()]


def ret_sites(d, r):
    """(ordinal, stmt, value) of the returns of the effective execute"""
    out = []
    for i, (s, v, fk) in enumerate(r.returns):
        out.append((i + 1, s, v))
    return out


def ret_key(d, n):
    return "%s.execute::return#%d" % (d.key, n)


def input_tokens(d):
    toks = set()
    for nm, (kind, _) in d.ref_inputs().items():
        if kind == "cmd":
            toks.add(nm)
        else:
            toks |= {nm + "#0", nm + "#r"}
    return toks


def tok_text(ts):
    out = []
    for t in sorted(ts):
        if t.endswith("#0"):
            out.append("%s[0]" % t[:-2])
        elif t.endswith("#r"):
            out.append("%s[1:]" % t[:-2])
        else:
            out.append(t)
    return ", ".join(out)


def line_of(s):
    return getattr(s, "lineno", 0)


def summarize_helper(idx, modname, funcname, args):
    """Interpret a module-level helper on symbolic arguments; returns (Result, returned value)."""
    from engine.arrays import ArrayInterp, Frame

    fi = idx.func(modname, funcname)
    decl = K.table(idx)[0]
    it = ArrayInterp(idx, decl, fold=K.fold_config(idx))
    env = {}
    params = [a.arg for a in fi.node.args.args]
    for p, v in zip(params, args):
        env[p] = v
    fr = Frame(fi.module, fi, None, env)
    it.exec_block(fi.node.body, fr)
    out = None
    for _, v in fr.returns:
        out = v if out is None else it.join(out, v)
    return it.res, out, fi


def uses_all_inputs(ctx, rule, d, r):
    """D(ret) ⊇ every declared data input (for list inputs the first element and the rest)."""
    want = input_tokens(d)
    for n, s, v in ret_sites(d, r):
        con = ret_key(d, n) + "::uses-all-inputs"
        if not isinstance(v, Arr):
            continue
        miss = want - v.D
        if miss:
            # a return taken under a condition computed from the input, delivering a constant under that input's own mask (e.g. the
            # shortcut for constant data): the input decides both whether this value is returned and which cells are missing
            deps = frozenset().union(*[r.cond_deps.get(id(t_), frozenset()) for t_, p_ in r.return_conds.get(id(s), ())]) if r.return_conds.get(id(s)) else frozenset()
            miss = frozenset(t for t in miss if not (t in v.M and t in deps))
        if miss and any(t.endswith("#r") for t in miss):
            # a return under `len(<the input list>) == 1`: there are no inputs after the first on that path
            single = _single_input_lists(d, r.return_conds.get(id(s), ()))
            miss = frozenset(t for t in miss if not (t.endswith("#r") and t[:-2] in single))
        if miss:
            ctx.violate(rule, con, d.module.rel, line_of(s), "the returned value does not depend on %s: that input is dropped from the computation" % tok_text(miss))
        else:
            ctx.hold(rule, con, d.module.rel, line_of(s), "depends on %s" % tok_text(want))


def _single_input_lists(d, conds):
    """names of list inputs that hold exactly one element under the branch conditions `conds` ((test, polarity), ...):
    a conjunct `len(N) == 1` / `len(N) < 2` / `len(N) <= 1` taken true, N bound once from kwargs[<input>] (directly or through a
    one-generator comprehension over it without a filter)"""
    import ast

    out = set()
    defs = K.single_defs(d.execute)

    def input_of(e, depth=0):
        if isinstance(e, ast.Subscript) and isinstance(e.value, ast.Name) and e.value.id == (d.execute.node.args.kwarg.arg if d.execute.node.args.kwarg else None) and isinstance(e.slice, ast.Constant):
            return e.slice.value
        if isinstance(e, (ast.ListComp, ast.GeneratorExp)) and len(e.generators) == 1 and not e.generators[0].ifs:
            return input_of(e.generators[0].iter, depth + 1)
        if isinstance(e, ast.Call) and isinstance(e.func, ast.Name) and e.func.id in ("list", "tuple") and len(e.args) == 1:
            return input_of(e.args[0], depth + 1)
        if isinstance(e, ast.Name) and depth < 4 and e.id in defs:
            return input_of(defs[e.id], depth + 1)
        return None

    for t_, pol in conds:
        if not pol:
            continue
        for c in (t_.values if isinstance(t_, ast.BoolOp) and isinstance(t_.op, ast.And) else [t_]):
            if isinstance(c, ast.Compare) and len(c.ops) == 1 and isinstance(c.left, ast.Call) and isinstance(c.left.func, ast.Name) and c.left.func.id == "len" and len(c.left.args) == 1 \
                    and isinstance(c.comparators[0], ast.Constant):
                k, op = c.comparators[0].value, c.ops[0]
                if (isinstance(op, ast.Eq) and k == 1) or (isinstance(op, ast.Lt) and k == 2) or (isinstance(op, ast.LtE) and k == 1):
                    nm = input_of(c.left.args[0])
                    if nm:
                        out.add(nm)
    return out


def no_kept_state(ctx, idx, rule, names=None, why="", copies_suffice=False):
    """Before the array analyser runs: no execute body of the named commands (all data commands when None) reads or writes
    module-level state that some function mutates, nor goes through a cached helper.  A result kept between executions and looked
    up by a key (result names, a path) belongs to whatever ran first in the process under that key."""
    n = 0
    for d in K.table(idx):
        if d.execute is None or d.execute.cls.name == "Command":
            continue
        if names is not None and d.cls.name not in names:
            continue
        n += 1
        fi = d.execute
        con = "%s.execute::keeps-nothing-between-executions" % d.key
        su = K.state_uses(idx, fi)
        memo = K.memoised_helpers(idx, fi)
        if su and K.state_is_content_checked(idx, fi, su):
            continue  # (C02.b answers "cannot decide" for a content-validated cache)
        if copies_suffice and (su or memo) and K.kept_values_are_copied(idx, fi, su, memo):
            ctx.hold(rule, con, d.module.rel, fi.node.lineno, "what is kept between executions is handed out as a copy: no result shares storage with it")
            continue
        if su:
            f_, n_, (m_, nm_) = su[0]
            ctx.violate(rule, con, d.module.rel, n_.lineno, "%s keeps `%s.%s` between executions (module-level state that functions mutate): what it returns for one set of inputs depends on what ran earlier in the process under the same key%s" % (d.cls.name, m_, nm_, why))
        elif memo:
            ctx.violate(rule, con, d.module.rel, memo[0][0].node.lineno, "%s goes through `%s`, cached with `@%s`: what it returns depends on what ran earlier in the process%s" % (d.cls.name, memo[0][0].name, memo[0][1], why))
        else:
            ctx.hold(rule, con, d.module.rel, fi.node.lineno, "no module-level state, no cached helper", nontrivial=False)
    return n


def leaves_arguments_alone(ctx, rule, d, r):
    """no execute body changes a list it was passed (pop / del / item store / append on the argument object itself)"""
    con = "%s.execute::leaves-arguments-alone" % d.key
    muts = [f for f in r.findings if f[0] in ("arg-mutation", "shared-table-mutation")]
    if muts:
        ctx.violate(rule, con, d.module.rel, muts[0][1], muts[0][2])
    else:
        ctx.hold(rule, con, d.module.rel, d.execute.node.lineno, "list arguments and shared tables are only read (or copied before they are edited)", nontrivial=False)


def symmetric_roles(ctx, rule, d, r):
    """The list of input arrays is consumed only through symmetric aggregators, or position-preserving zips with weights."""
    from engine.arrays import Lst, Scal

    lists = [nm for nm, (k, _) in d.ref_inputs().items() if k == "cmdlist"]
    if not lists:
        return
    con = "%s.execute::symmetric-roles" % d.key
    bad = []
    for kind, line, msg, fk, node in r.findings:
        if kind in ("list-index", "filtered-inputs"):
            bad.append((line, msg))
    for node, zipped, fk in r.zips:
        arrs = [z for z in zipped if isinstance(z, Lst) and z.what in ("arrs", "cmds", "masks") and z.L]
        nums = [z for z in zipped if isinstance(z, Lst) and z.what == "nums" and z.srcs and z.srcs[0] != "derived"]
        for a in arrs:
            for w in nums:
                if a.sorted_ != w.sorted_:
                    bad.append((node.lineno, "%s is put in another order (sorted) before it is paired with %s, which stays as listed: weight i no longer meets the i-th listed input" % (
                        (a.L if a.sorted_ else w.srcs[0]), (w.srcs[0] if a.sorted_ else a.L))))
                    continue
                want = (1, None) if a.part == "rest" else None
                got = w.sliced if w.sliced not in ((None, None), (0, None)) else None
                if got != want:
                    bad.append((node.lineno, "zip pairs %s[%s] with %s%s: weights and arrays are misaligned" % (
                        a.L, "1:" if a.part == "rest" else ":", w.srcs[0], "[%s:%s]" % tuple("" if x is None else x for x in (w.sliced or (None, None))))))
    for node, toks, sym, fk in r.weight_pairs:
        if "[" in sym and sym.endswith("]") and not sym.startswith(("len(", "sum(", "elem(")):
            idxs = sym[sym.index("[") + 1:-1]
            firsts = {t for t in toks if t.endswith("#0")}
            rests = {t for t in toks if t.endswith("#r")}
            if idxs.startswith("idx@"):
                # index loop: arrays[i] paired with weights[i] for i from the same start
                start = idxs[4:]
                if rests and not firsts and start != "1":
                    bad.append((node.lineno, "inputs after the first are weighted by weights starting at index %s" % start))
                if firsts and rests and start != "0":
                    bad.append((node.lineno, "all inputs are weighted by weights starting at index %s" % start))
                continue
            if firsts and not rests and idxs != "0":
                bad.append((node.lineno, "the first input is weighted by %s, not by the first weight" % sym))
            if rests and not firsts:
                bad.append((node.lineno, "inputs after the first are all weighted by the single weight %s" % sym))
    for node, fn, seq, init, fk in r.reduces:
        if isinstance(seq, Lst) and seq.part == "rest" and not (isinstance(init, Arr) and any(t.endswith("#0") for t in (init.D | init.M | init.alias | init.maskof))):
            bad.append((node.lineno, "fold over %s[1:] does not start from %s[0]: the first input is dropped" % (seq.L, seq.L)))
    if bad:
        ctx.violate(rule, con, d.module.rel, bad[0][0], "; ".join(m for _, m in bad[:3]))
    else:
        ctx.hold(rule, con, d.module.rel, d.execute.node.lineno, "input list consumed through symmetric aggregators / aligned weight zip only")


def zero_is_a_value(ctx, rule, d, r):
    """numeric parameters are never used as booleans: an explicit 0 (missing value 0, threshold 0) must count as given"""
    nt = [f for f in r.findings if f[0] == "numtruth"]
    con = "%s.execute::zero-is-a-value" % d.key
    if nt:
        ctx.violate(rule, con, d.module.rel, nt[0][1], nt[0][2])
    else:
        ctx.hold(rule, con, d.module.rel, d.execute.node.lineno, "numeric parameters are not used as booleans", nontrivial=False)


def leaves_inputs_alone(ctx, rule, d, r, consequence="every other consumer of that result sees the change if it runs later, so results depend on command order"):
    """no in-place write of the command reaches one of its inputs (the memoised result of the producer)"""
    from engine.arrays import is_input_token

    shared = sorted({a for w in r.writes for a in w.alias if is_input_token(a) and a != "self"})
    con = "%s.execute::leaves-inputs-alone" % d.key
    if shared:
        w0 = [w for w in r.writes if any(is_input_token(a) and a != "self" for a in w.alias)][0]
        ctx.violate(rule, con, d.module.rel, w0.line, "%s writes in place through its input %s (%s): %s" % (d.cls.name, tok_text(shared), w0.what, consequence))
    else:
        ctx.hold(rule, con, d.module.rel, d.execute.node.lineno, "no in-place write reaches an input", nontrivial=bool(r.writes))


def returns_with_parameter(d, r, names):
    """array values returned on paths where the optional parameter(s) `names` were given, i.e. not under `<param> is None`
    (a reader that returns early when no missing value was declared has nothing to mask on that path)"""
    import ast as _ast

    from . import common as _K

    out = []
    for s_, v, _fk in r.returns:
        if not isinstance(v, Arr):
            continue
        absent = False
        for test, taken in r.return_conds.get(id(s_), ()):
            e = _K.expand(d.execute, test)
            neg = False
            while isinstance(e, _ast.UnaryOp) and isinstance(e.op, _ast.Not):
                neg = not neg
                e = e.operand
            if isinstance(e, _ast.Compare) and len(e.ops) == 1 and isinstance(e.ops[0], (_ast.Is, _ast.IsNot)) and isinstance(e.comparators[0], _ast.Constant) and e.comparators[0].value is None:
                mentions = any(isinstance(x, _ast.Constant) and x.value in names for x in _ast.walk(e.left))
                is_none = isinstance(e.ops[0], _ast.Is) != neg
                if mentions and (taken == is_none):
                    absent = True
            if isinstance(e, _ast.Compare) and len(e.ops) == 1 and isinstance(e.ops[0], (_ast.In, _ast.NotIn)) and isinstance(e.left, _ast.Constant) and e.left.value in names:
                present = isinstance(e.ops[0], _ast.In) != neg
                if taken != present:
                    absent = True
        if not absent:
            out.append(v)
    return out
