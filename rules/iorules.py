"""Shared rules for the CSV / NetCDF I/O commands (C17, C18)."""
import ast

from engine.index import own_nodes
from engine.report import AnalysisError

from . import common as K

TYPE_QUALS_PREFIX = ("builtins.float", "builtins.int", "builtins.bool", "numpy.")


def _kw_read(e, kw):
    """(key, default node) when e is kwargs["k"] / kwargs.get("k", d)"""
    if isinstance(e, ast.Subscript) and isinstance(e.value, ast.Name) and e.value.id == kw and isinstance(e.slice, ast.Constant):
        return e.slice.value, None
    if isinstance(e, ast.Call) and isinstance(e.func, ast.Attribute) and e.func.attr == "get" and isinstance(e.func.value, ast.Name) and e.func.value.id == kw and e.args and isinstance(e.args[0], ast.Constant):
        return e.args[0].value, (e.args[1] if len(e.args) > 1 else None)
    return None, None


def param_domains(ctx, idx, rule, d):
    """Every kwargs.get default and every literal compared with a cleaned parameter lies in the cleaned domain of its declared type."""
    fi = d.execute
    kw = fi.node.args.kwarg.arg if fi.node.args.kwarg else None
    if kw is None:
        return
    alias = {}
    for n in own_nodes(fi.node):
        if isinstance(n, ast.Assign) and len(n.targets) == 1 and isinstance(n.targets[0], ast.Name):
            k, dflt = _kw_read(n.value, kw)
            if k is not None:
                alias.setdefault(n.targets[0].id, set()).add(k)

    def key_of(e):
        k, _ = _kw_read(e, kw)
        if k is not None:
            return k
        if isinstance(e, ast.Name) and e.id in alias and len(alias[e.id]) == 1:
            return next(iter(alias[e.id]))
        return None

    def domain(p):
        if p.is_a(idx, "mpilot.params.DataTypeParameter"):
            return "type"
        if p.is_a(idx, "mpilot.params.NumberParameter"):
            return "number"
        if p.is_a(idx, "mpilot.params.BooleanParameter"):
            return "bool"
        if p.is_a(idx, "mpilot.params.StringParameter"):
            return "str"
        return None

    def lit_kind(e):
        if isinstance(e, ast.Constant):
            v = e.value
            return "none" if v is None else "bool" if isinstance(v, bool) else "number" if isinstance(v, (int, float)) else "str" if isinstance(v, str) else "?"
        q = idx.qualname(fi.module, e, fi) if isinstance(e, (ast.Name, ast.Attribute)) else None
        if q and q.startswith(TYPE_QUALS_PREFIX):
            return "type"
        if isinstance(e, (ast.Tuple, ast.List, ast.Set)):
            ks = {lit_kind(x) for x in e.elts}
            return ks.pop() if len(ks) == 1 else "mixed"
        return None

    n = 0
    for node in own_nodes(fi.node):
        k, dflt = _kw_read(node, kw) if isinstance(node, ast.Call) else (None, None)
        if k is not None and k in d.inputs and dflt is not None:
            dom = domain(d.inputs[k])
            lk = lit_kind(dflt)
            if dom and lk and lk != "none":
                n += 1
                ok = lk == dom or (dom == "number" and lk == "bool")
                ctx.ob(rule, "%s.execute::default(%s)" % (d.key, k), d.module.rel, node.lineno, ok,
                       "default %s lies in the cleaned domain of %s" % (K.src(dflt), k) if ok else
                       "kwargs.get(%r, %s): parameter `%s` is cleaned to a %s, so the %s default is a value cleaning can never produce%s" % (
                           k, K.src(dflt), k, {"type": "type object", "number": "number", "str": "string", "bool": "boolean"}[dom], lk,
                           " and is used as one (e.g. as a numpy dtype)" if dom == "type" else ""))
        if isinstance(node, ast.Compare) and len(node.ops) == 1:
            sides = [node.left, node.comparators[0]]
            for a, b in (sides, sides[::-1]):
                k = key_of(a)
                if k is None or k not in d.inputs:
                    continue
                dom = domain(d.inputs[k])
                lk = lit_kind(b)
                if not dom or not lk or lk in ("none",):
                    continue
                n += 1
                ok = lk == dom or (dom == "number" and lk == "bool")
                ctx.ob(rule, "%s.execute::compare(%s)" % (d.key, k), d.module.rel, node.lineno, ok,
                       "`%s` compares like with like" % K.src(node) if ok else
                       "`%s` compares the cleaned `%s` (a %s) with a %s literal: the test can never be true, so the branch it guards is dead" % (K.src(node), k, dom, lk))
    return n


def constructor_dtype(ctx, idx, rule, d, r):
    """the returned array is built with dtype flowing from the DataType parameter"""
    fi = d.execute
    kw = fi.node.args.kwarg.arg
    tparams = [nm for nm, p in d.inputs.items() if p.is_a(idx, "mpilot.params.DataTypeParameter") and nm.lower() in ("datatype", "data_type")]
    if not tparams:
        raise AnalysisError("%s has no DataType parameter" % d.key)
    tp = tparams[0]
    names = set()
    for n in own_nodes(fi.node):
        if isinstance(n, ast.Assign) and len(n.targets) == 1 and isinstance(n.targets[0], ast.Name):
            k, _ = _kw_read(n.value, kw)
            if k == tp:
                names.add(n.targets[0].id)
    ctors = [n for n in own_nodes(fi.node) if isinstance(n, ast.Call) and (idx.qualname(fi.module, n.func, fi) or "") in ("numpy.ma.array", "numpy.ma.MaskedArray", "numpy.ma.masked_array", "numpy.array", "numpy.ma.asarray")]
    # the constructor whose value is returned: the last assignment to the returned name
    rets = [n for n in own_nodes(fi.node) if isinstance(n, ast.Return) and isinstance(n.value, ast.Name)]
    con = "%s.execute::dtype-from-parameter" % d.key
    if not rets:
        raise AnalysisError("%s: return form not recognised" % d.key)
    rname = rets[0].value.id
    assigns = sorted([n for n in own_nodes(fi.node) if isinstance(n, ast.Assign) and any(isinstance(t, ast.Name) and t.id == rname for t in n.targets) and n.value in ctors], key=lambda n: n.lineno)
    if not assigns:
        ctx.violate(rule, con, d.module.rel, rets[0].lineno, "the returned array is not built by an array constructor")
        return
    c = assigns[-1].value
    dt = next((k.value for k in c.keywords if k.arg == "dtype"), None)
    ok = dt is not None and ((isinstance(dt, ast.Name) and dt.id in names) or _kw_read(dt, kw)[0] == tp)
    ctx.ob(rule, con, d.module.rel, c.lineno, ok, "dtype=%s flows from the %s parameter" % (K.src(dt), tp) if ok else
           "the returned array is constructed %s: the requested element type is ignored" % ("without dtype=" if dt is None else "with dtype=%s, which does not come from `%s`" % (K.src(dt), tp)))


def inputs_evaluated_before_open(ctx, idx, rule, d, why):
    """Writers: on every path to the call that opens the output for writing, the results of all written commands have been
    read (a comprehension / loop over the whole command list reading `.result`).  Evaluation is lazy - a result read for the
    first time after the open runs its producer then: a Read of the same file finds it truncated, and a producer that fails
    leaves a half-written output behind."""
    import ast

    from . import common as K
    from engine.index import own_nodes
    from engine.report import AnalysisError

    fi = d.execute
    cfg = K.cfg_of(idx, fi)
    lists = [nm for nm, (k, _) in d.ref_inputs().items() if k == "cmdlist"]
    if not lists:
        raise AnalysisError("%s: %s declares no list of results to write" % (rule, d.cls.name))

    def opens_for_write(c):
        q = (idx.qualname(fi.module, c.func, fi) or K.src(c.func)).split(".")[-1]
        if q not in ("open", "Dataset", "File"):
            return False
        mode = c.args[1] if len(c.args) > 1 else next((k.value for k in c.keywords if k.arg == "mode"), None)
        # "w" truncates what is there; "a" and "x" leave existing content alone (a probe for writability opened for appending
        # and closed again destroys nothing)
        return isinstance(mode, ast.Constant) and isinstance(mode.value, str) and mode.value[:1] == "w"

    opens = [n for n in cfg.find("call") if opens_for_write(n.ast)]
    if not opens:
        raise AnalysisError("%s: the call that opens the output of %s for writing was not found" % (rule, d.cls.name))
    # names bound to the command list
    listnames = set()
    for n in own_nodes(fi.node):
        if isinstance(n, ast.Assign) and len(n.targets) == 1 and isinstance(n.targets[0], ast.Name) and isinstance(n.value, ast.Subscript) and isinstance(n.value.slice, ast.Constant) and n.value.slice.value in lists:
            listnames.add(n.targets[0].id)

    def whole_list(it):
        return (isinstance(it, ast.Name) and it.id in listnames) or (isinstance(it, ast.Subscript) and isinstance(it.slice, ast.Constant) and it.slice.value in lists)

    evals = set()
    for n in own_nodes(fi.node):
        if isinstance(n, (ast.ListComp, ast.GeneratorExp)) and len(n.generators) == 1 and whole_list(n.generators[0].iter) and not n.generators[0].ifs and isinstance(n.generators[0].target, ast.Name):
            v = n.generators[0].target.id
            if any(isinstance(x, ast.Attribute) and x.attr == "result" and isinstance(x.value, ast.Name) and x.value.id == v for x in ast.walk(n.elt)) and isinstance(n, ast.ListComp):
                evals.add(n)
        if isinstance(n, ast.For) and whole_list(n.iter) and isinstance(n.target, ast.Name):
            v = n.target.id
            if n.body and any(isinstance(x, ast.Attribute) and x.attr == "result" and isinstance(x.value, ast.Name) and x.value.id == v for x in ast.walk(n.body[0])):
                evals.add(n)
    def innermost(e_):
        best = None
        for st in own_nodes(fi.node):
            if isinstance(st, ast.stmt) and any(e_ is y for y in ast.walk(st)):
                inner = [b for f_ in ("body", "orelse", "finalbody", "handlers") for b in (getattr(st, f_, None) or []) if isinstance(b, ast.AST)]
                if any(e_ is y for b in inner for y in ast.walk(b)):
                    continue  # e_ lies in a nested statement, not in this one's own header
                best = st
        return best

    stmts_ = {id(innermost(e_)) for e_ in evals if innermost(e_) is not None}
    ev_nodes = {x for x in cfg.nodes if x.stmt is not None and id(x.stmt) in stmts_}
    for o in opens:
        con = "%s.execute::results-evaluated-before-open" % d.key
        after_o = cfg.reachable(o)
        before = {x for x in ev_nodes if x is not o and x not in after_o and o in cfg.reachable(x)}
        ok = bool(before) and cfg.must_pass_through(cfg.entry, o, before)
        ctx.ob(rule, con, d.module.rel, o.line, ok, "every written result is read before `%s`" % K.src(o.ast)[:50] if ok else
               "`%s` opens (and truncates) the output before the results to be written have been read: %s" % (K.src(o.ast)[:50], why))
