"""C11 — line numbers in parse trees and errors are the true source lines."""
import ast
import copy

from engine import grammar, tables
from engine import regexlang as RL
from engine.index import own_nodes
from engine.report import AnalysisError

from . import common as K

LINE_ATTRS = ("lineno",)


def carries_line(e, fi):
    """Is `e` a line-carrying expression of the offending object?"""
    if e is None:
        return False
    if isinstance(e, ast.Name):
        params = {a.arg for a in fi.node.args.args + fi.node.args.kwonlyargs}
        f = fi
        outer = set()
        while f.parent is not None:
            f = f.parent
            outer |= {a.arg for a in f.node.args.args}
        if e.id not in (params | outer):
            # a local that holds a line: every definition of it is itself a line-carrying expression (`arg_lineno = value.lineno`)
            defs = [n.value for n in own_nodes(fi.node) if isinstance(n, ast.Assign) and any(isinstance(t_, ast.Name) and t_.id == e.id for t_ in n.targets)]
            stmts = [n for n in own_nodes(fi.node) if isinstance(n, ast.Assign) and any(isinstance(t_, ast.Name) and t_.id == e.id for t_ in n.targets)]
            for n in own_nodes(fi.node):
                # a, line = x.value, x.lineno or lineno
                if isinstance(n, ast.Assign) and len(n.targets) == 1 and isinstance(n.targets[0], ast.Tuple) and isinstance(n.value, ast.Tuple) and len(n.value.elts) == len(n.targets[0].elts):
                    for t_, v_ in zip(n.targets[0].elts, n.value.elts):
                        if isinstance(t_, ast.Name) and t_.id == e.id:
                            defs.append(v_)
                            stmts.append(n)
            other = [n for n in own_nodes(fi.node) if isinstance(n, ast.Name) and n.id == e.id and isinstance(n.ctx, ast.Store)]
            if len(other) != len(defs):
                return False  # bound in a way not followed (loop target, with, augmented)
            # used in a loop and set under a condition inside it: the value must be set afresh in every round (an unconditional
            # statement of the loop body) - otherwise a later element inherits the line found for an earlier one
            par = {}
            for n in ast.walk(fi.node):
                for c in ast.iter_child_nodes(n):
                    par[id(c)] = n
            loop = par.get(id(e))
            while loop is not None and not isinstance(loop, (ast.For, ast.While)):
                loop = par.get(id(loop))
            if loop is not None:
                inside = [st for st in stmts if any(st is x for x in ast.walk(loop))]
                if inside and not any(st in loop.body for st in inside):
                    return False
            ok_name = lambda d_: isinstance(d_, ast.Name) and d_.id == "lineno" and d_.id in params  # noqa: E731
            return bool(defs) and all((ok_name(d_) or not isinstance(d_, ast.Name)) and carries_line(d_, fi) for d_ in defs)
        if e.id != "lineno":
            return False
        if e.id in params:
            # the name must still denote the parameter here: a local rebinding (e.g. to an argument's line) makes it the
            # line of a different object
            cfg = K.cfg_of(_IDX[0], fi) if _IDX else None
            if cfg is not None:
                rd = cfg.reaching_defs()
                for n in cfg.nodes:
                    if n.ast is not None and n.kind in ("call", "raise", "store", "return") and any(x is e for x in ast.walk(n.ast)):
                        defs = rd.get(n, {}).get(e.id, frozenset())
                        if defs and defs != frozenset(["param"]):
                            locals_ = [d for d in defs if d != "param"]
                            all_lines = all(d.kind == "store" and d.meta.get("value") is not None and isinstance(d.meta["value"], (ast.Attribute, ast.Call, ast.IfExp, ast.Subscript)) and carries_line(d.meta["value"], fi) for d in locals_)
                            if "param" in defs or not all_lines:
                                return False  # the parameter mixed with a local rebinding: the line of a different object
        return True
    if isinstance(e, ast.Attribute):
        return e.attr == "lineno"
    if isinstance(e, ast.Call) and isinstance(e.func, ast.Attribute) and e.func.attr == "get" and isinstance(e.func.value, ast.Attribute) and e.func.value.attr == "argument_lines":
        return True
    if isinstance(e, ast.Call) and isinstance(e.func, ast.Name):
        # line_of = self.argument_lines.get; ... line_of("X")
        defs = [n.value for n in own_nodes(fi.node) if isinstance(n, ast.Assign) and any(isinstance(t_, ast.Name) and t_.id == e.func.id for t_ in n.targets)]
        if len(defs) == 1 and isinstance(defs[0], ast.Attribute) and defs[0].attr == "get" and isinstance(defs[0].value, ast.Attribute) and defs[0].value.attr == "argument_lines":
            return True
    if isinstance(e, ast.Subscript) and isinstance(e.value, ast.Attribute) and e.value.attr in ("argument_lines", "list_linenos"):
        return True
    if isinstance(e, ast.IfExp):
        a, b = carries_line(e.body, fi), carries_line(e.orelse, fi)
        none_b = isinstance(e.orelse, ast.Constant) and e.orelse.value is None
        none_a = isinstance(e.body, ast.Constant) and e.body.value is None
        return (a and (b or none_b)) or (b and none_a)
    if isinstance(e, ast.BoolOp) and isinstance(e.op, ast.Or):
        return all(carries_line(v, fi) for v in e.values)
    return False


_IDX = []
_SOFT11 = []


def _root_name(e):
    while isinstance(e, (ast.Subscript, ast.Attribute)):
        e = e.value
    return e


def _straight_value(fn, aug):
    """the increment expression with the straight-line local assignments in front of it substituted back
    (`breaks = t.value.count('\n'); breaks = breaks + ...; lineno += breaks`)"""
    import copy

    env = {}

    class S(ast.NodeTransformer):
        def visit_Name(self, x):
            if isinstance(x.ctx, ast.Load) and x.id in env:
                return copy.deepcopy(env[x.id])
            return x

    def walk(stmts):
        for st in stmts:
            if any(x is aug for x in ast.walk(st)):
                if st is aug:
                    return S().visit(copy.deepcopy(aug.value))
                for f_ in ("body", "orelse", "finalbody"):
                    v = getattr(st, f_, None)
                    if isinstance(v, list) and any(x is aug for b in v for x in ast.walk(b)):
                        return walk(v)
                return S().visit(copy.deepcopy(aug.value))
            if isinstance(st, ast.Assign) and len(st.targets) == 1 and isinstance(st.targets[0], ast.Name):
                env[st.targets[0].id] = S().visit(copy.deepcopy(st.value))
            else:
                for x in ast.walk(st):
                    if isinstance(x, ast.Name) and isinstance(x.ctx, ast.Store):
                        env.pop(x.id, None)
        return aug.value

    return walk(fn.body)


def newline_increment(rule):
    """(form, expr text) of the `lexer.lineno += ...` in a token function, or (None, None)"""
    fn = rule.node
    if not isinstance(fn, ast.FunctionDef):
        return None, None
    t = fn.args.args[-1].arg
    for n in ast.walk(fn):
        if isinstance(n, ast.AugAssign) and isinstance(n.op, ast.Add) and isinstance(n.target, ast.Attribute) and n.target.attr == "lineno":
            s = K.src(_straight_value(fn, n)).replace(" ", "").replace('"', "'")
            if s.startswith("(") and s.endswith(")") and s.count("(") == s.count(")") and "count" in s:
                s = s[1:-1] if not s[1:-1].startswith("(") else s
            v = "%s.value" % t
            # the count must be taken on the raw token text: no rewrite of <t>.value may reach the increment
            from engine.cfg import CFG
            c = CFG(fn)
            augs = [x for x in c.find("aug") if x.ast is n]
            rewrites = [x for x in c.find("store") if x.meta.get("attr") == "value" and isinstance(x.ast.value, ast.Name) and x.ast.value.id == t]
            def reads_rewritten():
                """does the increment read <t>.value itself after a rewrite, or only a local copy taken before any rewrite?"""
                direct = any(isinstance(x, ast.Attribute) and x.attr == "value" and isinstance(x.value, ast.Name) and x.value.id == t for x in ast.walk(n.value))
                if direct:
                    return True
                for nm in K.names_in(n.value):
                    defs = [x for x in c.find("store") if x.meta.get("name") == nm]
                    for d_ in defs:
                        if any(d_ in c.reachable(w) for w in rewrites):
                            return True  # the copy itself is taken after a rewrite
                return False

            if augs and any(augs[0] in c.reachable(w) for w in rewrites) and reads_rewritten():
                return "after-rewrite", s
            if s == "len(%s)" % v:
                return "len", s
            if s == "%s.count('\\n')" % v:
                return "count_lf", s
            if s == "1":
                return "one", s
            parts = sorted(x for x in s.replace("-", "+-").split("+") if x)
            want = sorted(["%s.count('\\n')" % v, "%s.count('\\r')" % v, "-%s.count('\\r\\n')" % v])
            if parts == want:
                return "terminators", s
            if "findall(" in s and s.startswith("len(") and ("\\r\\n|\\r|\\n" in s or "\\r\\n|\\n|\\r" in s):
                return "terminators", s
            return "unknown", s
    return None, None


def _linear(fi, e, depth=0):
    """expression -> ({atom source: coefficient}, constant); names with a single definition are expanded first"""
    if isinstance(e, ast.Name) and depth < 6:
        d = K.single_defs(fi).get(e.id)
        if d is not None and not isinstance(d, (ast.Call, ast.IfExp)):
            return _linear(fi, d, depth + 1)
    if isinstance(e, ast.Constant) and isinstance(e.value, int) and not isinstance(e.value, bool):
        return {}, e.value
    if isinstance(e, ast.BinOp) and isinstance(e.op, (ast.Add, ast.Sub)):
        a, ca = _linear(fi, e.left, depth)
        b, cb = _linear(fi, e.right, depth)
        sg = 1 if isinstance(e.op, ast.Add) else -1
        out = dict(a)
        for k, v in b.items():
            out[k] = out.get(k, 0) + sg * v
        return {k: v for k, v in out.items() if v}, ca + sg * cb
    if isinstance(e, ast.UnaryOp) and isinstance(e.op, ast.USub):
        a, ca = _linear(fi, e.operand, depth)
        return {k: -v for k, v in a.items()}, -ca
    return {K.src(e).replace(" ", ""): 1}, 0


def _lin_sub(a, b):
    out = dict(a[0])
    for k, v in b[0].items():
        out[k] = out.get(k, 0) - v
    return {k: v for k, v in out.items() if v}, a[1] - b[1]


def marked_in_loop(cli, s_all):
    """The excerpt printed by one loop over a slice of the lines, the marker chosen per line by a test: (ok|None, why, line) or
    None when there is no such loop."""
    consts = [n for n in s_all if isinstance(n, ast.Constant) and isinstance(n.value, str) and "-->" in n.value]
    if not consts:
        return None
    for lp in [n for n in s_all if isinstance(n, ast.For)]:
        if not any(c is x for c in consts for st in lp.body for x in ast.walk(st)):
            continue
        it = lp.iter
        off = elem = None
        enum_start = ({}, 0)
        base = None
        if isinstance(it, ast.Call) and isinstance(it.func, ast.Name) and it.func.id == "enumerate" and it.args and isinstance(lp.target, ast.Tuple) and len(lp.target.elts) == 2 and all(isinstance(x, ast.Name) for x in lp.target.elts):
            off, elem = lp.target.elts[0].id, lp.target.elts[1].id
            st_ = it.args[1] if len(it.args) > 1 else next((k.value for k in it.keywords if k.arg == "start"), None)
            if st_ is not None:
                enum_start = _linear(cli, st_)
            seq = it.args[0]
            if isinstance(seq, ast.Name):
                seq = K.single_defs(cli).get(seq.id, seq)
            if isinstance(seq, ast.Subscript) and isinstance(seq.slice, ast.Slice) and seq.slice.step is None:
                base = _linear(cli, seq.slice.lower) if seq.slice.lower is not None else ({}, 0)
            elif isinstance(seq, ast.Name):
                base = ({}, 0)
        elif isinstance(it, ast.Call) and isinstance(it.func, ast.Name) and it.func.id == "range" and isinstance(lp.target, ast.Name):
            off = lp.target.id
            base = ({}, 0)
        if off is None or base is None:
            return None, "the loop printing the marked excerpt (`for %s in %s`) is outside the recognised forms" % (K.src(lp.target), K.src(it)[:50]), lp.lineno
        # the test that selects the marker
        tests = []
        for n in [x for st in lp.body for x in ast.walk(st)]:
            if isinstance(n, (ast.IfExp, ast.If)) and any(c is x for c in consts for x in ast.walk(n)):
                tests.append(n)
        if not tests:
            return False, "every line of the excerpt is printed with the --> marker", lp.lineno
        t = tests[0]
        in_body = any(c is x for c in consts for b_ in ([t.body] if isinstance(t, ast.IfExp) else t.body) for x in ast.walk(b_))
        cond = t.test
        if not (isinstance(cond, ast.Compare) and len(cond.ops) == 1 and isinstance(cond.ops[0], (ast.Eq, ast.NotEq))):
            return None, "the marker is chosen by `%s`, outside the recognised tests" % K.src(cond), t.lineno
        if isinstance(cond.ops[0], ast.NotEq):
            in_body = not in_body
        if not in_body:
            return False, "the --> marker is put on the lines for which `%s` is false" % K.src(cond), t.lineno
        diff = _lin_sub(_linear(cli, cond.left), _linear(cli, cond.comparators[0]))
        # absolute index of the printed element minus the offending index (ex.lineno - 1) must be what the test compares to zero
        absidx = dict(base[0])
        absidx[off] = absidx.get(off, 0) + 1
        absidx = ({k: v for k, v in absidx.items() if v}, base[1])
        absidx = _lin_sub(absidx, enum_start)
        want = None
        for k in list(diff[0]) + ["ex.lineno"]:
            if k.endswith(".lineno"):
                want = _lin_sub(absidx, ({k: 1}, -1))
        if want is None:
            return False, "the marker is placed by `%s`, which does not involve the error's line at all: it marks the offending line only when the excerpt happens to start %s lines above it (an error in the first lines of the file is marked wrongly or not at all)" % (K.src(cond), K.src(cond.comparators[0])), t.lineno
        neg = ({k: -v for k, v in want[0].items()}, -want[1])
        if diff == want or diff == neg:
            return True, "the loop marks the printed line whose index in the file equals ex.lineno - 1 (`%s`)" % K.src(cond), t.lineno
        return False, "the marker is placed by `%s`, which is not `index of the printed line == ex.lineno - 1`" % K.src(cond), t.lineno
    return None


def tokenising_pass(idx, fn, e):
    """`e` (the expression handed to the parser, definitions expanded) is `<pattern>.sub(<function>, <text>)` / `re.sub(<pattern>,
    <function>, <text>)` whose pattern first matches whole quoted strings (the lexer's own STRING rule, or a literal that opens
    with a double quote) in order to copy them: a pass that claims to step over string contents.  Returns the pattern's source
    text, or None.  Whether such a pass leaves the token stream and the line count as they were is not decided by these rules."""
    if not (isinstance(e, ast.Call) and isinstance(e.func, ast.Attribute) and e.func.attr in ("sub", "subn")):
        return None
    pat = None
    if isinstance(e.func.value, ast.Name) and e.func.value.id == "re" and len(e.args) >= 3:
        pat, repl = e.args[0], e.args[1]
    elif len(e.args) >= 2:
        repl = e.args[0]
        recv = e.func.value
        if isinstance(recv, ast.Name):
            r_ = idx.resolve(fn.module, recv, fn)
            if r_ is not None and r_[0] == "const":
                v_ = r_[1].consts.get(r_[2])
                if isinstance(v_, ast.Call) and K.src(v_.func) in ("re.compile", "compile") and v_.args:
                    pat = v_.args[0]
    if pat is None or not isinstance(repl, (ast.Lambda, ast.Name, ast.Attribute)):
        return None
    txt = K.src(pat)
    lit = pat.value if isinstance(pat, ast.Constant) and isinstance(pat.value, str) else None
    if lit is None and isinstance(pat, ast.Call) and isinstance(pat.func, ast.Attribute) and pat.func.attr == "format" and isinstance(pat.func.value, ast.Constant) and isinstance(pat.func.value.value, str):
        lit = pat.func.value.value
        if "t_STRING" in txt:
            import re as _re

            head = _re.sub(r"^(\(\?P<\w+>|\(\?:|\()+", "", lit)
            if head.startswith("{"):
                return txt
    if lit is not None:
        import re as _re

        head = _re.sub(r"^(\(\?P<\w+>|\(\?:|\()+", "", lit)
        if head.startswith('"') and "|" in lit:
            return txt
    return None


def _lines_kept_by_hand(L):
    """None when every nonterminal whose line an action reads has its line stored by all its productions (see C11.a);
    (nonterminal, reader, production) for the first that has not; () when no action stores lines at all."""
    toks = set(L.tokens)
    prods_of = {}
    for p in L.productions:
        prods_of.setdefault(p.lhs, []).append(p)

    def stores_line(p):
        parg = p.func.args.args[-1].arg
        for c in ast.walk(p.func):
            if isinstance(c, ast.Call) and isinstance(c.func, ast.Attribute) and c.func.attr == "set_lineno" and isinstance(c.func.value, ast.Name) and c.func.value.id == parg \
                    and len(c.args) == 2 and isinstance(c.args[0], ast.Constant) and c.args[0].value == 0 and K.src(c.args[1]).replace(" ", "") == "%s.lineno(1)" % parg:
                return True
        return False

    if not any(stores_line(p) for p in L.productions):
        return ()
    memo = {}

    def valid(nt, stack=()):
        if nt in toks:
            return None
        if nt in memo:
            return memo[nt]
        if nt in stack:
            return None
        for p in prods_of.get(nt, []):
            if not p.rhs:
                memo[nt] = (nt, p)
                return memo[nt]
            if not stores_line(p):
                memo[nt] = (nt, p)
                return memo[nt]
            sub = valid(p.rhs[0], stack + (nt,))
            if sub is not None:
                memo[nt] = sub
                return sub
        memo[nt] = None
        return None

    for p in L.productions:
        parg = p.func.args.args[-1].arg
        for c in ast.walk(p.func):
            if isinstance(c, ast.Call) and isinstance(c.func, ast.Attribute) and c.func.attr == "lineno" and isinstance(c.func.value, ast.Name) and c.func.value.id == parg \
                    and len(c.args) == 1 and isinstance(c.args[0], ast.Constant) and isinstance(c.args[0].value, int) and 1 <= c.args[0].value <= len(p.rhs):
                sym = p.rhs[c.args[0].value - 1]
                bad = valid(sym)
                if bad is not None:
                    return (bad[0], p.func.name, str(bad[1]))
    return None


def text_reaches_lexer(ctx, idx, rule, consequence):
    """from_source -> Parser.parse -> PLY: each hop passes its own text parameter on as it is"""
    hops = [(idx.func("mpilot.program", "Program.from_source"), "from_source -> Parser.parse"), (idx.func("mpilot.parser.parser", "Parser.parse"), "Parser.parse -> PLY parse")]
    n_hops = 0
    for fn, what in hops:
        if fn is None:
            raise AnalysisError("%s: %s vanished" % (rule, what))
        params = [a.arg for a in fn.node.args.args]
        calls = [n for n in own_nodes(fn.node) if isinstance(n, ast.Call) and isinstance(n.func, ast.Attribute) and n.func.attr == "parse" and (n.args or any(k.arg in ("input", "source") for k in n.keywords))]
        for c in calls:
            n_hops += 1
            a0 = c.args[0] if c.args else next(k.value for k in c.keywords if k.arg in ("input", "source"))
            e = K.expand(fn, a0)
            con = "%s::text-passed-on-unchanged" % fn.key
            rebound = [n for n in own_nodes(fn.node) if isinstance(n, ast.Name) and isinstance(n.ctx, ast.Store) and n.id in params]
            # accepted: the parameter itself; str()/text_type() of it; parameter + constant suffix
            inner = e
            if isinstance(inner, ast.Call) and len(inner.args) == 1 and K.src(inner.func) in ("str", "six.text_type", "text_type"):
                inner = inner.args[0]
            if isinstance(inner, ast.BinOp) and isinstance(inner.op, ast.Add) and isinstance(inner.right, ast.Constant):
                inner = inner.left
            if isinstance(inner, ast.Name) and inner.id in params and not rebound:
                ctx.hold(rule, con, K.rel(fn), c.lineno, "%s: `%s` is the parameter itself" % (what, K.src(a0)))
                continue
            text = K.src(e)
            if rebound and isinstance(inner, ast.Name):
                defs_ = [n_.value for n_ in own_nodes(fn.node) if isinstance(n_, ast.Assign) and any(isinstance(t_, ast.Name) and t_.id == inner.id for t_ in n_.targets)]
                if defs_:
                    text = K.src(defs_[-1])
            tp = None
            if isinstance(inner, ast.Name):
                defs2_ = [n_.value for n_ in own_nodes(fn.node) if isinstance(n_, ast.Assign) and any(isinstance(t_, ast.Name) and t_.id == inner.id for t_ in n_.targets)]
                if len(defs2_) == 1:
                    tp = tokenising_pass(idx, fn, defs2_[0])
            else:
                tp = tokenising_pass(idx, fn, inner)
            if tp:
                raise AnalysisError("%s: %s: the text goes through a regular-expression pass that copies quoted strings and rewrites the layout around them (`%s`); whether the tokens and the line count come out as before is not decided" % (rule, what, tp[:70]))
            shifting = [m for m in (".strip(", ".lstrip(", ".rstrip(", ".splitlines(", ".split(", ".replace(", ".expandtabs(", ".translate(", ".encode(", ".decode(", "dedent(", "normalize(", "re.sub(", "[") if m in text] or rebound
            if shifting:
                ctx.violate(rule, con, K.rel(fn), c.lineno, "%s: the text is transformed on the way (`%s`): %s" % (what, text[:80], consequence))
            else:
                raise AnalysisError("%s: %s passes `%s`, which is outside the recognised forms" % (rule, what, text[:80]))
    ctx.floor(rule, "text hand-over calls", n_hops, 2)


def run(ctx, idx):
    ctx.assume("PLY 3.11 facts (DESIGN A.2): a token's lineno is the lexer counter before its function runs; Lexer.input() does not reset the counter; p.lineno(i) of a nonterminal needs tracking=True; yacc.parse(lexer=None) uses the module-global last lexer")
    ctx.rule("C11.a", "In Parser.parse every path to the PLY parse call stores 1 into the lexer's line counter (or builds a fresh lexer); the call passes lexer= explicitly and tracking=True.")
    ctx.rule("C11.b", "Line terminators are counted once: the newline rule's increment counts terminators of its own pattern (a pattern admitting CR LF with len(value) counts it twice); every other token whose language can contain LF adds value.count('\\n') to the counter (language test by DFA).")
    ctx.rule("C11.c", "Every node-building grammar action takes p.lineno of the production's first symbol.")
    ctx.rule("C11.d", "Threading: from_source passes the node's line into every Argument/ListArgument and add_command; add_command passes it to the command; Command.__init__ keeps it and builds argument_lines from the arguments' lines; every call of clean passes a line-carrying expression.")
    ctx.rule("C11.e", "Every raise of a ProgramError subclass in program.py, commands.py, params.py and utils.convert_eems2_commands binds the constructor's lineno parameter to a line-carrying expression of the offending object.")
    ctx.rule("C11.f", "The CLI marks lines[ex.lineno - 1] and `lines` is the same split that was joined into the source handed to from_source.")
    ctx.rule("C11.h", "An error's line is fixed where the error is raised: no handler stores a `lineno` on an exception it has caught, except Command.run filling in its own command's line (the command whose evaluation failed). A caller further out (Program.run, the CLI) only knows the command it started, not the one that failed inside it, so a line patched in there is a wrong line.")
    n_handlers = 0
    A_ = K.anchors(idx)
    for mod_, fi_, n_ in K.scoped_nodes(idx):
        if not isinstance(n_, ast.ExceptHandler):
            continue
        n_handlers += 1
        if not n_.name:
            continue
        for x_ in [y for st in n_.body for y in ast.walk(st)]:
            tgt = None
            if isinstance(x_, ast.Attribute) and isinstance(x_.ctx, ast.Store) and x_.attr == "lineno" and isinstance(x_.value, ast.Name) and x_.value.id == n_.name:
                tgt = x_
            if isinstance(x_, ast.Call) and isinstance(x_.func, ast.Name) and x_.func.id == "setattr" and len(x_.args) == 3 and isinstance(x_.args[0], ast.Name) and x_.args[0].id == n_.name \
                    and isinstance(x_.args[1], ast.Constant) and x_.args[1].value == "lineno":
                tgt = x_
            if tgt is None:
                continue
            top_ = fi_
            while top_ is not None and getattr(top_, "parent", None) is not None:
                top_ = top_.parent
            own = top_ is A_.run and fi_ is A_.run
            # the line may travel with the error: a value read off the caught object itself (`ex.failed_command.lineno`) names
            # whatever the raising side recorded, not the command at hand
            val_ = None
            for st_ in ast.walk(n_):
                if isinstance(st_, ast.Assign) and any(t_ is tgt for t_ in st_.targets):
                    val_ = st_.value
            if isinstance(tgt, ast.Call):
                val_ = tgt.args[2]
            root_ = val_
            while isinstance(root_, (ast.Attribute, ast.Subscript)):
                root_ = root_.value
            if isinstance(root_, ast.Call) and isinstance(root_.func, ast.Name) and root_.func.id == "getattr" and root_.args:
                root_ = root_.args[0]
                while isinstance(root_, (ast.Attribute, ast.Subscript)):
                    root_ = root_.value
            if isinstance(root_, ast.Name) and root_.id == n_.name and not own:
                own = True
            con_ = "%s::line-patched-onto-caught-error" % K.where(mod_, fi_)
            ctx.ob("C11.h", con_, mod_.rel, tgt.lineno, own,
                   "the line comes from the failing command itself (Command.run's own line, or a record carried by the error)" if own else
                   "`%s` stores a line on an error caught in %s: the error may come from any command evaluated underneath (a dependency pulled through .result), so it gets the line of a command that did not fail and the command-line tool marks that line" % (K.src(tgt)[:60], fi_.qualname if fi_ is not None else "module code"))
    ctx.floor("C11.h", "exception handlers examined", n_handlers, 8)
    del _IDX[:]
    _IDX.append(idx)
    L = grammar.Lexicon(idx)
    pmod = L.mod
    # ------------------------------------------------------------------ a
    fi = L.parser_cls.methods.get("parse")
    if fi is None:
        raise AnalysisError("Parser.parse vanished")
    cfg = K.cfg_of(idx, fi)
    sn = K.self_name(fi)
    calls = cfg.find("call", lambda n: isinstance(n.ast.func, ast.Attribute) and n.ast.func.attr == "parse" and isinstance(n.ast.func.value, ast.Attribute) and isinstance(n.ast.func.value.value, ast.Name) and n.ast.func.value.value.id == sn)
    ctx.floor("C11.a", "PLY parse call sites in Parser.parse", len(calls), 1)
    for c in calls:
        kws = {k.arg: k.value for k in c.ast.keywords}
        con = "%s::parse-call" % fi.key
        lexarg = kws.get("lexer")
        ok_lex = lexarg is not None and not (isinstance(lexarg, ast.Constant) and lexarg.value is None)
        why_lex = "lexer= passed explicitly"
        if not ok_lex:
            # PLY reads through its module-level default `ply.lex.lexer` when none is given: acceptable when this parser's own
            # lexer is made that default on every path to the call (trusted base: yacc.parse uses lex.lexer for lexer=None)
            sets = cfg.find("store", lambda n: n.meta.get("attr") == "lexer" and isinstance(n.ast, ast.Attribute) and (idx.qualname(fi.module, n.ast, fi) or "") in ("ply.lex.lexer",) and n.meta.get("value") is not None and K.src(n.meta["value"]) == "%s.lexer" % sn)
            if sets and cfg.must_pass_through(cfg.entry, c, set(sets)):
                ok_lex = True
                why_lex = "this parser's lexer is made PLY's default lexer (ply.lex.lexer = self.lexer) on every path to the call"
                lexarg = sets[0].meta["value"]
        ok_trk = isinstance(kws.get("tracking"), ast.Constant) and kws["tracking"].value is True
        why_trk = "tracking=True" if ok_trk else "parse() is called without tracking=True: p.lineno() of nonterminals is 0"
        if not ok_trk and "tracking" not in kws:
            # without tracking PLY records a line for terminals only.  The actions may keep the lines themselves: every production
            # of a nonterminal whose line some action reads stores `p.set_lineno(0, p.lineno(1))`, its own first symbol being a
            # terminal or such a nonterminal again
            bad_nt = _lines_kept_by_hand(L)
            if bad_nt is None:
                ok_trk, why_trk = True, "no tracking, but every production of every nonterminal whose line is read stores the line of its first token (p.set_lineno(0, p.lineno(1)))"
            elif bad_nt:
                why_trk = "parse() is called without tracking=True and `%s` (read through p.lineno() by %s) does not store its line in production `%s`: such a node gets line 0" % bad_nt
        ctx.ob("C11.a", con + "::lexer-explicit", K.rel(fi), c.line, ok_lex, why_lex if ok_lex else "parse() is called without lexer=: PLY falls back to the module-global last-created lexer, whose position and line counter belong to another parse")
        ctx.ob("C11.a", con + "::tracking", K.rel(fi), c.line, ok_trk, why_trk)
        resets = cfg.find("store", lambda n: n.meta.get("attr") == "lineno" and isinstance(n.meta.get("value"), ast.Constant) and n.meta["value"].value == 1)
        fresh = False
        if isinstance(lexarg, ast.Name):
            rd = cfg.reaching_defs().get(c, {}).get(lexarg.id, frozenset())
            fresh = bool(rd) and all(d != "param" and d.kind == "store" and isinstance(d.meta.get("value"), (ast.Call, ast.Attribute)) and "Lexer(" in K.src(d.meta["value"]) for d in rd)
        if isinstance(lexarg, ast.Attribute) and isinstance(lexarg.value, ast.Call) and "Lexer" in K.src(lexarg.value.func):
            fresh = True
        ok = fresh or cfg.must_pass_through(cfg.entry, c, set(resets)) and bool(resets)
        if not ok and resets:
            # the invariant form: the counter is put back to 1 on every way out of parse() after the call (normal and exceptional -
            # a rejected text must not leave its line count behind), the lexer is built by __init__ (a new PLY lexer starts at 1),
            # and nothing outside the token rules moves the counter
            after = {n for n in resets if n in cfg.reachable(c)}
            live = cfg.reachable(c)
            both = all(ex not in live or cfg.must_pass_through(c, ex, after) for ex in (cfg.exit, cfg.raise_exit))
            init = L.parser_cls.methods.get("__init__")
            built = init is not None and any(isinstance(n_, ast.Assign) and any(isinstance(t_, ast.Attribute) and t_.attr == "lexer" for t_ in n_.targets) and isinstance(n_.value, (ast.Call, ast.Attribute)) for n_ in own_nodes(init.node))
            others = [1 for m_ in L.parser_cls.methods.values() if m_ is not fi and m_ is not init for n_ in own_nodes(m_.node)
                      if isinstance(n_, ast.Attribute) and isinstance(n_.ctx, ast.Store) and n_.attr == "lineno" and "lexer" in K.src(n_.value)]
            if after and both and built and not others:
                ok = True
        if not ok:
            computed = cfg.find("store", lambda n: n.meta.get("attr") == "lineno" and n.meta.get("value") is not None and not isinstance(n.meta.get("value"), ast.Constant))
            if computed and cfg.must_pass_through(cfg.entry, c, set(computed)):
                raise AnalysisError("C11.a: the lexer's line counter is set to a computed value (`%s`) before parsing: cannot decide whether it is the line of the first character handed to the lexer" % K.src(computed[0].meta["value"])[:80])
        clone = lexarg is not None and ".clone(" in K.src(lexarg)
        ctx.ob("C11.a", con + "::counter-reset", K.rel(fi), c.line, ok and not clone,
               "line counter reset to 1 (or a fresh lexer) on every path to the parse call, or put back to 1 on every way out of every parse" if ok and not clone else
               "the lexer's line counter is not reset before parsing: a second parse() on the same Parser continues counting where the previous text ended, so every line is offset")
    # ------------------------------------------------------------------ b
    dfas = {r.name: RL.dfa(r.pattern) for r in L.rules}
    nl = [r for r in L.rules if r.kind == "func" and r.returns_token is False and RL.contains(dfas[r.name], {"\n"}) is not None]
    if not nl:
        raise AnalysisError("C11.b: newline rule (a token function consuming LF and returning nothing) not found")
    for r in nl:
        d = dfas[r.name]
        form, text = newline_increment(r)
        con = "%s::%s::terminator-count" % (pmod.rel, r.name)
        has_cr = RL.contains(d, {"\r"}) is not None
        crlf = RL.intersection(d, RL.dfa(r"[\s\S]*\r\n[\s\S]*")) is not None
        multi = RL.not_included(d, RL.dfa(r"\r\n|\r|\n")) is not None
        if form is None:
            ctx.violate("C11.b", con, pmod.rel, r.node.lineno, "the newline rule does not advance the line counter at all")
        elif form == "unknown":
            raise AnalysisError("C11.b: increment `%s` of %s is outside the recognised forms" % (text, r.name))
        elif form == "terminators":
            ctx.hold("C11.b", con, pmod.rel, r.node.lineno, "counts LF + CR - CRLF: every terminator once")
        elif form == "len":
            if crlf:
                ctx.violate("C11.b", con, pmod.rel, r.node.lineno, "pattern %r admits the pair CR LF and the increment is len(value): a Windows line ending advances the counter by two (witness %r)" % (r.pattern, "\r\n"))
            elif has_cr or RL.contains(d, {"\n"}):
                ok = RL.not_included(d, RL.dfa(r"\n+")) is None or RL.not_included(d, RL.dfa(r"\r+")) is None
                ctx.ob("C11.b", con, pmod.rel, r.node.lineno, ok, "single-character terminators counted by len")
        elif form == "count_lf":
            if has_cr and RL.intersection(d, RL.dfa(r"\r+")) is not None:
                ctx.violate("C11.b", con, pmod.rel, r.node.lineno, "pattern %r accepts a bare CR as a line break but only LF is counted" % r.pattern)
            else:
                ctx.hold("C11.b", con, pmod.rel, r.node.lineno, "counts LF; the pattern admits no bare CR line break")
        elif form == "one":
            ctx.ob("C11.b", con, pmod.rel, r.node.lineno, not multi, "one terminator per match, += 1" if not multi else "the pattern matches several terminators at once but the counter advances by one")
    # no line terminator is swallowed without being counted: neither CR nor LF may sit in t_ignore, and a bare CR must be matched by a counting rule
    ign = L.t_ignore or ""
    swallowed = [c for c in ("\r", "\n") if c in ign]
    con = "%s::t_ignore::terminators-not-ignored" % pmod.rel
    ctx.ob("C11.b", con, pmod.rel, L.lexer_cls.node.lineno, not swallowed, "neither CR nor LF is in t_ignore" if not swallowed else
           "t_ignore contains %s: that line terminator is skipped without advancing the line counter, so in a file with bare-CR or mixed line ends every later command, argument and error carries too small a line number" % ", ".join(repr(c) for c in swallowed))
    pre_ = False
    pf_ = idx.func("mpilot.parser.parser", "Parser.parse")
    if pf_ is not None:
        for n_ in own_nodes(pf_.node):
            if isinstance(n_, ast.Call) and tokenising_pass(idx, pf_, n_):
                pre_ = True
    if pre_:
        ctx.note("C11.b: the text is normalised by a string-copying regular-expression pass before it is tokenised; which line ends reach the lexer is left to C11.g (cannot decide)")
    if not swallowed and not pre_:
        cr_counted = any(RL.contains(dfas[r.name], {"\r"}) is not None for r in nl)
        cr_other = [r.name for r in L.rules if r not in nl and not r.ignored and RL.intersection(dfas[r.name], RL.dfa(r"\r")) is not None]
        ctx.ob("C11.b", "%s::bare-CR-counted" % pmod.rel, pmod.rel, nl[0].node.lineno, cr_counted or bool(cr_other), "a bare CR is matched by the counting newline rule" if cr_counted else
               "no rule matches a bare CR as a line break" if not cr_other else "CR is matched by %s" % cr_other)
    n_tok = 0
    for r in L.rules:
        if r in nl:
            continue
        n_tok += 1
        w = RL.contains(dfas[r.name], {"\n"})
        con = "%s::%s::lf-inside-token" % (pmod.rel, r.name)
        if w is None:
            ctx.hold("C11.b", con, pmod.rel, r.node.lineno, "language of %r cannot contain LF" % r.pattern)
            continue
        form, text = newline_increment(r)
        if form == "after-rewrite":
            ctx.violate("C11.b", con, pmod.rel, r.node.lineno, "token %s counts line breaks (`%s`) after its value has been rewritten (escape sequences decoded): an escape like \\n is counted as a source line break" % (r.token, text))
        elif form in ("count_lf", "terminators"):
            ctx.hold("C11.b", con, pmod.rel, r.node.lineno, "token may span lines (witness %r) and adds %s to the counter" % (w, text))
        else:
            ctx.violate("C11.b", con, pmod.rel, r.node.lineno, "token %s can contain a line break (witness %r) but never advances the line counter: every later line number is too small" % (r.token, w))
    ctx.floor("C11.b", "token rules examined", n_tok, 12)
    # ------------------------------------------------------------------ c
    n_ln = 0
    for p in {pr.func.name: pr.func for pr in L.productions}.values():
        parg = p.args.args[-1].arg
        for n in ast.walk(p):
            if isinstance(n, ast.Call) and isinstance(n.func, ast.Attribute) and n.func.attr in ("lineno", "linespan") and isinstance(n.func.value, ast.Name) and n.func.value.id == parg:
                n_ln += 1
                k = n.args[0].value if n.args and isinstance(n.args[0], ast.Constant) else None
                con = "%s::Parser.%s::node-line" % (pmod.rel, p.name)
                ctx.ob("C11.c", con, pmod.rel, n.lineno, k == 1, "line of the first symbol" if k == 1 else
                       "the node takes p.lineno(%s), the line of its symbol #%s, not of its first symbol: a construct spread over several lines is reported on a later line" % (k, k))
    ctx.floor("C11.c", "p.lineno(i) uses in grammar actions", n_ln, 5)
    # a node built further down must not stand for a construct that started earlier: when a production puts p[k] (k > 1) bare into
    # a pair / list it returns, and symbol k's own action is where the line-carrying node is built, the element carries the line of
    # its k-th part (the value of `key: value` written on the next line), not the line it starts on
    builders = set()
    for pr in L.productions:
        fn_ = pr.func
        parg_ = fn_.args.args[-1].arg
        if any(isinstance(n_, ast.Call) and isinstance(n_.func, ast.Attribute) and n_.func.attr in ("lineno", "linespan") and isinstance(n_.func.value, ast.Name) and n_.func.value.id == parg_ for n_ in ast.walk(fn_)):
            builders.add(pr.lhs)
    for pr in L.productions:
        fn_ = pr.func
        parg_ = fn_.args.args[-1].arg
        if any(isinstance(n_, ast.Call) and isinstance(n_.func, ast.Attribute) and n_.func.attr in ("lineno", "linespan") for n_ in ast.walk(fn_)):
            continue
        for st_ in ast.walk(fn_):
            if not (isinstance(st_, ast.Assign) and any(isinstance(t_, ast.Subscript) and isinstance(t_.value, ast.Name) and t_.value.id == parg_ and isinstance(t_.slice, ast.Constant) and t_.slice.value == 0 for t_ in st_.targets)):
                continue
            if not isinstance(st_.value, ast.Tuple):
                continue
            for el_ in st_.value.elts:
                if isinstance(el_, ast.Subscript) and isinstance(el_.value, ast.Name) and el_.value.id == parg_ and isinstance(el_.slice, ast.Constant) and isinstance(el_.slice.value, int) and el_.slice.value > 1 \
                        and el_.slice.value <= len(pr.rhs) and pr.rhs[el_.slice.value - 1] in builders:
                    ctx.violate("C11.c", "%s::Parser.%s::element-line" % (pmod.rel, fn_.name), pmod.rel, st_.lineno,
                                "`%s : %s` returns its symbol #%d (%s) as it comes, and the line-carrying node is built in %s's own action: the element that starts with symbol #1 then carries the line of symbol #%d - a value written on the line after its key is reported one line late" % (pr.lhs, " ".join(pr.rhs), el_.slice.value, pr.rhs[el_.slice.value - 1], pr.rhs[el_.slice.value - 1], el_.slice.value))
    # ------------------------------------------------------------------ d
    prog = idx.cls("mpilot.program", "Program")
    fs = prog.methods["from_source"]
    n_sites = 0
    for f in K.helper_closure(idx, fs):
        for c in idx.own_calls(f):
            q = idx.qualname(f.module, c.func, f) or ""
            if q.endswith("arguments.Argument") or q.endswith("arguments.ListArgument"):
                n_sites += 1
                r = idx.resolve(f.module, c.func, f)
                b = tables.ctor_bind(idx, r[1], c) or {}
                ok = carries_line(b.get("lineno"), f)
                if ok and q.endswith("arguments.Argument") and b.get("name") is not None and b.get("lineno") is not None:
                    # the line of the argument node itself (`Name =` starts there), not of the value written after the `=`: with the
                    # value on a later line the error would point one line too far down
                    def _resolved(e_):
                        """through plain and tuple-unpacking assignments of names assigned once in the function"""
                        for _ in range(4):
                            names_ = [x_ for x_ in ast.walk(e_) if isinstance(x_, ast.Name)]
                            sub_ = {}
                            for x_ in names_:
                                defs_ = []
                                for st_ in own_nodes(f.node):
                                    if isinstance(st_, ast.Assign) and len(st_.targets) == 1:
                                        t_ = st_.targets[0]
                                        if isinstance(t_, ast.Name) and t_.id == x_.id:
                                            defs_.append(st_.value)
                                        elif isinstance(t_, ast.Tuple) and isinstance(st_.value, ast.Tuple) and len(t_.elts) == len(st_.value.elts):
                                            for a_, b_ in zip(t_.elts, st_.value.elts):
                                                if isinstance(a_, ast.Name) and a_.id == x_.id:
                                                    defs_.append(b_)
                                if len(defs_) == 1 and isinstance(defs_[0], (ast.Attribute, ast.Name)):
                                    sub_[x_.id] = defs_[0]
                            if not sub_:
                                break

                            class _S(ast.NodeTransformer):
                                def visit_Name(self, n_):
                                    return copy.deepcopy(sub_[n_.id]) if n_.id in sub_ and isinstance(n_.ctx, ast.Load) else n_
                            e_ = _S().visit(copy.deepcopy(e_))
                        return e_
                    nm_src = K.src(_resolved(b["name"]))
                    ln_src = K.src(_resolved(b["lineno"]))
                    if nm_src.endswith(".name") and ln_src.endswith(".lineno") and ln_src != nm_src[:-5] + ".lineno" and ln_src.startswith(nm_src[:-5] + "."):
                        ctx.violate("C11.d", "%s::Argument-line" % f.key, K.rel(f), c.lineno, "the argument `%s` is built with `%s`, the line of a part of it (its value), not `%s.lineno` where the argument starts: when the value is written on a later line than `Name =`, every error about the argument - and the line the command-line tool marks - is off" % (nm_src, ln_src, nm_src[:-5]))
                        continue
                ctx.ob("C11.d", "%s::%s-line" % (f.key, q.split(".")[-1]), K.rel(f), c.lineno, ok, "argument built with its node's line" if ok else "%s(...) is built without the line of its node: %s" % (q.split(".")[-1], K.src(c)[:80]))
                if q.endswith("ListArgument"):
                    ll = b.get("list_linenos")
                    ok = ll is not None and ".lineno" in K.src(ll)
                    ctx.ob("C11.d", "%s::ListArgument-element-lines" % f.key, K.rel(f), c.lineno, ok, "element lines recorded" if ok else "list elements lose their lines")
            if isinstance(c.func, ast.Attribute) and c.func.attr == "add_command":
                n_sites += 1
                b = {}
                ac = prog.methods["add_command"]
                names = [a.arg for a in ac.node.args.args[1:]]
                for i, a in enumerate(c.args):
                    b[names[i]] = a
                for k in c.keywords:
                    b[k.arg] = k.value
                ok = carries_line(b.get("lineno"), f)
                ctx.ob("C11.d", "%s::add_command-line" % f.key, K.rel(f), c.lineno, ok, "command added with its node's line" if ok else "add_command is called without the node's line")
    ac = prog.methods["add_command"]
    for c in idx.own_calls(ac):
        if isinstance(c.func, ast.Name) and c.func.id in [a.arg for a in ac.node.args.args]:
            n_sites += 1
            kws = {k.arg: k.value for k in c.keywords}
            e = kws.get("lineno", c.args[3] if len(c.args) > 3 else None)
            ok = carries_line(e, ac)
            ctx.ob("C11.d", "%s::command-line" % ac.key, K.rel(ac), c.lineno, ok, "the command object receives the line" if ok else "the command is constructed without its line")
    A = K.anchors(idx)
    if A.init is not None:
        sn = K.self_name(A.init)
        params_ = [a.arg for a in A.init.node.args.args]
        ok1 = any(isinstance(n, ast.Assign) and any(isinstance(t, ast.Attribute) and t.attr == "lineno" and isinstance(t.value, ast.Name) and t.value.id == sn for t in n.targets)
                  and isinstance(K.expand(A.init, n.value), ast.Name) and K.expand(A.init, n.value).id in params_ and "line" in K.expand(A.init, n.value).id for n in own_nodes(A.init.node))
        # the per-argument table: a fresh mapping assigned to the instance, filled from each argument's own name and line
        fresh = None
        for n in own_nodes(A.init.node):
            if isinstance(n, ast.Assign) and any(isinstance(t, ast.Attribute) and t.attr == "argument_lines" and isinstance(t.value, ast.Name) and t.value.id == sn for t in n.targets):
                fresh = n
        why2 = None
        if fresh is None:
            why2 = "no fresh table is assigned to the instance: `argument_lines` is then a table shared by every command of the process, keyed by parameter name only, and an error names the line of whichever command was built last"
        else:
            v = fresh.value
            filled = False
            if isinstance(v, ast.DictComp):
                filled = isinstance(v.key, ast.Attribute) and v.key.attr == "name" and isinstance(v.value, ast.Attribute) and v.value.attr == "lineno" and K.src(v.key.value) == K.src(v.value.value)
            elif isinstance(v, ast.Call) and K.src(v.func) in ("dict", "OrderedDict", "collections.OrderedDict") and v.args and isinstance(v.args[0], (ast.GeneratorExp, ast.ListComp)) and isinstance(v.args[0].elt, ast.Tuple) and len(v.args[0].elt.elts) == 2:
                k_, v_ = v.args[0].elt.elts
                filled = isinstance(k_, ast.Attribute) and k_.attr == "name" and isinstance(v_, ast.Attribute) and v_.attr == "lineno" and K.src(k_.value) == K.src(v_.value)
            elif isinstance(v, ast.Dict) and not v.keys or (isinstance(v, ast.Call) and K.src(v.func) in ("dict", "OrderedDict") and not v.args):
                # empty table filled by a loop: self.argument_lines[a.name] = a.lineno
                for n in own_nodes(A.init.node):
                    if isinstance(n, ast.Assign) and len(n.targets) == 1 and isinstance(n.targets[0], ast.Subscript) and isinstance(n.targets[0].value, ast.Attribute) and n.targets[0].value.attr == "argument_lines":
                        k_, v_ = n.targets[0].slice, n.value
                        if isinstance(k_, ast.Attribute) and k_.attr == "name" and isinstance(v_, ast.Attribute) and v_.attr == "lineno" and K.src(k_.value) == K.src(v_.value):
                            filled = True
            if not filled:
                why2 = "the table assigned to `argument_lines` is not {argument name: that argument's line}"
        ctx.ob("C11.d", "%s::keeps-lines" % A.init.key, K.rel(A.init), A.init.node.lineno, ok1 and why2 is None, "command keeps its line and a table of its own arguments' lines" if ok1 and why2 is None else ("Command.__init__ does not keep its line" if not ok1 else "Command.__init__: " + why2))
    n_clean = 0
    for mod, f, n in K.scoped_nodes(idx):
        if isinstance(n, ast.Call) and isinstance(n.func, ast.Attribute) and n.func.attr == "clean" and f is not None:
            if K.is_super_call(n):
                e = n.args[2] if len(n.args) > 2 else next((k.value for k in n.keywords if k.arg == "lineno"), None)
            else:
                e = n.args[2] if len(n.args) > 2 else next((k.value for k in n.keywords if k.arg == "lineno"), None)
            n_clean += 1
            ok = carries_line(e, f)
            ctx.ob("C11.d", "%s::clean-line(%s)" % (f.key, K.src(n.func)[:40]), mod.rel, n.lineno, ok, "clean receives the argument's line" if ok else "clean(...) is called without the argument's line: a validation error raised inside it carries no (or a wrong) line")
    ctx.floor("C11.d", "clean call sites", n_clean, 6)
    ctx.floor("C11.d", "Argument/add_command construction sites", n_sites, 5)
    # ------------------------------------------------------------------ e
    perr = idx.cls("mpilot.exceptions", "ProgramError")
    n_raise = 0
    for mod, f, n in K.scoped_nodes(idx):
        if mod.name not in ("mpilot.program", "mpilot.commands", "mpilot.params", "mpilot.utils") or f is None:
            continue
        if not (isinstance(n, ast.Raise) and isinstance(n.exc, ast.Call)):
            continue
        r = idx.resolve(mod, n.exc.func, f)
        if not r or r[0] != "class" or perr not in idx.mro(r[1]):
            continue
        n_raise += 1
        b = tables.ctor_bind(idx, r[1], n.exc)
        con = "%s::raise(%s)" % (f.key, r[1].name)
        if b is None:
            raise AnalysisError("C11.e: cannot bind constructor arguments of %s" % r[1].name)
        e = b.get("lineno")
        init = idx.find_method(r[1], "__init__")
        has_param = init is not None and "lineno" in [a.arg for a in init.node.args.args]
        if not has_param:
            ctx.violate("C11.e", con, mod.rel, n.lineno, "%s has no lineno parameter" % r[1].name)
        elif f.name == "clean" and f.cls is not None and idx.is_subclass(f.cls, "mpilot.params.Parameter") and isinstance(e, ast.Attribute) and e.attr == "lineno" \
                and isinstance(e.value, ast.Name) and len(f.node.args.args) > 1 and e.value.id in K.derived_names(f, {f.node.args.args[1].arg}) | {f.node.args.args[1].arg}:
            # inside a cleaner the offending object is the ARGUMENT being cleaned, whose line is the `lineno` parameter; the value
            # may be a command (a reference), and `value.lineno` is then the line of the command referred to
            ctx.violate("C11.e", con, mod.rel, n.lineno, "%s is raised with lineno=%s inside a cleaner: that is the line of the command the argument REFERS to (the producer), not of the argument being cleaned (the `lineno` parameter) - the command-line tool marks a command that is not at fault" % (r[1].name, K.src(e)))
        elif carries_line(e, f):
            ctx.hold("C11.e", con, mod.rel, n.lineno, "lineno <- %s" % K.src(e))
        elif isinstance(e, ast.Subscript) and isinstance(_root_name(e), ast.Name) and _root_name(e).id not in {a_.arg for a_ in f.node.args.args}:
            # a line taken out of a local collection (errors gathered first, reported afterwards): what was put there is not followed
            _SOFT11.append("C11.e: %s is raised with lineno=%s, an entry of a local collection; which line was stored there is outside what this rule follows" % (r[1].name, K.src(e)[:40]))
        else:
            ctx.violate("C11.e", con, mod.rel, n.lineno, "%s is raised %s: the error names no (or a wrong) source line and the CLI cannot mark it" % (
                r[1].name, "without a line" if e is None else "with lineno=%s, which is not the line of the offending object" % K.src(e)))
    ctx.floor("C11.e", "ProgramError raise sites in program/commands/params/utils", n_raise, 20)
    # library commands: a line that IS passed to an error must be a line of the command file (the command's own line, one of its
    # arguments' lines) - a row number of a data file, a loop counter or an array index marks an unrelated line of the model
    n_lib = 0
    for mod, f, n in K.scoped_nodes(idx):
        if not mod.name.startswith("mpilot.libraries.") or f is None or not (isinstance(n, ast.Raise) and isinstance(n.exc, ast.Call)):
            continue
        r = idx.resolve(mod, n.exc.func, f)
        if not r or r[0] != "class" or perr not in idx.mro(r[1]):
            continue
        e = next((k.value for k in n.exc.keywords if k.arg == "lineno"), None)
        if e is None:
            continue
        n_lib += 1
        okl = carries_line(e, f)
        ctx.ob("C11.e", "%s::raise(%s)::line-of-the-model" % (f.key, r[1].name), mod.rel, n.lineno, okl, "lineno <- %s" % K.src(e) if okl else
               "%s is raised with lineno=%s, which is not a line of the command file (a row of the data file, a counter): the error - and the command-line tool's `-->` mark - point at an unrelated line of the model, or past its end" % (r[1].name, K.src(e)))
    ctx.floor("C11.e", "library raise sites that pass a line", n_lib, 10)
    # ------------------------------------------------------------------ i
    ctx.rule("C11.i", "The fault is reported where it is, on every run: a command that failed is not left finished (C14.f's reading: the finished flag is set only after execute's value was stored, never in a finally / except block). Otherwise a second run no longer re-raises the fault at its own line - the commands that refer to the failed one fail instead, with ParameterNotValid at THEIR argument's line, where nothing is wrong.")
    from .C01 import value_of_call_stores as _vcs
    from engine.cfg import self_attr as _sa

    A_ = K.anchors(idx)
    fr_ = A_.run
    sn_ = K.self_name(fr_)
    cfr_ = K.cfg_of(idx, fr_)
    ex_ = cfr_.find("call", lambda n: K.is_self_call(n.ast, "execute", sn_))
    good_, _all_ = _vcs(cfr_, ex_, A_.memo, sn_)
    ft_ = cfr_.find("store", lambda n: n.meta.get("attr") == A_.flag and _sa(n.ast, sn_) and isinstance(n.meta.get("value"), ast.Constant) and n.meta["value"].value is True)
    if not ft_:
        raise AnalysisError("C11.i: Command.run never sets the finished flag")
    early_ = [f_ for f_ in ft_ if not cfr_.must_pass_through(cfr_.entry, f_, set(good_)) and not K.success_flag_ok(cfr_, fr_, f_, good_)]
    ctx.ob("C11.i", "%s::failed-is-not-finished" % fr_.key, K.rel(fr_), (early_ or ft_)[0].line, not early_, "the finished flag is set only after execute's value was stored" if not early_ else
           "`%s = True` at line %d is reached on paths where execute raised: the failed command counts as finished (result None), so on the next run - or the next read of a dependent result - the fault is not raised again at its own line; its consumers are refused instead (ParameterNotValid at the line of THEIR argument)" % (A_.flag, early_[0].line))
    # ------------------------------------------------------------------ j
    ctx.rule("C11.j", "Every list argument carries its own line: where from_source turns parsed list expressions into ListArgument values, the line handed to the constructor is the line of the node being converted - in the recursion for a nested list too (not a line carried down from the outer list).")
    fs_ = idx.func("mpilot.program", "Program.from_source")
    if fs_ is None:
        raise AnalysisError("C11.j: Program.from_source vanished")
    src_fs = getattr(fs_, "node_orig", None) or fs_.node
    n_la = 0
    for hf_ in [n for n in ast.walk(src_fs) if isinstance(n, ast.FunctionDef) and n is not src_fs]:
        ctors = [c for c in ast.walk(hf_) if isinstance(c, ast.Call) and K.src(c.func).split(".")[-1] == "ListArgument"]
        if not ctors:
            continue
        params_ = [a.arg for a in hf_.args.args]
        for c in ctors:
            n_la += 1
            ln_ = next((k.value for k in c.keywords if k.arg == "lineno"), c.args[2] if len(c.args) > 2 else None)
            okj, whyj = True, "lineno <- %s" % (K.src(ln_) if ln_ is not None else None)
            if ln_ is None:
                okj, whyj = False, "ListArgument is built without a line"
            elif isinstance(ln_, ast.Name) and ln_.id in params_:
                # the line is a parameter of the helper: every recursive call must pass the line of the nested node it converts
                pos_ = params_.index(ln_.id)
                for rc in [x for x in ast.walk(hf_) if isinstance(x, ast.Call) and isinstance(x.func, ast.Name) and x.func.id == hf_.name]:
                    arg_ = rc.args[pos_] if len(rc.args) > pos_ else next((k.value for k in rc.keywords if k.arg == ln_.id), None)
                    if not (isinstance(arg_, ast.Attribute) and arg_.attr == "lineno"):
                        okj, whyj = False, "the recursive call `%s` hands the nested list the line `%s` it was itself given: every list inside another list carries the line of the outermost `[`, whatever line it starts on (the argument tree disagrees with the parser's and with list_linenos)" % (K.src(rc)[:50], K.src(arg_) if arg_ is not None else "-")
            elif not (isinstance(ln_, ast.Attribute) and ln_.attr == "lineno"):
                okj, whyj = False, "ListArgument gets `%s` as its line, which is not the line of the node being converted" % K.src(ln_)
            ctx.ob("C11.j", "%s::list-line(%s)" % (fs_.key, hf_.name), K.rel(fs_), c.lineno, okj, whyj)
    ctx.floor("C11.j", "ListArgument constructions in from_source", n_la, 1)
    # ------------------------------------------------------------------ f
    cli = idx.func("mpilot.cli.mpilot", "main")
    s_all = [n for n in own_nodes(cli.node)]
    marks = [n for n in s_all if isinstance(n, ast.Call) and isinstance(n.func, ast.Attribute) and n.func.attr == "format" and isinstance(n.func.value, ast.Constant) and "-->" in str(n.func.value.value)]
    con = "%s::marked-line" % cli.key
    loop_form = marked_in_loop(cli, s_all) if not marks else None
    if loop_form is not None:
        okm, whym, linem = loop_form
        if okm is None:
            raise AnalysisError("C11.f: %s" % whym)
        ctx.ob("C11.f", con, K.rel(cli), linem, okm, whym)
    elif not marks:
        ctx.violate("C11.f", con, K.rel(cli), cli.node.lineno, "the CLI no longer marks the offending line with -->")
    else:
        m = marks[0]
        arg = m.args[0] if m.args else None
        ok = False
        why = "the marked line is `%s`" % K.src(arg)
        if isinstance(arg, ast.Name):
            # `marked = lines[i]` first, then formatted
            d = K.single_defs(cli).get(arg.id)
            if isinstance(d, ast.Subscript):
                arg = d
        if isinstance(arg, ast.Subscript) and isinstance(arg.value, ast.Name):
            lines_name = arg.value.id
            ix = arg.slice
            ix_src = K.src(ix)
            if isinstance(ix, ast.Name):
                defs = [n.value for n in s_all if isinstance(n, ast.Assign) and any(isinstance(t, ast.Name) and t.id == ix.id for t in n.targets)]
                ix_src = K.src(K.expand(cli, defs[0])) if len(defs) == 1 else "?"
            else:
                ix_src = K.src(K.expand(cli, ix))
            ok_ix = ix_src.replace(" ", "") in ("ex.lineno-1",) or ix_src.replace(" ", "").endswith(".lineno-1")
            joined = [n for n in s_all if isinstance(n, ast.Assign) and isinstance(n.value, ast.Call) and isinstance(n.value.func, ast.Attribute) and n.value.func.attr == "join" and n.value.args and isinstance(n.value.args[0], ast.Name) and n.value.args[0].id == lines_name
                      and isinstance(n.value.func.value, ast.Constant) and n.value.func.value.value == "\n"]
            src_names = {t.id for n in joined for t in n.targets if isinstance(t, ast.Name)}
            fs_calls = [n for n in s_all if isinstance(n, ast.Call) and isinstance(n.func, ast.Attribute) and n.func.attr == "from_source"]
            ok_src = bool(fs_calls) and all(c.args and isinstance(c.args[0], ast.Name) and c.args[0].id in src_names for c in fs_calls)
            rebinds = [n for n in s_all if isinstance(n, ast.Assign) and any(isinstance(t, ast.Name) and t.id == lines_name for t in n.targets)]
            if not ok_src and len(rebinds) == 1 and fs_calls:
                # the other direction: the line table is the parsed text itself split at line feeds (`lines = source.split("\n")`;
                # splitlines() would also split at form feeds, \x1c-\x1e, \x85, U+2028/9, which the lexer does not count)
                d_ = rebinds[0].value
                if isinstance(d_, ast.Call) and isinstance(d_.func, ast.Attribute) and d_.func.attr == "split" and len(d_.args) == 1 and isinstance(d_.args[0], ast.Constant) and d_.args[0].value == "\n" and isinstance(d_.func.value, ast.Name) \
                        and all(c.args and isinstance(c.args[0], ast.Name) and c.args[0].id == d_.func.value.id for c in fs_calls):
                    src_rebinds = [n for n in s_all if isinstance(n, ast.Assign) and any(isinstance(t, ast.Name) and t.id == d_.func.value.id for t in n.targets)]
                    ok_src = len(src_rebinds) == 1
            ok = ok_ix and ok_src and len(rebinds) == 1
            why = "--> marks %s[ex.lineno - 1]; the same list was joined with LF into the parsed source" % lines_name if ok else (
                "the marked index is `%s`, not ex.lineno - 1" % ix_src if not ok_ix else "the text handed to from_source is not the LF-join of the very list `%s` that is indexed" % lines_name)
        ctx.ob("C11.f", con, K.rel(cli), m.lineno, ok, why)
    # ------------------------------------------------------------------ g
    ctx.rule("C11.g", "The text reaches the lexer unchanged: Program.from_source hands its `source` parameter itself to Parser.parse, which hands its parameter itself to the PLY parser - no strip / splitlines / slicing in between, which would shift every reported line.")
    text_reaches_lexer(ctx, idx, "C11.g", "leading blank lines or line breaks removed there shift every line number reported afterwards away from the file")
    if _SOFT11:
        msg_ = _SOFT11[0]
        del _SOFT11[:]
        raise AnalysisError(msg_)
