"""C08 — conversions and normalisations: sibling delegation, sorted control points, guards, integer data (not the mappings)."""
import ast

from engine.arrays import Arr, Kw, Lst, Scal, F_
from engine.index import own_nodes
from engine.report import AnalysisError

from . import arrayrules as R
from . import common as K
from .C07 import dtype_rule

SIBLINGS = {
    "CvtToFuzzyZScore": "NormalizeZScore",
    "CvtToFuzzyCat": "NormalizeCat",
    "CvtToFuzzyCurve": "NormalizeCurve",
    "CvtToFuzzyMeanToMid": "NormalizeMeanToMid",
    "CvtToFuzzyCurveZScore": "NormalizeCurveZScore",
}
RENAMES = {"FuzzyValues": "NormalValues", "DefaultFuzzyValue": "DefaultNormalValue"}
# (command, error) pairs confirmed on the tree; the ordering obligations are dominance facts computed below
GUARDS = {
    "CvtToFuzzy": ["InvalidDirection", "InvalidThresholds"],
    "CvtFromFuzzy": ["InvalidThresholds"],
    "CvtToBinary": ["InvalidDirection"],
    "NormalizeCat": ["MixedArrayLengths", "DuplicateRawValues"],
    "NormalizeCurve": ["MixedArrayLengths", "DuplicateRawValues"],
    "NormalizeCurveZScore": ["MixedArrayLengths"],
}
# parameter pairs documented as (lowest value, highest value) of the output range (docs/user/lib-eems-basic.rst: Normalize, NormalizeZScore)
ORDERED_BOUNDS = (("StartVal", "EndVal"),)
CONVERSIONS = ("CvtToFuzzy", "CvtToFuzzyZScore", "CvtToFuzzyCat", "CvtToFuzzyCurve", "CvtToFuzzyMeanToMid", "CvtToFuzzyCurveZScore", "CvtToBinary", "CvtFromFuzzy",
               "Normalize", "NormalizeZScore", "NormalizeCat", "NormalizeCurve", "NormalizeMeanToMid", "NormalizeCurveZScore")


def delegation(ctx, idx, d, r, base_name, rule="C08.a"):
    fi = d.cls.methods.get("execute")
    con = "%s.execute::delegates-to-%s" % (d.key, base_name)
    if fi is None:
        ctx.violate(rule, con, d.module.rel, d.cls.node.lineno, "%s no longer defines the clamped delegation to %s" % (d.cls.name, base_name))
        return
    base = idx.find_method(d.cls, "execute", after=d.cls)
    if base is None or base.cls.name != base_name:
        ctx.violate(rule, con, d.module.rel, d.cls.node.lineno, "%s derives its body from %s, not from %s" % (d.cls.name, base.cls.name if base else "nothing", base_name))
        return
    sup = [x for x in r.super_calls if x[3] == fi.key and x[0].func.attr == "execute"]
    if not sup and any(fk_ == fi.key and c_.name in SIBLINGS for _e, c_, fk_ in getattr(r, "fresh_executes", ())):
        raise AnalysisError("%s: %s.execute hands over to a temporary instance of another conversion command instead of its base's body: whether that evaluates the same definition is outside the delegation rule" % (rule, d.cls.name))
    if len(sup) != 1:
        ctx.violate(rule, con, d.module.rel, fi.node.lineno, "%s.execute does not call super().execute exactly once" % d.cls.name)
        return
    node, kwsnap, explicit, fk, target = sup[0]
    problems = []
    own = {k for k in d.inputs}
    if kwsnap is None:
        problems.append("the caller's kwargs are not forwarded with **")
        forwarded = {}
    else:
        forwarded = dict(kwsnap.d)
    # what the base is declared to read
    base_decl = [x for x in K.table(idx) if x.cls is base.cls][0]
    expected = {}
    for k in own:
        if k == "Metadata":
            continue
        expected[RENAMES.get(k, k)] = k
    for tgt, srcname in expected.items():
        if tgt not in forwarded:
            problems.append("input `%s` is not forwarded as `%s`" % (srcname, tgt))
    for k in forwarded:
        if k in RENAMES and k in own:
            problems.append("`%s` is forwarded under its fuzzy name although the base reads `%s`" % (k, RENAMES[k]))
    # renamed values must be the caller's own values
    init = None
    from engine.arrays import ArrayInterp
    it = ArrayInterp(idx, d)
    init = it.initial_kwargs()
    for tgt, srcname in expected.items():
        if tgt in forwarded and srcname in init.d:
            a, b = forwarded[tgt], init.d[srcname]
            same = (a == b) or (type(a) is type(b) and getattr(a, "sym", 1) == getattr(b, "sym", 2)) or (isinstance(a, Lst) and isinstance(b, Lst) and a.srcs == b.srcs and a.L == b.L)
            if not same and base_name == "NormalizeCat":
                # category values are stored as they are, so limiting each of them to [-1, 1] first is the same as limiting the
                # result (not so for curves: interpolating between limited control points is another function)
                W_ = (("c", -1), ("c", 1))
                if isinstance(a, Scal) and isinstance(b, Scal) and b.sym and a.sym == "clamped(%s)" % b.sym and a.rng == W_:
                    same = True
                if isinstance(a, Lst) and isinstance(b, Lst) and a.what == b.what == "nums" and a.srcs == ("derived",) + tuple(b.srcs) and isinstance(a.elem, Scal) and a.elem.rng == W_ \
                        and a.elem.sym == "clamped(elem(%s))" % ",".join(b.srcs):
                    same = True
            if not same and not (tgt in ("TrueThresholdZScore", "FalseThresholdZScore")):
                problems.append("`%s` forwarded as `%s` is not the caller's value" % (srcname, tgt))
    # range constants
    for k, v in list(forwarded.items()) + [(k, None) for k in explicit]:
        pass
    consts = {}
    for k, vnode in explicit.items():
        try:
            consts[k] = idx.const(fi.module, vnode, fi)
        except KeyError:
            consts[k] = None
    for k in ("StartVal", "EndVal"):
        v = consts.get(k)
        if v is None and k in forwarded and isinstance(forwarded[k], Scal):
            v = forwarded[k].const
        want = -1 if k == "StartVal" else 1
        if v is not None and v != want:
            problems.append("%s=%s passed to the base instead of %d" % (k, v, want))
        if v is None and k in base_decl.inputs:
            problems.append("range constant %s is not passed to the base" % k)
    if base_name == "NormalizeZScore" and kwsnap is not None:
        for k, want in (("TrueThresholdZScore", 1), ("FalseThresholdZScore", -1)):
            v = forwarded.get(k)
            # default must be the fuzzy bound, overridden by the caller's own value
            if v is None:
                problems.append("%s is not forwarded" % k)
            elif isinstance(v, Scal) and v.const is not None and v.const != want:
                problems.append("default %s is %s, not %d" % (k, v.const, want))
            elif isinstance(v, Scal) and v.const is not None and k in own:
                problems.append("the constant %s is passed as %s whatever the caller gave: the command's own %s argument never reaches the base (defaults merged over the arguments instead of under them)" % (v.const, k, k))
            elif isinstance(v, Scal) and v.const is None and ("kw:" + k) not in (v.sym or ""):
                problems.append("%s does not come from the caller" % k)
            elif k in kwsnap.optional:
                # forwarded only when the caller gave it: an omitted argument then takes the base's own default
                bdef = None
                for n_ in own_nodes(base.node):
                    if isinstance(n_, ast.Call) and isinstance(n_.func, ast.Attribute) and n_.func.attr in ("get", "pop", "get_argument_value") and len(n_.args) == 2 and isinstance(n_.args[0], ast.Constant) and n_.args[0].value == k:
                        try:
                            bdef = idx.const(base.module, n_.args[1], base)
                        except Exception:
                            bdef = "?"
                if bdef != want:
                    problems.append("no fuzzy default is supplied for %s: when the argument is omitted %s.execute falls back on its own default %s (normalised space) instead of %d" % (k, base_name, bdef, want))
    # the value returned is the clamped value of that call
    for n, s, v in R.ret_sites(d, r):
        rv = s.value if isinstance(s, ast.Return) else None
        ok = isinstance(rv, ast.Call) and idx.qualname(fi.module, rv.func, fi) == "mpilot.utils.insure_fuzzy" and rv.args and (rv.args[0] is node)
        if not ok:
            # allow a temporary: x = super().execute(...); return insure_fuzzy(x, ...)
            ok = isinstance(rv, ast.Call) and idx.qualname(fi.module, rv.func, fi) == "mpilot.utils.insure_fuzzy" and isinstance(v, Arr) and v.rng == (("c", -1), ("c", 1))
        if not ok:
            # any other way of establishing the range on the value of that call (a clamp skipped when the extremes are tested to be inside)
            ok = isinstance(v, Arr) and v.rng == (("c", -1), ("c", 1)) and bool(v.D)
        if not ok:
            problems.append("the returned value is not insure_fuzzy(super().execute(...), -1, 1)")
    if problems:
        ctx.violate(rule, con, d.module.rel, node.lineno, "; ".join(problems[:4]))
    else:
        ctx.hold(rule, con, d.module.rel, node.lineno, "forwards %s to %s.execute and clamps the result to [-1, 1]" % (sorted(expected), base_name))


def sorted_pairs(ctx, idx, d, r, rule="C08.b"):
    """One sorted(zip(raw, normal)) exists; after it the control points are read only through the sorted sequence."""
    con = "%s.execute::control-points-sorted-as-pairs" % d.key
    fi = d.execute
    ok = False
    why = "the control points are never sorted"
    sorted_node = None
    list_names = []
    for node, arg, fk in r.sorteds:
        if fk != fi.key:
            continue
        if isinstance(arg, Lst) and arg.what == "zip" and len(arg.zipped) == 2:
            second = arg.zipped[1]
            first = arg.zipped[0]
            if isinstance(second, Lst) and "NormalValues" in second.srcs and isinstance(first, Lst) and first.what == "nums":
                ok = True
                sorted_node = node
                why = "sorted(zip(raw, normal)): points sorted together by raw value"
                z = node.args[0] if node.args else None
                if isinstance(z, ast.Call):
                    list_names = [a.id for a in z.args if isinstance(a, ast.Name)]
            else:
                why = "sorted(zip(...)) does not pair the raw values with NormalValues (raw first): %s" % K.src(node)
        elif isinstance(arg, Lst):
            why = "`%s` sorts one list on its own: raw and normal values are no longer paired" % K.src(node)
    if not ok:
        # table form: T = numpy.column_stack((raw, normal)); T = T[numpy.lexsort((T[:, 1], T[:, 0]))]  (or argsort of column 0):
        # whole rows are permuted, so every raw value keeps its normal value.  numpy.sort(T, axis=0) sorts each column on its own.
        tables = {}
        for n in own_nodes(fi.node):
            if isinstance(n, ast.Assign) and len(n.targets) == 1 and isinstance(n.targets[0], ast.Name) and isinstance(n.value, ast.Call) \
                    and (idx.qualname(fi.module, n.value.func, fi) or "") in ("numpy.column_stack", "numpy.stack", "numpy.transpose", "numpy.array") \
                    and n.value.args and isinstance(n.value.args[0], (ast.Tuple, ast.List)) and len(n.value.args[0].elts) == 2:
                second = K.src(K.expand(fi, n.value.args[0].elts[1]))
                if "NormalValues" in second or "normal" in K.src(n.value.args[0].elts[1]).lower():
                    tables[n.targets[0].id] = n
        for n in own_nodes(fi.node):
            if not (isinstance(n, ast.Assign) and len(n.targets) == 1 and isinstance(n.targets[0], ast.Name) and n.targets[0].id in tables):
                continue
            T = n.targets[0].id
            v = n.value
            if isinstance(v, ast.Call) and (idx.qualname(fi.module, v.func, fi) or "") in ("numpy.sort", "numpy.ma.sort") and v.args and K.src(v.args[0]) == T:
                why = "`%s` sorts each column of the (raw, normal) table on its own: the k-th smallest raw value is paired with the k-th smallest normal value, whatever the user paired it with" % K.src(v)[:60]
            if isinstance(v, ast.Subscript) and K.src(v.value) == T and isinstance(v.slice, ast.Call):
                q = idx.qualname(fi.module, v.slice.func, fi) or ""
                col0 = "%s[:, 0]" % T
                if q == "numpy.lexsort" and v.slice.args and isinstance(v.slice.args[0], (ast.Tuple, ast.List)) and v.slice.args[0].elts and K.src(v.slice.args[0].elts[-1]) == col0:
                    ok, why = True, "rows of the (raw, normal) table permuted by lexsort with the raw column as the primary key"
                elif q in ("numpy.argsort",) and v.slice.args and K.src(v.slice.args[0]) == col0:
                    ok, why = True, "rows of the (raw, normal) table permuted by argsort of the raw column"
        if ok:
            ctx.ob(rule, con, d.module.rel, fi.node.lineno, ok, why)
            return
    if ok:
        # the sorted value must be kept, never rebound, and the unsorted lists must not be read again except for len()/set() checks
        name = None
        for n in own_nodes(fi.node):
            if isinstance(n, ast.Assign) and n.value is sorted_node and isinstance(n.targets[0], ast.Name):
                name = n.targets[0].id
        if name is None:
            ok = False
            why = "the sorted pairs are not kept in a variable"
        else:
            rebinds = [n for n in own_nodes(fi.node) if isinstance(n, ast.Assign) and any(isinstance(t, ast.Name) and t.id == name for t in n.targets)]
            if len(rebinds) > 1:
                ok = False
                why = "`%s` is reassigned after sorting" % name
            uses = [n for n in own_nodes(fi.node) if isinstance(n, ast.Name) and n.id == name and isinstance(n.ctx, ast.Load)]
            if ok and not uses:
                ok = False
                why = "the sorted pairs `%s` are never used" % name
            parents = {}
            for n in own_nodes(fi.node):
                for c in ast.iter_child_nodes(n):
                    parents[id(c)] = n
            for n in own_nodes(fi.node):
                if ok and isinstance(n, ast.Name) and n.id in list_names and isinstance(n.ctx, ast.Load) and getattr(n, "lineno", 0) > sorted_node.lineno:
                    par = parents.get(id(n))
                    benign = isinstance(par, ast.Call) and isinstance(par.func, ast.Name) and par.func.id in ("len", "set") and n in par.args
                    if not benign:
                        ok = False
                        why = "after sorting, the unsorted list `%s` is still read (`%s`): the curve is driven by unsorted control points" % (n.id, K.src(par)[:60])
    ctx.ob(rule, con, d.module.rel, fi.node.lineno, ok, why)


def guards(ctx, idx, d, r, errs):
    fi = d.execute
    cfg = K.cfg_of(idx, fi)
    for err in errs:
        con = "%s.execute::guard(%s)" % (d.key, err)
        raises = [n for n in cfg.find("raise") if (n.meta.get("qual") or "").endswith("." + err)]
        if not raises or not any(n in cfg.reachable() for n in raises):
            ctx.violate("C08.c", con, d.module.rel, fi.node.lineno, "%s no longer raises %s" % (d.cls.name, err))
            continue
        tests = [t for t in cfg.find("test") if any(cfg.dominates(t, rz) for rz in raises)]
        if not tests:
            ctx.violate("C08.c", con, d.module.rel, raises[0].line, "%s is raised unconditionally" % err)
            continue
        gate = tests[-1]
        first = [t for t in tests if all(cfg.dominates(t, u) for u in tests)]
        first = first[0] if first else gate
        # protected operations
        if err == "InvalidThresholds":
            prot = [n for n in cfg.find("aug") if isinstance(n.ast.op, ast.Div)] + [n for n in cfg.nodes if n.kind in ("call", "store") and any(isinstance(x, ast.BinOp) and isinstance(x.op, ast.Div) for x in ast.walk(n.stmt or ast.Pass()))]
            what = "the division by (x2 - x1)"
            cmp_ok = isinstance(gate.ast, ast.Compare) and isinstance(gate.ast.ops[0], (ast.Eq, ast.NotEq))
            if not cmp_ok:
                ctx.violate("C08.c", con, d.module.rel, gate.line, "the threshold guard `%s` does not test equality of the two thresholds" % gate.text())
                continue
        elif err == "MixedArrayLengths":
            prot = cfg.find("call", lambda c: (c.meta.get("qual") or "") == "builtins.zip")
            what = "every zip of the value lists"
        elif err == "DuplicateRawValues":
            prot = [n for n in cfg.find("iter") if not n.meta.get("comp")]
            what = "the segment/category loop"
        else:  # InvalidDirection
            prot = [t for t in cfg.find("test") if t not in tests and "direction" in t.text().lower() and not cfg.dominates(t, raises[0])]
            what = "the use of direction"
        prot = [p for p in prot if p in cfg.reachable()]
        late = [p for p in prot if not cfg.dominates(first, p)]
        # the failing outcome of the gate must always raise
        if late:
            ctx.violate("C08.c", con, d.module.rel, late[0].line, "`%s` can run before the %s guard: %s is not protected" % (late[0].text(), err, what))
        else:
            ctx.hold("C08.c", con, d.module.rel, gate.line, "guard `%s` dominates %s (%d site(s))" % (gate.text(), what, len(prot)))


def run(ctx, idx):
    ctx.assume("numpy axioms A3/A4/A13 for dtype promotion; the documented rename table FuzzyValues->NormalValues, DefaultFuzzyValue->DefaultNormalValue")
    ctx.rule("C08.a", "Each CvtToFuzzyX returns insure_fuzzy(super().execute(**K), -1, 1) where its base is the matching NormalizeX and K is the caller's kwargs under the rename table plus the range constants -1/1.")
    ctx.rule("C08.b", "In NormalizeCurve and NormalizeCurveZScore the sequence driving the segment loop and both flat extrapolations is one sorted(zip(raw, normal)).")
    ctx.rule("C08.c", "Guards exist (reference table of (command, error) pairs) and dominate the arithmetic they protect.")
    ctx.rule("C08.d", "Integer data: no dtype-pinned in-place arithmetic in conversion bodies whose input may be integer (C07.a's rule).")
    ctx.rule("C08.e", "Every conversion uses its data input (D(ret) ⊇ input); statistics are mask-aware (reported under C03.b).")
    ctx.rule("C08.f", "Every fuzzy producer's return dtype is Float (discharges the inductive hypothesis used for fuzzy-typed inputs).")
    ctx.rule("C08.m", "NormalizeMeanToMid: when an end of the five control points coincides with the mean next to it, the inner point is removed from the raw and from the normal values at the same index (the extreme keeps the end value of the curve); no mapping over the pairs.")
    mean_to_mid_dedupe(ctx, idx, "C08.m")
    res = {}
    for d, r in R.results(idx).values():
        res.setdefault(d.cls.name, (d, r))
    for name in CONVERSIONS:
        if name not in res:
            raise AnalysisError("conversion command %s vanished" % name)
    # the spread of a z-score is numpy's two-pass standard deviation: sqrt(mean(x*x) - mean(x)**2) is the same number on paper and
    # loses every digit to cancellation when the mean is large against the spread (offset data, float32 grids)
    ctx.rule("C08.r", "The standard deviation used by the z-score mappings is not computed as sqrt(E[x^2] - E[x]^2): that one-pass form cancels catastrophically for data whose mean is large against its spread (elevations, years, float32 grids), so every z-score threshold and control point is wrong - or NaN - there.")
    n_r = 0
    bad_r = None
    for mod_, f_, n_ in K.scoped_nodes(idx):
        if not mod_.name.startswith("mpilot.libraries") and mod_.name != "mpilot.utils":
            continue
        arg_ = None
        if isinstance(n_, ast.Call) and K.src(n_.func).split(".")[-1] == "sqrt" and n_.args:
            arg_ = n_.args[0]
        elif isinstance(n_, ast.BinOp) and isinstance(n_.op, ast.Pow) and isinstance(n_.right, ast.Constant) and n_.right.value == 0.5:
            arg_ = n_.left
        if arg_ is None:
            continue
        n_r += 1
        arg_ = K.expand(f_, arg_) if f_ is not None and isinstance(arg_, ast.Name) else arg_
        if isinstance(arg_, ast.BinOp) and isinstance(arg_.op, ast.Sub):
            sq_mean = any(isinstance(c_, ast.Call) and K.src(c_.func).split(".")[-1] in ("mean", "average") and c_.args and isinstance(c_.args[0], ast.BinOp) and isinstance(c_.args[0].op, (ast.Mult, ast.Pow)) for c_ in ast.walk(arg_.left))
            mean_sq = isinstance(arg_.right, ast.BinOp) and isinstance(arg_.right.op, (ast.Mult, ast.Pow))
            if sq_mean and mean_sq and bad_r is None:
                bad_r = (mod_, n_)
    ctx.ob("C08.r", "mpilot/libraries::two-pass-deviation", bad_r[0].rel if bad_r else "mpilot/libraries/eems/basic.py", bad_r[1].lineno if bad_r else 1, bad_r is None,
           "no standard deviation is computed from the mean of the squares (%d square roots read)" % n_r if bad_r is None else
           "`%s` takes the deviation from the mean of the squares minus the squared mean: for 1e8 + [0..9] it gives 2.83 instead of 2.87, for larger offsets (or float32 grids) NaN - every z-score threshold and control point built on it is wrong" % K.src(bad_r[1])[:70])
    ctx.rule("C08.q", "The mappings are computed in floating point: in the 17 conversion / normalisation commands no (+ - *) between the field and a number happens while neither is known to be floating - numpy keeps the element type of the GRID there, so for int8 / uint8 / int16 fields the shift or the scaling wraps around before the division (thresholds go through float(), statistics like the mean are floating already).")
    n_q = 0
    for name in CONVERSIONS:
        d_, r_ = res[name]
        n_q += 1
        io_ = r_.intops
        ctx.ob("C08.q", "%s.execute::float-arithmetic" % d_.key, d_.module.rel, io_[0][0].lineno if io_ else d_.execute.node.lineno, not io_,
               "every (+ - *) between the field and a number involves a floating operand" if not io_ else
               "`%s` combines the field with a number while neither is known to be floating: numpy computes it in the element type of the grid, so an int8 / uint8 / int16 field wraps around (uint8 200 * 2 = 144) and the mapping is wrong for such fields although the result is a float array" % K.src(io_[0][0])[:60])
    ctx.floor("C08.q", "conversion commands", n_q, 17)
    for name, base in SIBLINGS.items():
        delegation(ctx, idx, res[name][0], res[name][1], base)
    for name in ("NormalizeCurve", "NormalizeCurveZScore"):
        sorted_pairs(ctx, idx, *res[name])
    for name, errs in GUARDS.items():
        guards(ctx, idx, res[name][0], res[name][1], errs)
    ctx.rule("C08.o", "CvtToFuzzy maps the TRUE threshold to +1 and the FALSE threshold to -1 whatever the direction: `Direction` only chooses which data extreme stands in for an omitted threshold - it is not applied to the ramp afterwards (mirroring the result is the HighToLow conversion only when both thresholds are the defaults; with a threshold given it maps the true threshold to -1).")
    cfz = idx.cls("mpilot.libraries.eems.fuzzy", "CvtToFuzzy")
    cfx = cfz.methods.get("execute") if cfz is not None else None
    if cfx is None:
        raise AnalysisError("C08.o: CvtToFuzzy.execute vanished")
    dnames = {a_ for a_, ks_ in _kw_aliases_local(cfx).items() if "Direction" in ks_}
    n_dir = 0
    bad_dir = None
    for n_ in own_nodes(cfx.node):
        if isinstance(n_, (ast.If, ast.IfExp)) and (K.names_in(n_.test) & dnames or "Direction" in K.src(n_.test)):
            n_dir += 1
            if isinstance(n_, ast.If):
                for st_ in n_.body + n_.orelse:
                    for x_ in ast.walk(st_):
                        if isinstance(x_, (ast.Assign, ast.AugAssign)):
                            tg_ = x_.targets if isinstance(x_, ast.Assign) else [x_.target]
                            if any(isinstance(t_, ast.Name) and t_.id in ("result",) or (isinstance(t_, ast.Name) and any(isinstance(r_, ast.Return) and t_.id in K.names_in(r_) for r_ in ast.walk(cfx.node))) for t_ in tg_) \
                                    and not any("hreshold" in (t_.id if isinstance(t_, ast.Name) else "") for t_ in tg_):
                                bad_dir = bad_dir or x_
    ctx.ob("C08.o", "%s::direction-selects-defaults-only" % cfx.key, K.rel(cfx), (bad_dir.lineno if bad_dir is not None else cfx.node.lineno), bad_dir is None,
           "Direction is read only where the default thresholds are chosen" if bad_dir is None else
           "`%s` applies the direction to the ramp itself: with TrueThreshold / FalseThreshold given and Direction = HighToLow the true threshold now maps to -1 and the false one to +1 (and CvtFromFuzzy with the same thresholds is no longer the inverse)" % K.src(bad_dir)[:50])
    ctx.floor("C08.o", "tests of Direction in CvtToFuzzy", n_dir, 1)
    ctx.rule("C08.n", "A conversion is applied cell by cell, for grids of every rank: no positional indexing / reshaping of data axes in a conversion body (C05.b's findings for the conversion commands - e.g. one component of numpy.where() used as an index selects whole rows of a 2-D grid, so cells land on another segment of the curve).")
    for name in CONVERSIONS:
        d, r = res[name]
        pos_ = [f for f in r.findings if f[0] in ("equivariance", "shape")]
        ctx.ob("C08.n", "%s.execute::cell-by-cell" % d.key, d.module.rel, pos_[0][1] if pos_ else d.execute.node.lineno, not pos_, "only cell-wise operations on the grid" if not pos_ else pos_[0][2])
        dtype_rule(ctx, "C08.d", d, r)
        R.uses_all_inputs(ctx, "C08.e", d, r)
        R.leaves_inputs_alone(ctx, "C08.j", d, r, "the first conversion of a field is right, but the field itself now holds converted values, so every later conversion or use of it starts from the wrong raw data")
    ctx.rule("C08.j", "A conversion reads its field without changing it: no in-place write reaches the input (a second conversion of the same field must see the same raw values).")
    ctx.rule("C08.k", "Category lookup is exact: NormalizeCat selects the cells of each table entry by equality of the field's values with the raw value (`==`), so a cell matches at most one entry of a duplicate-free table and the outcome does not depend on the order of the table.")
    d, r = res["NormalizeCat"]
    sel = [x for x in r.selstores if x[1] is not None and isinstance(x[3], Scal)]
    con = "%s.execute::category-equality" % d.key
    us = [f for f in r.findings if f[0] == "unsorted-search"]
    for name_ in CONVERSIONS:
        if name_ == "NormalizeCat":
            continue
        d_, r_ = res[name_]
        for f_ in [f for f in r_.findings if f[0] == "unsorted-search"][:1]:
            ctx.violate("C08.k", "%s.execute::bisection-needs-a-sorted-table" % d_.key, d_.module.rel, f_[1], f_[2])
    if us:
        ctx.violate("C08.k", con, d.module.rel, us[0][1], us[0][2] + " - the documented lookup does not depend on the order of the table")
    elif not sel:
        raise AnalysisError("C08.k: no store selected by a comparison of the field with the raw values found in NormalizeCat")
    badsel = [x for x in sel if x[1][1] != "Eq"]
    if us:
        pass
    elif badsel:
        ctx.violate("C08.k", con, d.module.rel, badsel[0][0].lineno, "cells are assigned to a table entry by `%s`, a %s test rather than equality: one cell can match several entries (the later entry wins, so the result depends on the table's order) and cells of an unlisted category next to a listed one get its value instead of the default" % (K.src(badsel[0][0])[:60], badsel[0][1][1]))
    else:
        ctx.hold("C08.k", con, d.module.rel, sel[0][0].lineno, "cells selected by equality with the raw value")
    ctx.rule("C08.g", "Optional numeric parameters are never tested by truthiness (an explicit 0 is a legitimate threshold/value).")
    ctx.rule("C08.i", "A clamp never inverts: wherever a conversion limits its result to [lo, hi] the bounds are constants with lo <= hi or a parameter pair documented as (lowest, highest); a clamp between two thresholds that may come in either order turns the whole grid into one constant when lo > hi.")
    for name in CONVERSIONS:
        d, r = res[name]
        for n, s_, v in R.ret_sites(d, r):
            if not isinstance(v, Arr) or v.rng == (None, None):
                continue
            lo, hi = v.rng
            con = R.ret_key(d, n) + "::clamp-bounds-ordered"
            if lo is None or hi is None:
                continue
            if lo[0] == "c" and hi[0] == "c":
                ctx.ob("C08.i", con, d.module.rel, R.line_of(s_), lo[1] <= hi[1], "clamped to the constants [%s, %s]" % (lo[1], hi[1]) if lo[1] <= hi[1] else "clamped to [%s, %s]: the lower bound exceeds the upper, every cell becomes %s" % (lo[1], hi[1], lo[1]))
                continue
            pair = tuple(sorted(x for b in (lo, hi) for x in __import__("re").findall(r"kw:(\w+)", str(b[1]))))
            documented = any(str(lo[1]).count("kw:" + a) and str(hi[1]).count("kw:" + b) for a, b in ORDERED_BOUNDS)
            ctx.ob("C08.i", con, d.module.rel, R.line_of(s_), documented,
                   "clamped to the documented (lowest, highest) pair %s" % (pair,) if documented else
                   "the result is clamped to [%s, %s], bounds that may come in either order: when the first exceeds the second every cell collapses to one value (the conversion is no longer the inverse / a monotone map between the thresholds)" % (lo[1], hi[1]))
    ctx.rule("C08.h", "NormalizeMeanToMid builds its five raw control points as [min, mean of lower part, mean, mean of upper part, max] where min and max are reductions over the whole input (IgnoreZeros only affects the means, as documented).")
    for name in CONVERSIONS:
        d, r = res[name]
        nt = [f for f in r.findings if f[0] == "numtruth"]
        con = "%s.execute::zero-is-a-value" % d.key
        if nt:
            ctx.violate("C08.g", con, d.module.rel, nt[0][1], nt[0][2])
        else:
            ctx.hold("C08.g", con, d.module.rel, d.execute.node.lineno, "numeric parameters are not used as booleans", nontrivial=False)
    # positions removed from a list one after another: after the first removal every later position has moved
    for name in CONVERSIONS:
        d, r = res[name]
        fi = d.cls.methods.get("execute")
        if fi is None:
            continue
        for lp in [n for n in own_nodes(fi.node) if isinstance(n, ast.For) and isinstance(n.target, ast.Name)]:
            dels = [t for st in ast.walk(lp) if isinstance(st, ast.Delete) for t in st.targets if isinstance(t, ast.Subscript) and isinstance(t.slice, ast.Name) and t.slice.id == lp.target.id]
            pops = [c for c in ast.walk(lp) if isinstance(c, ast.Call) and isinstance(c.func, ast.Attribute) and c.func.attr == "pop" and c.args and isinstance(c.args[0], ast.Name) and c.args[0].id == lp.target.id]
            if not dels and not pops:
                continue
            it = K.expand(fi, lp.iter)
            positions = None
            if isinstance(it, (ast.ListComp, ast.GeneratorExp)) and isinstance(it.elt, ast.Name):
                g = it.generators[0]
                try:
                    src_ = idx.const(fi.module, g.iter, fi)
                except KeyError:
                    src_ = None
                if isinstance(src_, (list, tuple)):
                    if isinstance(g.target, ast.Name) and g.target.id == it.elt.id:
                        positions = list(src_)
                    elif isinstance(g.target, ast.Tuple):
                        k_ = [i for i, e in enumerate(g.target.elts) if isinstance(e, ast.Name) and e.id == it.elt.id]
                        if k_ and all(isinstance(x, (list, tuple)) and len(x) > k_[0] for x in src_):
                            positions = [x[k_[0]] for x in src_]
            elif isinstance(it, (ast.List, ast.Tuple)):
                try:
                    positions = list(idx.const(fi.module, it, fi))
                except KeyError:
                    positions = None
            if positions is None or not all(isinstance(x, int) for x in positions):
                continue
            stale = any(0 <= a < b for i, a in enumerate(positions) for b in positions[i + 1:])
            con = "%s.execute::positions-removed-in-sequence" % d.key
            ctx.ob("C08.h", con, d.module.rel, lp.lineno, not stale, "positions are removed from the back, or relative to the end" if not stale else
                   "positions %s are removed one after another in ascending order: once position %d is gone, position %d names the element after the one meant (when both ends collapse the highest control point itself is dropped and the maximum maps to the wrong normal value)" % (positions, positions[0], positions[-1]))
    mean_to_mid_points(ctx, idx, res, "C08.h")
    ctx.rule("C08.l", "A conversion only reads its value lists: RawValues / NormalValues / FuzzyValues / ZScoreValues are copied before a control point is dropped or replaced, so the same list converts the next field with the same curve.")
    for name in CONVERSIONS:
        R.leaves_arguments_alone(ctx, "C08.l", *res[name])
    n = 0
    for d, r in R.results(idx).values():
        if d.is_fuzzy is True and d.is_data():
            for k, s, v in R.ret_sites(d, r):
                if isinstance(v, Arr):
                    n += 1
                    ctx.ob("C08.f", R.ret_key(d, k) + "::float", d.module.rel, R.line_of(s), v.dt == F_,
                           "fuzzy result is floating" if v.dt == F_ else "a fuzzy producer may return a non-floating array (dtype kinds %s): consumers that accumulate in place would fail" % sorted(v.dt))
    _c08_tail(ctx, idx, res, n)


class _Unknown(Exception):
    pass


def _eval_dedupe(idx, fi, node):
    """Symbolic run of NormalizeMeanToMid's control-point clean-up.  Returns ([problem, ...], line) or a string (cannot decide)."""
    body = node.body
    raw_name = normal_name = None
    start = None
    for i, st in enumerate(body):
        tn_ = [t_.id for t_ in st.targets if isinstance(t_, ast.Name)] if isinstance(st, ast.Assign) else []
        if len(tn_) == 1:  # (`raw_values = kwargs["RawValues"] = [...]` binds the local and stores the same list)
            if isinstance(st.value, ast.List) and len(st.value.elts) == 5:
                raw_name, start = tn_[0], max(start or 0, i + 1)
            elif "NormalValues" in K.src(st.value) and not isinstance(st.value, (ast.Dict, ast.Call)) or (isinstance(st.value, ast.Call) and K.src(st.value.func) in ("list", "copy.copy", "copy") and "NormalValues" in K.src(st.value)):
                normal_name, start = tn_[0], max(start or 0, i + 1)
    if raw_name is None or normal_name is None:
        return "the five control points and the copy of NormalValues are not bound to two local lists; the form used is outside this rule"
    first_line = body[start].lineno if start < len(body) else node.lineno

    def run(low, high):
        cls_ = {"r0": 0, "r1": 0 if low else 1, "r2": 2, "r3": 4 if high else 3, "r4": 4}
        env = {raw_name: ["r0", "r1", "r2", "r3", "r4"], normal_name: ["n0", "n1", "n2", "n3", "n4"]}

        def ev(e):
            if isinstance(e, ast.Constant):
                return e.value
            if isinstance(e, ast.Name):
                if e.id in env:
                    return env[e.id]
                r = idx.resolve(fi.module, e, fi)
                if r is not None and r[0] == "const" and r[1].consts.get(r[2]) is not None:
                    return ev(r[1].consts[r[2]])
                raise _Unknown("name `%s`" % e.id)
            if isinstance(e, (ast.Tuple, ast.List)):
                return [ev(x) for x in e.elts] if isinstance(e, ast.List) else tuple(ev(x) for x in e.elts)
            if isinstance(e, ast.UnaryOp) and isinstance(e.op, ast.USub):
                return -ev(e.operand)
            if isinstance(e, ast.UnaryOp) and isinstance(e.op, ast.Not):
                return not ev(e.operand)
            if isinstance(e, ast.BinOp) and isinstance(e.op, (ast.Add, ast.Sub)):
                a, b = ev(e.left), ev(e.right)
                return a + b if isinstance(e.op, ast.Add) else a - b
            if isinstance(e, ast.Subscript):
                v, i_ = ev(e.value), ev(e.slice) if not isinstance(e.slice, ast.Slice) else None
                if isinstance(e.slice, ast.Slice):
                    lo = ev(e.slice.lower) if e.slice.lower is not None else None
                    hi = ev(e.slice.upper) if e.slice.upper is not None else None
                    return v[lo:hi]
                return v[i_]
            if isinstance(e, ast.Compare) and len(e.ops) == 1 and isinstance(e.ops[0], (ast.Eq, ast.NotEq, ast.Lt, ast.Gt, ast.LtE, ast.GtE, ast.In, ast.NotIn)):
                a, b = ev(e.left), ev(e.comparators[0])
                if isinstance(a, str) and isinstance(b, str) and a in cls_ and b in cls_:
                    if isinstance(e.ops[0], (ast.Eq, ast.NotEq)):
                        return (cls_[a] == cls_[b]) == isinstance(e.ops[0], ast.Eq)
                    raise _Unknown("order comparison of control points")
                if isinstance(e.ops[0], ast.Eq):
                    return a == b
                if isinstance(e.ops[0], ast.NotEq):
                    return a != b
                if isinstance(e.ops[0], ast.In):
                    return a in b
                if isinstance(e.ops[0], ast.NotIn):
                    return a not in b
                return {ast.Lt: a < b, ast.Gt: a > b, ast.LtE: a <= b, ast.GtE: a >= b}[type(e.ops[0])]
            if isinstance(e, ast.BoolOp):
                vals = [ev(x) for x in e.values]
                return all(vals) if isinstance(e.op, ast.And) else any(vals)
            if isinstance(e, ast.Call) and isinstance(e.func, ast.Name) and e.func.id in ("len", "sorted", "reversed", "list", "tuple", "range", "enumerate") and not e.keywords:
                args = [ev(a) for a in e.args]
                return {"len": len, "sorted": sorted, "reversed": lambda x: list(reversed(x)), "list": list, "tuple": tuple, "range": lambda *a: list(range(*a)), "enumerate": lambda x: list(enumerate(x))}[e.func.id](*args)
            if isinstance(e, ast.Call) and isinstance(e.func, ast.Name) and e.func.id == "sorted" and len(e.args) == 1 and [k.arg for k in e.keywords] == ["reverse"]:
                return sorted(ev(e.args[0]), reverse=bool(ev(e.keywords[0].value)))
            if isinstance(e, (ast.ListComp, ast.GeneratorExp)) and len(e.generators) == 1:
                g = e.generators[0]
                out = []
                for item in ev(g.iter):
                    bind(g.target, item)
                    if all(ev(c) for c in g.ifs):
                        out.append(ev(e.elt))
                return out
            raise _Unknown("expression `%s`" % K.src(e)[:50])

        def bind(t, v):
            if isinstance(t, ast.Name):
                env[t.id] = v
            elif isinstance(t, (ast.Tuple, ast.List)):
                v = list(v)
                if len(v) != len(t.elts):
                    raise _Unknown("unpacking")
                for tt, vv in zip(t.elts, v):
                    bind(tt, vv)
            else:
                raise _Unknown("assignment target `%s`" % K.src(t)[:40])

        class _Stop(Exception):
            pass

        def mentions(st):
            return {x.id for x in ast.walk(st) if isinstance(x, ast.Name)} & {raw_name, normal_name}

        def ex(stmts, depth=0):
            for st in stmts:
                if isinstance(st, ast.Return):
                    raise _Stop()
                if isinstance(st, ast.If):
                    ex(st.body if ev(st.test) else st.orelse, depth + 1)
                elif isinstance(st, ast.For):
                    for item in list(ev(st.iter)):
                        bind(st.target, item)
                        ex(st.body, depth + 1)
                elif isinstance(st, ast.Delete):
                    for t in st.targets:
                        if not (isinstance(t, ast.Subscript) and isinstance(t.value, ast.Name) and t.value.id in env):
                            raise _Unknown("del `%s`" % K.src(t)[:40])
                        seq = env[t.value.id]
                        if isinstance(t.slice, ast.Slice):
                            lo = ev(t.slice.lower) if t.slice.lower is not None else None
                            hi = ev(t.slice.upper) if t.slice.upper is not None else None
                            del seq[lo:hi]
                        else:
                            del seq[ev(t.slice)]
                elif isinstance(st, ast.Expr) and isinstance(st.value, ast.Call) and isinstance(st.value.func, ast.Attribute) and isinstance(st.value.func.value, ast.Name) and st.value.func.value.id in env \
                        and st.value.func.attr in ("pop", "append", "remove", "insert"):
                    seq = env[st.value.func.value.id]
                    args = [ev(a) for a in st.value.args]
                    getattr(seq, st.value.func.attr)(*args)
                elif isinstance(st, ast.Assign) and isinstance(st.value, ast.Call) and K.src(st.value.func) in ("dict", "copy.copy", "copy", "OrderedDict") and any(k_.arg for k_ in st.value.keywords):
                    pass  # the finished lists handed on as keyword arguments of the curve
                elif isinstance(st, ast.Assign) and len(st.targets) == 1 and isinstance(st.targets[0], (ast.Name, ast.Tuple)) and (mentions(st) or depth > 0 or isinstance(st.value, (ast.ListComp, ast.Tuple, ast.List, ast.Constant))):
                    try:
                        bind(st.targets[0], ev(st.value))
                    except _Unknown:
                        if mentions(st):
                            raise
                elif mentions(st) and not (isinstance(st, ast.Assign) and all(isinstance(t, ast.Subscript) for t in st.targets)) and not (isinstance(st, ast.Expr) and isinstance(st.value, ast.Call) and K.src(st.value.func).endswith(".update")) \
                        and not (isinstance(st, ast.Assign) and isinstance(st.value, ast.Call) and K.src(st.value.func) in ("dict", "copy.copy")):
                    raise _Unknown("statement `%s`" % K.src(st)[:50])

        try:
            ex(body[start:])
        except _Stop:
            pass
        except (IndexError, ValueError, TypeError) as e_:
            return None, "the clean-up itself fails (%s: %s)" % (type(e_).__name__, e_)
        return (list(env[raw_name]), list(env[normal_name])), None

    probs = []
    for low in (False, True):
        for high in (False, True):
            try:
                got, err = run(low, high)
            except _Unknown as u:
                return "the control-point clean-up of NormalizeMeanToMid uses %s, which the symbolic evaluation does not cover" % u
            keep = [i for i in range(5) if not (low and i == 1) and not (high and i == 3)]
            sit = "%s, %s" % ("the minimum equals the low mean" if low else "the minimum differs from the low mean", "the maximum equals the high mean" if high else "the maximum differs from the high mean")
            if err:
                probs.append("when %s: %s" % (sit, err))
                continue
            raw_g, nor_g = got
            cls_ = {"r0": 0, "r1": 0 if low else 1, "r2": 2, "r3": 4 if high else 3, "r4": 4}
            want_raw = [cls_["r%d" % i] for i in keep]
            want_nor = ["n%d" % i for i in keep]
            if [cls_.get(x, x) for x in raw_g] != want_raw or nor_g != want_nor:
                probs.append("when %s, the curve is handed the raw values %s with the normal values %s instead of %s with %s: %s" % (
                    sit, "[%s]" % ", ".join(raw_g), "[%s]" % ", ".join(nor_g), "[%s]" % ", ".join("r%d" % i for i in keep), "[%s]" % ", ".join(want_nor),
                    "an extreme loses the end value of the curve" if len(nor_g) == len(want_nor) else "raw and normal values no longer pair up / a coinciding point is left in (a repeated raw value)"))
    return probs, first_line


def _kw_aliases_local(fi):
    """{local name: {kwargs keys}} for names bound from kwargs[...] / kwargs.get(...)"""
    out = {}
    kw = fi.node.args.kwarg.arg if fi.node.args.kwarg else None
    for n in own_nodes(fi.node):
        if isinstance(n, ast.Assign) and len(n.targets) == 1 and isinstance(n.targets[0], ast.Name):
            v = n.value
            key = None
            if isinstance(v, ast.Subscript) and isinstance(v.value, ast.Name) and v.value.id == kw and isinstance(v.slice, ast.Constant):
                key = v.slice.value
            if isinstance(v, ast.Call) and isinstance(v.func, ast.Attribute) and v.func.attr == "get" and isinstance(v.func.value, ast.Name) and v.func.value.id == kw and v.args and isinstance(v.args[0], ast.Constant):
                key = v.args[0].value
            if key is not None:
                out.setdefault(n.targets[0].id, set()).add(key)
    return out


def mean_to_mid_dedupe(ctx, idx, rule, consequence=""):
    """Read before the array analyser runs.  When an end point of NormalizeMeanToMid's five control points coincides with the mean
    next to it, the INNER point goes - from the raw values and from the normal values at the same index - so the extreme keeps the
    end value of the curve.  Accepted: `if raw[i] == raw[j]: del raw[k]; del normal[k]` with k the inner index of the pair, on
    both lists.  A mapping built from the (raw, normal) pairs keeps the first position and the LAST value of a repeated key: at the
    low end the minimum then gets the value meant for the low mean."""
    ci = idx.cls("mpilot.libraries.eems.basic", "NormalizeMeanToMid")
    fi = ci.methods.get("execute") if ci is not None else None
    if fi is None:
        raise AnalysisError("%s: NormalizeMeanToMid.execute vanished" % rule)
    node = getattr(fi, "node_orig", None) or fi.node
    con = "%s::coinciding-points-drop-the-inner-one" % fi.key
    rel = K.rel(fi)
    for x in ast.walk(node):
        mapping = None
        if isinstance(x, ast.Call) and K.src(x.func).split(".")[-1] in ("dict", "OrderedDict") and x.args and isinstance(x.args[0], ast.Call) and K.src(x.args[0].func) == "zip":
            mapping = x
        if isinstance(x, ast.DictComp) and isinstance(x.generators[0].iter, ast.Call) and K.src(x.generators[0].iter.func) == "zip":
            mapping = x
        if mapping is not None:
            ctx.violate(rule, con, rel, x.lineno, "`%s`: the (raw, normal) pairs are put through a mapping to drop coinciding control points - a repeated key keeps its first position but takes the LAST value, so when the minimum equals the low mean the minimum is given the second normal value instead of the first" % K.src(x)[:60] + consequence)
            return
    # the statements that drop coinciding points are EVALUATED on five symbolic control points, once for each of the four
    # situations (low end coincides or not) x (high end coincides or not): whatever their form - two `if`s, a loop over index
    # pairs, a list of indices collected first - the lists that come out must be the five points without the inner one(s)
    verdict = _eval_dedupe(idx, fi, node)
    if isinstance(verdict, str):
        raise AnalysisError("%s: %s" % (rule, verdict))
    bad, line_ = verdict
    if bad:
        ctx.violate(rule, con, rel, line_, bad[0] + consequence)
    else:
        ctx.hold(rule, con, rel, line_, "evaluated for the four coincidence situations: the inner point goes from the raw and the normal values alike, the extremes keep the end values of the curve")


def mean_to_mid_points(ctx, idx, res, rule):
    """the five control points NormalizeMeanToMid hands to the curve: min(all), three means, max(all)"""
    d, r = res["NormalizeMeanToMid"]
    con = "%s.execute::control-points" % d.key
    sup = [x for x in r.super_calls if x[0].func.attr == "execute" and x[1] is not None]
    raw_direct = None
    if not sup:
        # the curve may be applied through a helper shared with NormalizeCurve (inlined here): the control points are then the
        # list that reaches the sort of (raw, normal) pairs
        for node_, arg_, fk_ in r.sorteds:
            if isinstance(arg_, Lst) and arg_.what == "zip" and len(arg_.zipped) == 2 and isinstance(arg_.zipped[0], Lst) and arg_.zipped[0].items is not None:
                raw_direct = (node_, arg_.zipped[0])
    if not sup and raw_direct is None:
        ctx.violate(rule, con, d.module.rel, d.execute.node.lineno, "NormalizeMeanToMid no longer delegates to NormalizeCurve with computed RawValues")
    else:
        raw = sup[0][1].d.get("RawValues") if sup else raw_direct[1]
        if not sup:
            sup = [(raw_direct[0],)]
        items = raw.items if isinstance(raw, Lst) and raw.items is not None else None
        if items is None or len(items) != 5:
            raise AnalysisError("%s: RawValues passed to NormalizeCurve is not a five-element list of statistics" % rule)
        syms = [getattr(x, "sym", None) for x in items]
        probs = []
        if syms[0] != "stat:min(all)":
            probs.append("the lowest control point is %s, not the minimum of the whole input" % (syms[0] or "not a data statistic"))
        if syms[4] != "stat:max(all)":
            probs.append("the highest control point is %s, not the maximum of the whole input" % (syms[4] or "not a data statistic"))
        if not all(sy and sy.startswith("stat:mean(") for sy in syms[1:4]):
            probs.append("the inner control points are %s, not means" % syms[1:4])
        ctx.ob(rule, con, d.module.rel, sup[0][0].lineno, not probs, "control points: min(all), mean, mean, mean, max(all)" if not probs else "; ".join(probs) + " (IgnoreZeros is documented to affect only the means)")
    # the two half means are taken over the two sides of the overall mean, every cell on exactly one side
    con2 = "%s.execute::halves-partition-the-cells" % d.key
    halves = [h for h in r.half_stats if h[1] == "mean"]
    groups = {}
    for node_, meth_, (op_, sid_, pop_), fk_ in halves:
        groups.setdefault((sid_, pop_), []).append((op_, node_))
    if not groups:
        raise AnalysisError("%s: the means below and above the overall mean are not taken over `x[x <op> mean]` / masked_<op>(x, mean) selections; the form used is outside this rule" % rule)
    for (sid_, pop_), ops_ in sorted(groups.items(), key=lambda kv: str(kv[0])):
        kinds = sorted({o_ for o_, _n in ops_})
        line_ = ops_[0][1].lineno
        if kinds == ["Head", "Tail"]:
            ctx.hold(rule, con2, d.module.rel, line_, "the sorted values are cut once, at the position of the overall mean: the two means are taken over the two sides of that cut")
        elif kinds in (["Gt", "LtE"], ["GtE", "Lt"]):
            ctx.hold(rule, con2, d.module.rel, line_, "one mean over the cells %s the overall mean, the other over the rest" % ("<=" if "LtE" in kinds else "<"))
        elif kinds == ["GtE", "LtE"]:
            ctx.violate(rule, con2, d.module.rel, line_, "both half means include the cells EQUAL to the overall mean (`<=` and `>=`): such a cell is counted twice, which pulls the upper control point towards the mean and changes the conversion of every cell between the mean and the maximum (small integer and symmetric grids have such cells)")
        elif kinds == ["Gt", "Lt"]:
            ctx.violate(rule, con2, d.module.rel, line_, "neither half mean includes the cells EQUAL to the overall mean (`<` and `>`): such cells drop out of both control points")
        else:
            ctx.violate(rule, con2, d.module.rel, line_, "the half means are taken over %s of the overall mean: not the two sides of it" % " and ".join(kinds))


def _c08_tail(ctx, idx, res, n):
    ctx.floor("C08.f", "fuzzy producer returns", n, 14)
