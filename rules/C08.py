"""C08 — conversions and normalisations: sibling delegation, sorted control points, guards, integer data (not the mappings)."""
import ast

from engine.arrays import Arr, Kw, Lst, Scal, F_
from engine.index import own_nodes
from engine.report import AnalysisError

from . import arrayrules as R
from . import common as K
from .C07 import dtype_rule

SIBLINGS = {
    "CvtToFuzzyZScore": "NormalizeZScore",
    "CvtToFuzzyCat": "NormalizeCat",
    "CvtToFuzzyCurve": "NormalizeCurve",
    "CvtToFuzzyMeanToMid": "NormalizeMeanToMid",
    "CvtToFuzzyCurveZScore": "NormalizeCurveZScore",
}
RENAMES = {"FuzzyValues": "NormalValues", "DefaultFuzzyValue": "DefaultNormalValue"}
# (command, error) pairs confirmed on the tree; the ordering obligations are dominance facts computed below
GUARDS = {
    "CvtToFuzzy": ["InvalidDirection", "InvalidThresholds"],
    "CvtFromFuzzy": ["InvalidThresholds"],
    "CvtToBinary": ["InvalidDirection"],
    "NormalizeCat": ["MixedArrayLengths", "DuplicateRawValues"],
    "NormalizeCurve": ["MixedArrayLengths", "DuplicateRawValues"],
    "NormalizeCurveZScore": ["MixedArrayLengths"],
}
# parameter pairs documented as (lowest value, highest value) of the output range (docs/user/lib-eems-basic.rst: Normalize, NormalizeZScore)
ORDERED_BOUNDS = (("StartVal", "EndVal"),)
CONVERSIONS = ("CvtToFuzzy", "CvtToFuzzyZScore", "CvtToFuzzyCat", "CvtToFuzzyCurve", "CvtToFuzzyMeanToMid", "CvtToFuzzyCurveZScore", "CvtToBinary", "CvtFromFuzzy",
               "Normalize", "NormalizeZScore", "NormalizeCat", "NormalizeCurve", "NormalizeMeanToMid", "NormalizeCurveZScore")


def delegation(ctx, idx, d, r, base_name, rule="C08.a"):
    fi = d.cls.methods.get("execute")
    con = "%s.execute::delegates-to-%s" % (d.key, base_name)
    if fi is None:
        ctx.violate(rule, con, d.module.rel, d.cls.node.lineno, "%s no longer defines the clamped delegation to %s" % (d.cls.name, base_name))
        return
    base = idx.find_method(d.cls, "execute", after=d.cls)
    if base is None or base.cls.name != base_name:
        ctx.violate(rule, con, d.module.rel, d.cls.node.lineno, "%s derives its body from %s, not from %s" % (d.cls.name, base.cls.name if base else "nothing", base_name))
        return
    sup = [x for x in r.super_calls if x[3] == fi.key and x[0].func.attr == "execute"]
    if not sup and any(fk_ == fi.key and c_.name in SIBLINGS for _e, c_, fk_ in getattr(r, "fresh_executes", ())):
        raise AnalysisError("%s: %s.execute hands over to a temporary instance of another conversion command instead of its base's body: whether that evaluates the same definition is outside the delegation rule" % (rule, d.cls.name))
    if len(sup) != 1:
        ctx.violate(rule, con, d.module.rel, fi.node.lineno, "%s.execute does not call super().execute exactly once" % d.cls.name)
        return
    node, kwsnap, explicit, fk, target = sup[0]
    problems = []
    own = {k for k in d.inputs}
    if kwsnap is None:
        problems.append("the caller's kwargs are not forwarded with **")
        forwarded = {}
    else:
        forwarded = dict(kwsnap.d)
    # what the base is declared to read
    base_decl = [x for x in K.table(idx) if x.cls is base.cls][0]
    expected = {}
    for k in own:
        if k == "Metadata":
            continue
        expected[RENAMES.get(k, k)] = k
    for tgt, srcname in expected.items():
        if tgt not in forwarded:
            problems.append("input `%s` is not forwarded as `%s`" % (srcname, tgt))
    for k in forwarded:
        if k in RENAMES and k in own:
            problems.append("`%s` is forwarded under its fuzzy name although the base reads `%s`" % (k, RENAMES[k]))
    # renamed values must be the caller's own values
    init = None
    from engine.arrays import ArrayInterp
    it = ArrayInterp(idx, d)
    init = it.initial_kwargs()
    for tgt, srcname in expected.items():
        if tgt in forwarded and srcname in init.d:
            a, b = forwarded[tgt], init.d[srcname]
            same = (a == b) or (type(a) is type(b) and getattr(a, "sym", 1) == getattr(b, "sym", 2)) or (isinstance(a, Lst) and isinstance(b, Lst) and a.srcs == b.srcs and a.L == b.L)
            if not same and base_name == "NormalizeCat":
                # category values are stored as they are, so limiting each of them to [-1, 1] first is the same as limiting the
                # result (not so for curves: interpolating between limited control points is another function)
                W_ = (("c", -1), ("c", 1))
                if isinstance(a, Scal) and isinstance(b, Scal) and b.sym and a.sym == "clamped(%s)" % b.sym and a.rng == W_:
                    same = True
                if isinstance(a, Lst) and isinstance(b, Lst) and a.what == b.what == "nums" and a.srcs == ("derived",) + tuple(b.srcs) and isinstance(a.elem, Scal) and a.elem.rng == W_ \
                        and a.elem.sym == "clamped(elem(%s))" % ",".join(b.srcs):
                    same = True
            if not same and not (tgt in ("TrueThresholdZScore", "FalseThresholdZScore")):
                problems.append("`%s` forwarded as `%s` is not the caller's value" % (srcname, tgt))
    # range constants
    for k, v in list(forwarded.items()) + [(k, None) for k in explicit]:
        pass
    consts = {}
    for k, vnode in explicit.items():
        try:
            consts[k] = idx.const(fi.module, vnode, fi)
        except KeyError:
            consts[k] = None
    for k in ("StartVal", "EndVal"):
        v = consts.get(k)
        if v is None and k in forwarded and isinstance(forwarded[k], Scal):
            v = forwarded[k].const
        want = -1 if k == "StartVal" else 1
        if v is not None and v != want:
            problems.append("%s=%s passed to the base instead of %d" % (k, v, want))
        if v is None and k in base_decl.inputs:
            problems.append("range constant %s is not passed to the base" % k)
    if base_name == "NormalizeZScore" and kwsnap is not None:
        for k, want in (("TrueThresholdZScore", 1), ("FalseThresholdZScore", -1)):
            v = forwarded.get(k)
            # default must be the fuzzy bound, overridden by the caller's own value
            if v is None:
                problems.append("%s is not forwarded" % k)
            elif isinstance(v, Scal) and v.const is not None and v.const != want:
                problems.append("default %s is %s, not %d" % (k, v.const, want))
            elif isinstance(v, Scal) and v.const is not None and k in own:
                problems.append("the constant %s is passed as %s whatever the caller gave: the command's own %s argument never reaches the base (defaults merged over the arguments instead of under them)" % (v.const, k, k))
            elif isinstance(v, Scal) and v.const is None and ("kw:" + k) not in (v.sym or ""):
                problems.append("%s does not come from the caller" % k)
            elif k in kwsnap.optional:
                # forwarded only when the caller gave it: an omitted argument then takes the base's own default
                bdef = None
                for n_ in own_nodes(base.node):
                    if isinstance(n_, ast.Call) and isinstance(n_.func, ast.Attribute) and n_.func.attr in ("get", "pop", "get_argument_value") and len(n_.args) == 2 and isinstance(n_.args[0], ast.Constant) and n_.args[0].value == k:
                        try:
                            bdef = idx.const(base.module, n_.args[1], base)
                        except Exception:
                            bdef = "?"
                if bdef != want:
                    problems.append("no fuzzy default is supplied for %s: when the argument is omitted %s.execute falls back on its own default %s (normalised space) instead of %d" % (k, base_name, bdef, want))
    # the value returned is the clamped value of that call
    for n, s, v in R.ret_sites(d, r):
        rv = s.value if isinstance(s, ast.Return) else None
        ok = isinstance(rv, ast.Call) and idx.qualname(fi.module, rv.func, fi) == "mpilot.utils.insure_fuzzy" and rv.args and (rv.args[0] is node)
        if not ok:
            # allow a temporary: x = super().execute(...); return insure_fuzzy(x, ...)
            ok = isinstance(rv, ast.Call) and idx.qualname(fi.module, rv.func, fi) == "mpilot.utils.insure_fuzzy" and isinstance(v, Arr) and v.rng == (("c", -1), ("c", 1))
        if not ok:
            # any other way of establishing the range on the value of that call (a clamp skipped when the extremes are tested to be inside)
            ok = isinstance(v, Arr) and v.rng == (("c", -1), ("c", 1)) and bool(v.D)
        if not ok:
            problems.append("the returned value is not insure_fuzzy(super().execute(...), -1, 1)")
    if problems:
        ctx.violate(rule, con, d.module.rel, node.lineno, "; ".join(problems[:4]))
    else:
        ctx.hold(rule, con, d.module.rel, node.lineno, "forwards %s to %s.execute and clamps the result to [-1, 1]" % (sorted(expected), base_name))


def sorted_pairs(ctx, idx, d, r):
    """One sorted(zip(raw, normal)) exists; after it the control points are read only through the sorted sequence."""
    con = "%s.execute::control-points-sorted-as-pairs" % d.key
    fi = d.execute
    ok = False
    why = "the control points are never sorted"
    sorted_node = None
    list_names = []
    for node, arg, fk in r.sorteds:
        if fk != fi.key:
            continue
        if isinstance(arg, Lst) and arg.what == "zip" and len(arg.zipped) == 2:
            second = arg.zipped[1]
            first = arg.zipped[0]
            if isinstance(second, Lst) and "NormalValues" in second.srcs and isinstance(first, Lst) and first.what == "nums":
                ok = True
                sorted_node = node
                why = "sorted(zip(raw, normal)): points sorted together by raw value"
                z = node.args[0] if node.args else None
                if isinstance(z, ast.Call):
                    list_names = [a.id for a in z.args if isinstance(a, ast.Name)]
            else:
                why = "sorted(zip(...)) does not pair the raw values with NormalValues (raw first): %s" % K.src(node)
        elif isinstance(arg, Lst):
            why = "`%s` sorts one list on its own: raw and normal values are no longer paired" % K.src(node)
    if ok:
        # the sorted value must be kept, never rebound, and the unsorted lists must not be read again except for len()/set() checks
        name = None
        for n in own_nodes(fi.node):
            if isinstance(n, ast.Assign) and n.value is sorted_node and isinstance(n.targets[0], ast.Name):
                name = n.targets[0].id
        if name is None:
            ok = False
            why = "the sorted pairs are not kept in a variable"
        else:
            rebinds = [n for n in own_nodes(fi.node) if isinstance(n, ast.Assign) and any(isinstance(t, ast.Name) and t.id == name for t in n.targets)]
            if len(rebinds) > 1:
                ok = False
                why = "`%s` is reassigned after sorting" % name
            uses = [n for n in own_nodes(fi.node) if isinstance(n, ast.Name) and n.id == name and isinstance(n.ctx, ast.Load)]
            if ok and not uses:
                ok = False
                why = "the sorted pairs `%s` are never used" % name
            parents = {}
            for n in own_nodes(fi.node):
                for c in ast.iter_child_nodes(n):
                    parents[id(c)] = n
            for n in own_nodes(fi.node):
                if ok and isinstance(n, ast.Name) and n.id in list_names and isinstance(n.ctx, ast.Load) and getattr(n, "lineno", 0) > sorted_node.lineno:
                    par = parents.get(id(n))
                    benign = isinstance(par, ast.Call) and isinstance(par.func, ast.Name) and par.func.id in ("len", "set") and n in par.args
                    if not benign:
                        ok = False
                        why = "after sorting, the unsorted list `%s` is still read (`%s`): the curve is driven by unsorted control points" % (n.id, K.src(par)[:60])
    ctx.ob("C08.b", con, d.module.rel, fi.node.lineno, ok, why)


def guards(ctx, idx, d, r, errs):
    fi = d.execute
    cfg = K.cfg_of(idx, fi)
    for err in errs:
        con = "%s.execute::guard(%s)" % (d.key, err)
        raises = [n for n in cfg.find("raise") if (n.meta.get("qual") or "").endswith("." + err)]
        if not raises or not any(n in cfg.reachable() for n in raises):
            ctx.violate("C08.c", con, d.module.rel, fi.node.lineno, "%s no longer raises %s" % (d.cls.name, err))
            continue
        tests = [t for t in cfg.find("test") if any(cfg.dominates(t, rz) for rz in raises)]
        if not tests:
            ctx.violate("C08.c", con, d.module.rel, raises[0].line, "%s is raised unconditionally" % err)
            continue
        gate = tests[-1]
        first = [t for t in tests if all(cfg.dominates(t, u) for u in tests)]
        first = first[0] if first else gate
        # protected operations
        if err == "InvalidThresholds":
            prot = [n for n in cfg.find("aug") if isinstance(n.ast.op, ast.Div)] + [n for n in cfg.nodes if n.kind in ("call", "store") and any(isinstance(x, ast.BinOp) and isinstance(x.op, ast.Div) for x in ast.walk(n.stmt or ast.Pass()))]
            what = "the division by (x2 - x1)"
            cmp_ok = isinstance(gate.ast, ast.Compare) and isinstance(gate.ast.ops[0], (ast.Eq, ast.NotEq))
            if not cmp_ok:
                ctx.violate("C08.c", con, d.module.rel, gate.line, "the threshold guard `%s` does not test equality of the two thresholds" % gate.text())
                continue
        elif err == "MixedArrayLengths":
            prot = cfg.find("call", lambda c: (c.meta.get("qual") or "") == "builtins.zip")
            what = "every zip of the value lists"
        elif err == "DuplicateRawValues":
            prot = [n for n in cfg.find("iter") if not n.meta.get("comp")]
            what = "the segment/category loop"
        else:  # InvalidDirection
            prot = [t for t in cfg.find("test") if t not in tests and "direction" in t.text().lower() and not cfg.dominates(t, raises[0])]
            what = "the use of direction"
        prot = [p for p in prot if p in cfg.reachable()]
        late = [p for p in prot if not cfg.dominates(first, p)]
        # the failing outcome of the gate must always raise
        if late:
            ctx.violate("C08.c", con, d.module.rel, late[0].line, "`%s` can run before the %s guard: %s is not protected" % (late[0].text(), err, what))
        else:
            ctx.hold("C08.c", con, d.module.rel, gate.line, "guard `%s` dominates %s (%d site(s))" % (gate.text(), what, len(prot)))


def run(ctx, idx):
    ctx.assume("numpy axioms A3/A4/A13 for dtype promotion; the documented rename table FuzzyValues->NormalValues, DefaultFuzzyValue->DefaultNormalValue")
    ctx.rule("C08.a", "Each CvtToFuzzyX returns insure_fuzzy(super().execute(**K), -1, 1) where its base is the matching NormalizeX and K is the caller's kwargs under the rename table plus the range constants -1/1.")
    ctx.rule("C08.b", "In NormalizeCurve and NormalizeCurveZScore the sequence driving the segment loop and both flat extrapolations is one sorted(zip(raw, normal)).")
    ctx.rule("C08.c", "Guards exist (reference table of (command, error) pairs) and dominate the arithmetic they protect.")
    ctx.rule("C08.d", "Integer data: no dtype-pinned in-place arithmetic in conversion bodies whose input may be integer (C07.a's rule).")
    ctx.rule("C08.e", "Every conversion uses its data input (D(ret) ⊇ input); statistics are mask-aware (reported under C03.b).")
    ctx.rule("C08.f", "Every fuzzy producer's return dtype is Float (discharges the inductive hypothesis used for fuzzy-typed inputs).")
    res = {}
    for d, r in R.results(idx).values():
        res.setdefault(d.cls.name, (d, r))
    for name in CONVERSIONS:
        if name not in res:
            raise AnalysisError("conversion command %s vanished" % name)
    for name, base in SIBLINGS.items():
        delegation(ctx, idx, res[name][0], res[name][1], base)
    for name in ("NormalizeCurve", "NormalizeCurveZScore"):
        sorted_pairs(ctx, idx, *res[name])
    for name, errs in GUARDS.items():
        guards(ctx, idx, res[name][0], res[name][1], errs)
    for name in CONVERSIONS:
        d, r = res[name]
        dtype_rule(ctx, "C08.d", d, r)
        R.uses_all_inputs(ctx, "C08.e", d, r)
        R.leaves_inputs_alone(ctx, "C08.j", d, r, "the first conversion of a field is right, but the field itself now holds converted values, so every later conversion or use of it starts from the wrong raw data")
    ctx.rule("C08.j", "A conversion reads its field without changing it: no in-place write reaches the input (a second conversion of the same field must see the same raw values).")
    ctx.rule("C08.k", "Category lookup is exact: NormalizeCat selects the cells of each table entry by equality of the field's values with the raw value (`==`), so a cell matches at most one entry of a duplicate-free table and the outcome does not depend on the order of the table.")
    d, r = res["NormalizeCat"]
    sel = [x for x in r.selstores if x[1] is not None and isinstance(x[3], Scal)]
    con = "%s.execute::category-equality" % d.key
    us = [f for f in r.findings if f[0] == "unsorted-search"]
    for name_ in CONVERSIONS:
        if name_ == "NormalizeCat":
            continue
        d_, r_ = res[name_]
        for f_ in [f for f in r_.findings if f[0] == "unsorted-search"][:1]:
            ctx.violate("C08.k", "%s.execute::bisection-needs-a-sorted-table" % d_.key, d_.module.rel, f_[1], f_[2])
    if us:
        ctx.violate("C08.k", con, d.module.rel, us[0][1], us[0][2] + " - the documented lookup does not depend on the order of the table")
    elif not sel:
        raise AnalysisError("C08.k: no store selected by a comparison of the field with the raw values found in NormalizeCat")
    badsel = [x for x in sel if x[1][1] != "Eq"]
    if us:
        pass
    elif badsel:
        ctx.violate("C08.k", con, d.module.rel, badsel[0][0].lineno, "cells are assigned to a table entry by `%s`, a %s test rather than equality: one cell can match several entries (the later entry wins, so the result depends on the table's order) and cells of an unlisted category next to a listed one get its value instead of the default" % (K.src(badsel[0][0])[:60], badsel[0][1][1]))
    else:
        ctx.hold("C08.k", con, d.module.rel, sel[0][0].lineno, "cells selected by equality with the raw value")
    ctx.rule("C08.g", "Optional numeric parameters are never tested by truthiness (an explicit 0 is a legitimate threshold/value).")
    ctx.rule("C08.i", "A clamp never inverts: wherever a conversion limits its result to [lo, hi] the bounds are constants with lo <= hi or a parameter pair documented as (lowest, highest); a clamp between two thresholds that may come in either order turns the whole grid into one constant when lo > hi.")
    for name in CONVERSIONS:
        d, r = res[name]
        for n, s_, v in R.ret_sites(d, r):
            if not isinstance(v, Arr) or v.rng == (None, None):
                continue
            lo, hi = v.rng
            con = R.ret_key(d, n) + "::clamp-bounds-ordered"
            if lo is None or hi is None:
                continue
            if lo[0] == "c" and hi[0] == "c":
                ctx.ob("C08.i", con, d.module.rel, R.line_of(s_), lo[1] <= hi[1], "clamped to the constants [%s, %s]" % (lo[1], hi[1]) if lo[1] <= hi[1] else "clamped to [%s, %s]: the lower bound exceeds the upper, every cell becomes %s" % (lo[1], hi[1], lo[1]))
                continue
            pair = tuple(sorted(x for b in (lo, hi) for x in __import__("re").findall(r"kw:(\w+)", str(b[1]))))
            documented = any(str(lo[1]).count("kw:" + a) and str(hi[1]).count("kw:" + b) for a, b in ORDERED_BOUNDS)
            ctx.ob("C08.i", con, d.module.rel, R.line_of(s_), documented,
                   "clamped to the documented (lowest, highest) pair %s" % (pair,) if documented else
                   "the result is clamped to [%s, %s], bounds that may come in either order: when the first exceeds the second every cell collapses to one value (the conversion is no longer the inverse / a monotone map between the thresholds)" % (lo[1], hi[1]))
    ctx.rule("C08.h", "NormalizeMeanToMid builds its five raw control points as [min, mean of lower part, mean, mean of upper part, max] where min and max are reductions over the whole input (IgnoreZeros only affects the means, as documented).")
    for name in CONVERSIONS:
        d, r = res[name]
        nt = [f for f in r.findings if f[0] == "numtruth"]
        con = "%s.execute::zero-is-a-value" % d.key
        if nt:
            ctx.violate("C08.g", con, d.module.rel, nt[0][1], nt[0][2])
        else:
            ctx.hold("C08.g", con, d.module.rel, d.execute.node.lineno, "numeric parameters are not used as booleans", nontrivial=False)
    # positions removed from a list one after another: after the first removal every later position has moved
    for name in CONVERSIONS:
        d, r = res[name]
        fi = d.cls.methods.get("execute")
        if fi is None:
            continue
        for lp in [n for n in own_nodes(fi.node) if isinstance(n, ast.For) and isinstance(n.target, ast.Name)]:
            dels = [t for st in ast.walk(lp) if isinstance(st, ast.Delete) for t in st.targets if isinstance(t, ast.Subscript) and isinstance(t.slice, ast.Name) and t.slice.id == lp.target.id]
            pops = [c for c in ast.walk(lp) if isinstance(c, ast.Call) and isinstance(c.func, ast.Attribute) and c.func.attr == "pop" and c.args and isinstance(c.args[0], ast.Name) and c.args[0].id == lp.target.id]
            if not dels and not pops:
                continue
            it = K.expand(fi, lp.iter)
            positions = None
            if isinstance(it, (ast.ListComp, ast.GeneratorExp)) and isinstance(it.elt, ast.Name):
                g = it.generators[0]
                try:
                    src_ = idx.const(fi.module, g.iter, fi)
                except KeyError:
                    src_ = None
                if isinstance(src_, (list, tuple)):
                    if isinstance(g.target, ast.Name) and g.target.id == it.elt.id:
                        positions = list(src_)
                    elif isinstance(g.target, ast.Tuple):
                        k_ = [i for i, e in enumerate(g.target.elts) if isinstance(e, ast.Name) and e.id == it.elt.id]
                        if k_ and all(isinstance(x, (list, tuple)) and len(x) > k_[0] for x in src_):
                            positions = [x[k_[0]] for x in src_]
            elif isinstance(it, (ast.List, ast.Tuple)):
                try:
                    positions = list(idx.const(fi.module, it, fi))
                except KeyError:
                    positions = None
            if positions is None or not all(isinstance(x, int) for x in positions):
                continue
            stale = any(0 <= a < b for i, a in enumerate(positions) for b in positions[i + 1:])
            con = "%s.execute::positions-removed-in-sequence" % d.key
            ctx.ob("C08.h", con, d.module.rel, lp.lineno, not stale, "positions are removed from the back, or relative to the end" if not stale else
                   "positions %s are removed one after another in ascending order: once position %d is gone, position %d names the element after the one meant (when both ends collapse the highest control point itself is dropped and the maximum maps to the wrong normal value)" % (positions, positions[0], positions[-1]))
    mean_to_mid_points(ctx, idx, res, "C08.h")
    ctx.rule("C08.l", "A conversion only reads its value lists: RawValues / NormalValues / FuzzyValues / ZScoreValues are copied before a control point is dropped or replaced, so the same list converts the next field with the same curve.")
    for name in CONVERSIONS:
        R.leaves_arguments_alone(ctx, "C08.l", *res[name])
    n = 0
    for d, r in R.results(idx).values():
        if d.is_fuzzy is True and d.is_data():
            for k, s, v in R.ret_sites(d, r):
                if isinstance(v, Arr):
                    n += 1
                    ctx.ob("C08.f", R.ret_key(d, k) + "::float", d.module.rel, R.line_of(s), v.dt == F_,
                           "fuzzy result is floating" if v.dt == F_ else "a fuzzy producer may return a non-floating array (dtype kinds %s): consumers that accumulate in place would fail" % sorted(v.dt))
    _c08_tail(ctx, idx, res, n)


def mean_to_mid_points(ctx, idx, res, rule):
    """the five control points NormalizeMeanToMid hands to the curve: min(all), three means, max(all)"""
    d, r = res["NormalizeMeanToMid"]
    con = "%s.execute::control-points" % d.key
    sup = [x for x in r.super_calls if x[0].func.attr == "execute" and x[1] is not None]
    raw_direct = None
    if not sup:
        # the curve may be applied through a helper shared with NormalizeCurve (inlined here): the control points are then the
        # list that reaches the sort of (raw, normal) pairs
        for node_, arg_, fk_ in r.sorteds:
            if isinstance(arg_, Lst) and arg_.what == "zip" and len(arg_.zipped) == 2 and isinstance(arg_.zipped[0], Lst) and arg_.zipped[0].items is not None:
                raw_direct = (node_, arg_.zipped[0])
    if not sup and raw_direct is None:
        ctx.violate(rule, con, d.module.rel, d.execute.node.lineno, "NormalizeMeanToMid no longer delegates to NormalizeCurve with computed RawValues")
    else:
        raw = sup[0][1].d.get("RawValues") if sup else raw_direct[1]
        if not sup:
            sup = [(raw_direct[0],)]
        items = raw.items if isinstance(raw, Lst) and raw.items is not None else None
        if items is None or len(items) != 5:
            raise AnalysisError("%s: RawValues passed to NormalizeCurve is not a five-element list of statistics" % rule)
        syms = [getattr(x, "sym", None) for x in items]
        probs = []
        if syms[0] != "stat:min(all)":
            probs.append("the lowest control point is %s, not the minimum of the whole input" % (syms[0] or "not a data statistic"))
        if syms[4] != "stat:max(all)":
            probs.append("the highest control point is %s, not the maximum of the whole input" % (syms[4] or "not a data statistic"))
        if not all(sy and sy.startswith("stat:mean(") for sy in syms[1:4]):
            probs.append("the inner control points are %s, not means" % syms[1:4])
        ctx.ob(rule, con, d.module.rel, sup[0][0].lineno, not probs, "control points: min(all), mean, mean, mean, max(all)" if not probs else "; ".join(probs) + " (IgnoreZeros is documented to affect only the means)")


def _c08_tail(ctx, idx, res, n):
    ctx.floor("C08.f", "fuzzy producer returns", n, 14)
