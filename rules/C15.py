"""C15 — serialising a program and loading it back: writer/reader agreement (numbers, escaping, kinds, order)."""
import ast

from engine import grammar
from engine import regexlang as RL
from engine.index import own_nodes
from engine.report import AnalysisError

from . import common as K


def sanitised(e, helpers):
    """Is `e` an escaping of a string for a double-quoted literal?  backslash first, then the quote."""
    # X.replace("\\", "\\\\").replace('"', '\\"')
    chain = []
    cur = e
    while isinstance(cur, ast.Call) and isinstance(cur.func, ast.Attribute) and cur.func.attr == "replace" and len(cur.args) == 2 and all(isinstance(a, ast.Constant) for a in cur.args):
        chain.append((cur.args[0].value, cur.args[1].value))
        cur = cur.func.value
    chain.reverse()
    if chain:
        pairs = [c for c in chain if c in (("\\", "\\\\"), ('"', '\\"'))]
        if ("\\", "\\\\") in chain and ('"', '\\"') in chain:
            if chain.index(("\\", "\\\\")) < chain.index(('"', '\\"')):
                return True, None
            return False, "the quote is escaped before the backslash: the backslash of `\\\"` is doubled again and the string no longer reads back"
        if ('"', '\\"') in chain:
            return False, "backslashes are not escaped: `C:\\temp\\new.csv` reads back with a tab and a newline"
        if ("\\", "\\\\") in chain:
            return False, "the double quote is not escaped: `a\"b` ends the literal early"
    if isinstance(e, ast.Call) and isinstance(e.func, ast.Name) and e.func.id in helpers:
        return helpers[e.func.id]
    if isinstance(e, ast.Call) and isinstance(e.func, ast.Attribute) and isinstance(e.func.value, ast.Name) and e.func.value.id == "json" and e.func.attr == "dumps":
        return None, "json.dumps escaping is only right when the reader decodes JSON escapes"
    return False, "the value is placed between quotes without escaping: a double quote ends the literal early and a backslash is read as an escape"


def escape_chain(e, funcs, depth=0):
    """the (char, replacement) pairs of the `.replace(a, b)` chain an expression applies, following one-return helpers"""
    chain = []
    cur = e
    while isinstance(cur, ast.Call) and isinstance(cur.func, ast.Attribute) and cur.func.attr == "replace" and len(cur.args) == 2 and all(isinstance(a, ast.Constant) for a in cur.args):
        chain.append((cur.args[0].value, cur.args[1].value))
        cur = cur.func.value
    chain.reverse()
    if chain:
        return chain
    if isinstance(e, ast.Call) and depth < 3:
        nm = e.func.id if isinstance(e.func, ast.Name) else e.func.attr if isinstance(e.func, ast.Attribute) else None
        for f in funcs:
            if f.name == nm:
                rets = [n for n in own_nodes(f.node) if isinstance(n, ast.Return) and n.value is not None]
                if len(rets) == 1:
                    return escape_chain(rets[0].value, funcs, depth + 1)
    return None


def written_string_language(chain):
    """regular expression of everything the writer can put between double quotes for a str value"""
    import re

    singles = [a for a, _ in chain if isinstance(a, str) and len(a) == 1]
    cls = "[^" + "".join("\\" + c if c in "\\]^-" else c for c in singles) + "]"
    alts = [cls] + [re.escape(b) for _, b in chain]
    return '"(' + "|".join(alts) + ')*"'


def coverage_table_attr(idx):
    from . import coverage

    return coverage.command_table_attr(idx, K.anchors(idx))


def quoted_slots(fmt):
    """indices of `{}` placeholders that sit between double quotes in a format string"""
    out = []
    i = 0
    n = 0
    while i < len(fmt):
        j = fmt.find("{}", i)
        if j < 0:
            break
        inside = j > 0 and fmt[j - 1] == '"' and j + 2 < len(fmt) + 0 and fmt[j + 2:j + 3] == '"'
        if not inside and j > 0 and fmt[j - 1] == "'" and fmt[j + 2:j + 3] == "'":
            inside = "'"
        out.append((n, inside))
        n += 1
        i = j + 2
    return out


def _only_drops_unset(gen):
    """no filter, or one that can be false only for an argument whose value is None (`a.value is not None [or ...]`): None is not
    a value the command-file syntax can express, so nothing the loader could read back is left out"""
    if not gen.ifs:
        return True
    if len(gen.ifs) != 1 or not isinstance(gen.target, ast.Name):
        return False
    t = gen.ifs[0]
    alts = t.values if isinstance(t, ast.BoolOp) and isinstance(t.op, ast.Or) else [t]
    return any(isinstance(a, ast.Compare) and len(a.ops) == 1 and isinstance(a.ops[0], ast.IsNot) and K.src(a.left) == "%s.value" % gen.target.id and isinstance(a.comparators[0], ast.Constant) and a.comparators[0].value is None for a in alts)


def float_printer(funcs):
    """A branch `if isinstance(v, float): t = repr(v); [if "a" in t and "b" not in t: t = t.replace(x, y)]*; return t` in the
    serialiser -> (line, [(chars that must be present, chars that must be absent, x, y), ...]); None when floats take the generic path."""
    for f in funcs:
        for n in own_nodes(f.node):
            if not (isinstance(n, ast.If) and isinstance(n.test, ast.Call) and isinstance(n.test.func, ast.Name) and n.test.func.id == "isinstance" and len(n.test.args) == 2 and K.src(n.test.args[1]) == "float"):
                continue
            v = K.src(n.test.args[0])
            t = None
            steps = []
            for st in n.body:
                if isinstance(st, ast.Assign) and len(st.targets) == 1 and isinstance(st.targets[0], ast.Name) and isinstance(st.value, ast.Call) and K.src(st.value.func) in ("repr", "str", "six.text_type") and len(st.value.args) == 1 and K.src(st.value.args[0]) == v and t is None:
                    t = st.targets[0].id
                elif isinstance(st, ast.If) and t is not None and not st.orelse and len(st.body) == 1:
                    tests = st.test.values if isinstance(st.test, ast.BoolOp) and isinstance(st.test.op, ast.And) else [st.test]
                    present, absent = [], []
                    for c in tests:
                        if isinstance(c, ast.Compare) and len(c.ops) == 1 and isinstance(c.left, ast.Constant) and isinstance(c.left.value, str) and len(c.left.value) == 1 and isinstance(c.comparators[0], ast.Name) and c.comparators[0].id == t and isinstance(c.ops[0], (ast.In, ast.NotIn)):
                            (present if isinstance(c.ops[0], ast.In) else absent).append(c.left.value)
                        else:
                            raise AnalysisError("C15.a: float formatting condition `%s` is outside the recognised forms" % K.src(c))
                    b = st.body[0]
                    ok = isinstance(b, ast.Assign) and len(b.targets) == 1 and isinstance(b.targets[0], ast.Name) and b.targets[0].id == t and isinstance(b.value, ast.Call) and isinstance(b.value.func, ast.Attribute) and b.value.func.attr == "replace" and K.src(b.value.func.value) == t and len(b.value.args) == 2 and all(isinstance(a, ast.Constant) and isinstance(a.value, str) for a in b.value.args)
                    if not ok:
                        raise AnalysisError("C15.a: float formatting step `%s` is outside the recognised forms" % K.src(b)[:60])
                    steps.append((present, absent, b.value.args[0].value, b.value.args[1].value))
                elif isinstance(st, ast.Return) and isinstance(st.value, ast.Name) and st.value.id == t:
                    return n.lineno, steps
                elif isinstance(st, ast.Return) and isinstance(st.value, ast.Call) and K.src(st.value.func) in ("repr", "str", "six.text_type") and t is None:
                    return n.lineno, []
                else:
                    raise AnalysisError("C15.a: the float branch of the serialiser contains `%s`, outside the recognised forms" % K.src(st)[:60])
            raise AnalysisError("C15.a: the float branch of the serialiser does not return its text")
    return None


_SOFT15 = []


def run(ctx, idx):
    del _SOFT15[:]
    ctx.rule("C15.i", "What is written for a value depends on that value and its type alone: nothing on the path of Program.to_string goes through a result cache (functools.lru_cache and the like). Such caches key by equality and hash - True, 1 and 1.0 (and 0.0 / -0.0, False / 0) share one entry - so whichever was formatted first in the process decides the text of the others: a float 1.0 comes out as `True` after a boolean was written, and the loader reads that back as text.")
    _ts = idx.func("mpilot.program", "Program.to_string")
    if _ts is None:
        raise AnalysisError("C15.i: Program.to_string vanished")
    _memo = K.memoised_helpers(idx, _ts)
    ctx.ob("C15.i", "%s::no-result-cache" % _ts.key, K.rel(_ts), (_memo[0][0].node.lineno if _memo else _ts.node.lineno), not _memo,
           "no cached helper on the serialisation path" if not _memo else "`%s` is cached with `@%s`: values that compare equal but are written differently (True / 1 / 1.0, 0.0 / -0.0) share one cache entry, so the text of a value depends on what was serialised earlier in the process" % (_memo[0][0].name, _memo[0][1]))
    if _memo:
        return
    # the serialiser writes every tuple value between quotes: what it quotes must BE text after cleaning, or the reloaded program
    # holds text where the original held a number
    from .C20 import tuple_text_to_text

    _src_ts0 = K.src(getattr(_ts, "node_orig", None) or _ts.node)
    if '"{}": "{}"' not in _src_ts0 and "'\"{}\": \"{}\"'" not in _src_ts0:
        # the serialiser no longer writes every tuple value between quotes: what the cleaner may keep depends on what the new
        # writer does with it - not read here
        class _Proxy(object):
            def __init__(self, real):
                self.real, self.calls, self.bad = real, [], False

            def rule(self, *a, **k):
                self.calls.append(("rule", a, k))

            def floor(self, *a, **k):
                self.calls.append(("floor", a, k))

            def ob(self, rule_, con_, file_, line_, ok_, why_, **k):
                self.bad = self.bad or not ok_
                self.calls.append(("ob", (rule_, con_, file_, line_, ok_, why_), k))

            def replay(self):
                for nm_, a_, k_ in self.calls:
                    getattr(self.real, nm_)(*a_, **k_)
        _px = _Proxy(ctx)
        _und_j = tuple_text_to_text(_px, idx, "C15.j")
        if _px.bad:
            _und_j = ["C15.j: the cleaner keeps some tuple values as they are and the serialiser writes tuple values in a form of its own (not `\"key\": \"value\"` for every value); whether the two agree on which values stay numbers is not decided"]
        else:
            _px.replay()
    else:
      _und_j = tuple_text_to_text(ctx, idx, "C15.j", consequence=" - and to_string writes every tuple value as a quoted string, so the same program written out and loaded again holds text there: the reloaded program is not the one that was serialised")
    ctx.assume("str()/repr() of int prints -?d+; of float prints d+.d+, d(.d+)?e[+-]dd+, inf or nan (reference languages fixed by Python)")
    ctx.rule("C15.a", "Numbers: every text the serialiser can print for an int or float is read back as a number: L_repr_int ⊆ L(INT) and L_repr_float ⊆ L(FLOAT) ∪ (single plain token that float() accepts).")
    ctx.rule("C15.b", "Strings are escaped for the reader: a str value reaches the output between quotes only through an escaping step handling the backslash and then the quote; reference names are emitted bare only for Result-typed parameters.")
    ctx.rule("C15.c", "Every value kind the loader accepts is serialised: nested lists recursively, dicts, booleans, Command objects by result name, DataType type objects by their table key.")
    ctx.rule("C15.d", "Order and names: commands are emitted in command-table order, arguments in command.arguments order with the argument's own name.")
    prog = idx.cls("mpilot.program", "Program")
    ts = prog.methods.get("to_string")
    if ts is None:
        raise AnalysisError("Program.to_string vanished")
    funcs = K.helper_closure(idx, ts)
    byname = {f.name: f for f in funcs}
    # ------------------------------------------------------------------ g: what is serialised is what was given
    ctx.rule("C15.g", "to_string writes the values the program was built with: an Argument's `value` is assigned by its constructor only (C20.d's reading of the package) - a run that stores cleaned values back (types, absolute paths, command objects) makes the serialised text another program, or no program at all (`DataType = <class 'float'>` does not parse).")
    n_val = 0
    for mod_, f_, n_ in K.scoped_nodes(idx):
        if f_ is None or mod_.name.startswith("mpilot.parser"):
            continue
        if isinstance(n_, ast.Attribute) and isinstance(n_.ctx, ast.Store) and n_.attr == "value":
            selfn_ = K.self_name(f_) if f_.cls is not None else None
            own_ = isinstance(n_.value, ast.Name) and n_.value.id == selfn_
            n_val += 1
            if own_:
                continue
            ctx.violate("C15.g", "%s::argument-value-overwritten" % f_.key, mod_.rel, n_.lineno, "`%s = ...` replaces the value an argument was built with: from then on to_string serialises the stored (cleaned) form - a type object, an absolute path - instead of what was loaded or given" % K.src(n_))
    ctx.floor("C15.g", "stores to a `value` attribute in the package", n_val, 1)
    # ------------------------------------------------------------------ f: serialised text is final
    ctx.rule("C15.f", "Serialised text is final: in Program.to_string text that already holds a serialised value is only inserted (format argument, +, join); it is never the format template and never rewritten by content (split / replace / strip / slicing / indentation helpers), so braces, line breaks and blanks inside a quoted value survive (taint analysis over to_string and its nested helpers).")
    from . import texttaint

    # the serialiser's own helpers, on the source as written: functions nested in to_string (found by the analysis itself), the
    # other functions of its module and of mpilot.utils, and Program's methods (a refactoring may have moved them there)
    helpers_ = {}
    for m_ in (ts.module, idx.module_of("mpilot.utils")):
        for st_ in (m_.tree.body if m_ is not None else []):
            if isinstance(st_, ast.FunctionDef):
                helpers_.setdefault(st_.name, st_)
    for st_ in prog.node.body:
        if isinstance(st_, ast.FunctionDef) and st_.name != "to_string":
            helpers_.setdefault(st_.name, st_)
    tf, ncalls = texttaint.analyse(getattr(ts, "node_orig", None) or ts.node, K.src, helpers_)
    ctx.floor("C15.f", "calls of serialiser helpers followed", ncalls, 2)
    con_f = "%s::serialised-text-is-final" % ts.key
    if tf:
        for line_, kind_, text_ in tf[:3]:
            ctx.violate("C15.f", con_f, K.rel(ts), line_, text_)
    else:
        ctx.hold("C15.f", con_f, K.rel(ts), ts.node.lineno, "serialised values are only inserted into the surrounding layout")
    # free text of the model (a command's metadata values, its display name) reaches the output only as a VALUE, through the
    # serialiser's own helpers (quoted and escaped).  Formatted into the layout itself - a comment line, a heading - it is outside
    # every quoted string: a line break in it ends the comment and the rest is read as program text
    ctx.rule("C15.k", "Free text of the model (metadata values, display names) reaches the serialised text only through the serialiser's quoting helpers: it is never formatted into the layout itself (a comment line ends at the first CR or LF of the text; what follows is parsed as commands).")
    src_ts = getattr(ts, "node_orig", None) or ts.node
    nested_ = {n_.name for n_ in ast.walk(src_ts) if isinstance(n_, ast.FunctionDef) and n_ is not src_ts} | set(helpers_)
    FREE = ("metadata", "display_name")
    bad_k = None
    for fn_ in [src_ts] + [n_ for n_ in ast.walk(src_ts) if isinstance(n_, ast.FunctionDef) and n_ is not src_ts]:
        tainted = {}
        body_nodes = [n_ for n_ in ast.walk(fn_) if not any(n_ is x_ for g_ in ast.walk(fn_) if isinstance(g_, ast.FunctionDef) and g_ is not fn_ for x_ in ast.walk(g_))]

        def _commented_by_line(e_):
            """sep.join("# ...{}".format(line) for line in <text>.splitlines()): every line of the text behind its own `#` - a comment
            ends only at CR / LF, and splitlines() breaks at each of those (and more)"""
            if not (isinstance(e_, ast.Call) and isinstance(e_.func, ast.Attribute) and e_.func.attr == "join" and isinstance(e_.func.value, ast.Constant) and e_.func.value.value in ("\n", "\r\n")
                    and len(e_.args) == 1 and isinstance(e_.args[0], (ast.GeneratorExp, ast.ListComp)) and len(e_.args[0].generators) == 1):
                return False
            g_ = e_.args[0].generators[0]
            el_ = e_.args[0].elt
            if g_.ifs or not (isinstance(g_.iter, ast.Call) and isinstance(g_.iter.func, ast.Attribute) and g_.iter.func.attr == "splitlines" and not g_.iter.args and isinstance(g_.target, ast.Name)):
                return False
            if isinstance(el_, ast.Call) and isinstance(el_.func, ast.Attribute) and el_.func.attr == "format" and isinstance(el_.func.value, ast.Constant) and str(el_.func.value.value).startswith("#") \
                    and "\n" not in str(el_.func.value.value) and len(el_.args) == 1 and isinstance(el_.args[0], ast.Name) and el_.args[0].id == g_.target.id:
                return True
            if isinstance(el_, ast.BinOp) and isinstance(el_.op, ast.Add) and isinstance(el_.left, ast.Constant) and str(el_.left.value).startswith("#") and isinstance(el_.right, ast.Name) and el_.right.id == g_.target.id:
                return True
            return False

        def _free(e_):
            if _commented_by_line(e_):
                return False

            def _walk(n_):
                yield n_
                for ch_ in ast.iter_child_nodes(n_):
                    if not _commented_by_line(ch_):
                        for y_ in _walk(ch_):
                            yield y_
            for x_ in _walk(e_):
                if isinstance(x_, ast.Call) and isinstance(x_.func, ast.Name) and x_.func.id in nested_:
                    return False if x_ is e_ else None  # handed to a helper: judged there
            for x_ in _walk(e_):
                if isinstance(x_, ast.Attribute) and x_.attr in FREE:
                    return True
                if isinstance(x_, ast.Name) and x_.id in tainted:
                    return True
            return False
        chg = True
        while chg:
            chg = False
            for st_ in body_nodes:
                if isinstance(st_, ast.Assign) and len(st_.targets) == 1 and isinstance(st_.targets[0], ast.Name) and st_.targets[0].id not in tainted and _free(st_.value):
                    if not any(isinstance(x_, ast.Call) and isinstance(x_.func, ast.Name) and x_.func.id in nested_ for x_ in ast.walk(st_.value)):
                        tainted[st_.targets[0].id] = st_
                        chg = True
        for st_ in body_nodes:
            pieces = []
            if isinstance(st_, ast.Call) and isinstance(st_.func, ast.Attribute) and st_.func.attr == "format" and isinstance(st_.func.value, ast.Constant) and isinstance(st_.func.value.value, str):
                pieces = list(st_.args) + [k_.value for k_ in st_.keywords]
            elif isinstance(st_, ast.JoinedStr):
                pieces = [v_.value for v_ in st_.values if isinstance(v_, ast.FormattedValue)]
            elif isinstance(st_, ast.BinOp) and isinstance(st_.op, (ast.Add, ast.Mod)) and (isinstance(st_.left, ast.Constant) and isinstance(st_.left.value, str) or isinstance(st_.right, ast.Constant) and isinstance(st_.right.value, str)):
                pieces = [st_.left, st_.right] if isinstance(st_.op, ast.Add) else ([st_.right] if not isinstance(st_.right, ast.Tuple) else list(st_.right.elts))
            for pc_ in pieces:
                if isinstance(pc_, ast.Call) and isinstance(pc_.func, ast.Name) and pc_.func.id in nested_:
                    continue
                if _free(pc_) is True and bad_k is None:
                    bad_k = (st_, pc_)
    ctx.ob("C15.k", "%s::free-text-is-quoted" % ts.key, K.rel(ts), bad_k[0].lineno if bad_k else ts.node.lineno, bad_k is None,
           "metadata / display names reach the output only through the serialiser's helpers" if bad_k is None else
           "`%s` puts `%s` - free text of the model - into the layout of the file, outside any quoted string: a line break (or a `#`-less second line) in it is read back as program text, so the written file does not load, or loads with other commands" % (K.src(bad_k[0])[:50], K.src(bad_k[1])[:40]))
    L = grammar.Lexicon(idx)
    dfas = {r.token: RL.dfa(r.pattern) for r in L.rules if not r.ignored and r.name != "t_newline"}
    # ------------------------------------------------------------------ a
    # how are non-string scalars printed?
    printers = []
    for f in funcs:
        for n in own_nodes(f.node):
            if isinstance(n, ast.Return) and isinstance(n.value, ast.Call) and isinstance(n.value.func, ast.Name) and n.value.func.id in ("str", "repr") and n.value.args and isinstance(n.value.args[0], ast.Name):
                printers.append((f, n))
            if isinstance(n, ast.Return) and isinstance(n.value, ast.Call) and isinstance(n.value.func, ast.Attribute) and n.value.func.attr == "format" and isinstance(n.value.func.value, ast.Constant) and n.value.func.value.value == "{}":
                printers.append((f, n))
    if not printers:
        raise AnalysisError("C15.a: the formatting call the serialiser applies to numeric values was not found (str/repr/'{}'.format expected)")
    ctx.floor("C15.a", "scalar formatting sites in to_string", len(printers), 1)
    lossy = [(f, n, what) for f in funcs for n, what in K.lossy_number_formatting(idx, f)]
    ctx.ob("C15.a", "%s::numbers-printed-in-full" % ts.key, K.rel(ts), lossy[0][1].lineno if lossy else ts.node.lineno, not lossy,
           "numbers are printed by str()/repr()/'{}' (shortest text that reads back to the same double)" if not lossy else
           "`%s` (%s) prints a number with a fixed number of digits: a value with more significant digits is silently rounded in the text, so the reloaded program holds a different number" % (K.src(lossy[0][1])[:50], lossy[0][2]))
    rel = K.rel(ts)
    w = RL.not_included(RL.dfa(RL.L_REPR_INT), dfas["INT"])
    ctx.ob("C15.a", "%s::integers-reload" % ts.key, rel, printers[0][1].lineno, w is None, "every printed int is an INT token" if w is None else "str(int) can print %r, which the lexer does not read as INT" % w)
    # floats: FLOAT, or a single ID/PLAIN_STRING token whose text float() accepts (NumberParameter.clean converts it)
    fl = RL.dfa(RL.L_REPR_FLOAT)
    classes = [("exponent form without a fraction", r"-?[0-9]e[+\-][0-9][0-9]+"), ("exponent form with a fraction", r"-?[0-9]\.[0-9]+e[+\-][0-9][0-9]+"), ("plain decimal", r"-?[0-9]+\.[0-9]+"), ("inf/nan", r"-?(inf|nan)")]
    fp = float_printer(funcs)
    if fp is not None:
        # the serialiser formats floats itself: repr()/str() followed by conditional single-character rewrites; apply them per class
        line_fp, steps = fp
        out_classes = []
        for name, pat in classes:
            d0 = RL.dfa(pat)
            for present, absent, old_c, new_s in steps:
                def always(ch):
                    return RL.not_included(d0, RL.dfa("[\\s\\S]*%s[\\s\\S]*" % ("\\" + ch if not ch.isalnum() else ch))) is None

                def never(ch):
                    return RL.contains(d0, {ch}) is None
                verdicts = [always(c) for c in present] + [never(c) for c in absent]
                decided = all(always(c) or never(c) for c in present + absent)
                if not decided:
                    raise AnalysisError("C15.a: the float formatter's condition is not uniform over the %s" % name)
                if all(verdicts):
                    if pat.count(old_c) != 1 or not old_c.isalnum():
                        raise AnalysisError("C15.a: cannot apply the float formatter's rewrite %r -> %r to the %s" % (old_c, new_s, name))
                    pat = pat.replace(old_c, "".join("\\" + ch if not ch.isalnum() else ch for ch in new_s))
                    d0 = RL.dfa(pat)
            out_classes.append((name, pat))
        classes = out_classes
        fl = RL.dfa("|".join("(%s)" % p_ for _n, p_ in classes))
    w = RL.not_included(fl, dfas["FLOAT"])
    witnesses = []
    if w is not None:
        # enumerate the failing sub-languages separately
        for name, pat in classes:
            d = RL.dfa(pat)
            ww = RL.not_included(d, dfas["FLOAT"])
            if ww is None:
                continue
            single = RL.not_included(d, RL.dfa("(%s)|(%s)" % (L.rule("ID").pattern, L.rule("PLAIN_STRING").pattern))) is None
            accepted = RL.not_included(d, RL.dfa(RL.L_FLOAT_BUILTIN)) is None
            starts_num = RL.intersection(d, RL.dfa(r"[\-\+]?[0-9][\s\S]*")) is not None
            if single and accepted and not starts_num:
                continue  # read as one plain token; NumberParameter.clean converts it with float()
            witnesses.append((name, ww))
    if witnesses:
        ctx.violate("C15.a", "%s::floats-reload" % ts.key, rel, printers[0][1].lineno,
                    "str(float) prints the %s (e.g. %r), which the lexer does not read back as a number: the reloaded file is a syntax error or a different value" % (witnesses[0][0], witnesses[0][1]))
    else:
        ctx.hold("C15.a", "%s::floats-reload" % ts.key, rel, printers[0][1].lineno, "every printed float is a FLOAT token or a single plain token float() accepts")
    # ------------------------------------------------------------------ b
    helpers = {}
    for f in funcs:
        rets = [n for n in own_nodes(f.node) if isinstance(n, ast.Return)]
        if len(rets) == 1 and rets[0].value is not None:
            ok, why = sanitised(rets[0].value, {})
            if ok:
                helpers[f.name] = (True, None)
    for m in idx.modules.values():
        for name, f in m.funcs.items():
            rets = [n for n in own_nodes(f.node) if isinstance(n, ast.Return)]
            if len(rets) == 1 and rets[0].value is not None and sanitised(rets[0].value, {})[0]:
                helpers[name] = (True, None)
    # helpers that return the complete quoted literal (e.g. json.dumps)
    quoting = {}
    for f in funcs + [g for m in idx.modules.values() for g in m.funcs.values()]:
        rets = [n for n in own_nodes(f.node) if isinstance(n, ast.Return)]
        if len(rets) == 1 and isinstance(rets[0].value, ast.Call):
            c = rets[0].value
            if isinstance(c.func, ast.Attribute) and c.func.attr == "dumps" and isinstance(c.func.value, ast.Name) and c.func.value.id == "json":
                ea = next((k.value for k in c.keywords if k.arg == "ensure_ascii"), None)
                if isinstance(ea, ast.Constant) and ea.value is False:
                    quoting[f.name] = (True, "json.dumps(..., ensure_ascii=False): only `\\\\` `\\\"` and control escapes, all of which the reader decodes")
                else:
                    quoting[f.name] = (False, "json.dumps escapes non-ASCII text as \\uXXXX and characters outside the BMP as UTF-16 surrogate pairs, which the reader's unicode_escape decoding does not recombine: such strings do not read back")
    n_q = 0
    all_funcs = list(funcs) + [g for m in idx.modules.values() for g in m.funcs.values()]
    for f in funcs:
        for n in own_nodes(f.node):
            if isinstance(n, ast.Call) and isinstance(n.func, ast.Attribute) and n.func.attr == "dumps" and isinstance(n.func.value, ast.Name) and n.func.value.id == "json" and f.name not in quoting:
                n_q += 1
                ea = next((k.value for k in n.keywords if k.arg == "ensure_ascii"), None)
                okq = isinstance(ea, ast.Constant) and ea.value is False
                ctx.ob("C15.b", "%s::quoted-by(json.dumps)" % f.key, K.rel(f), n.lineno, okq,
                       "json.dumps(..., ensure_ascii=False): escapes the reader decodes" if okq else
                       "json.dumps escapes non-ASCII text as \\uXXXX and characters outside the BMP as UTF-16 surrogate pairs, which the reader's unicode_escape decoding does not recombine: such strings do not read back")
            if isinstance(n, ast.Call) and isinstance(n.func, ast.Name) and n.func.id in quoting and f.name not in quoting:
                n_q += 1
                okq, whyq = quoting[n.func.id]
                ctx.ob("C15.b", "%s::quoted-by(%s)" % (f.key, n.func.id), K.rel(f), n.lineno, okq, whyq)
            if isinstance(n, ast.Call) and isinstance(n.func, ast.Attribute) and n.func.attr == "format" and isinstance(n.func.value, ast.Constant) and isinstance(n.func.value.value, str):
                fmt = n.func.value.value
                for i, inside in quoted_slots(fmt):
                    if not inside or i >= len(n.args):
                        continue
                    n_q += 1
                    arg = n.args[i]
                    if inside == "'":
                        # the reader decodes escapes in single-quoted strings exactly as in double-quoted ones (one STRING rule, one
                        # decoding step): the writer owes the same escaping, of the backslash and then of the single quote
                        ch1 = escape_chain(arg, list(funcs)) or []
                        # under a test `"'" not in <text>` there is no single quote left to escape: the backslash alone is owed
                        noq_ = any(isinstance(g_, ast.If) and any(x_ is n for b_ in g_.body for x_ in ast.walk(b_))
                                   and any(isinstance(t_, ast.Compare) and len(t_.ops) == 1 and isinstance(t_.ops[0], ast.NotIn) and isinstance(t_.left, ast.Constant) and t_.left.value == "'"
                                           for t_ in ([g_.test] + (list(g_.test.values) if isinstance(g_.test, ast.BoolOp) and isinstance(g_.test.op, ast.And) else [])))
                                   for g_ in ast.walk(f.node))
                        bs_ = ("\\", "\\\\")
                        sq_ = ("'", "\\'")
                        ok1 = bs_ in ch1 and ((sq_ in ch1 and ch1.index(bs_) < ch1.index(sq_)) or (noq_ and not any(a_ == "'" for a_, _ in ch1)))
                        ctx.ob("C15.b", "%s::single-quoted(%s)#%d" % (f.key, fmt.strip()[:24], i), K.rel(f), n.lineno, ok1,
                               "escaped: backslash, then the single quote" if ok1 else
                               "the value is placed between single quotes without escaping the backslash and then the single quote: the reader decodes escapes in single-quoted strings too, so `C:\\temp\\new.csv` reads back with a tab and a newline, a trailing backslash swallows the closing quote, and a `'` ends the literal early")
                        continue
                    ok, why = sanitised(arg, helpers)
                    # a name bound to a sanitised expression just before
                    if not ok and isinstance(arg, ast.Name):
                        defs = [x.value for x in own_nodes(f.node) if isinstance(x, ast.Assign) and any(isinstance(t, ast.Name) and t.id == arg.id for t in x.targets)]
                        if defs and all(sanitised(d, helpers)[0] for d in defs):
                            ok, why = True, None
                    con = "%s::quoted(%s)#%d" % (f.key, fmt.strip()[:24], i)
                    if ok is None:
                        raise AnalysisError("C15.b: %s" % why)
                    ctx.ob("C15.b", con, K.rel(f), n.lineno, ok, "escaped: backslash, then quote" if ok else why)
                    if ok:
                        # agreement with the reader: every text the writer can put between the quotes is one STRING token
                        a2 = arg
                        if isinstance(a2, ast.Name):
                            defs = [x.value for x in own_nodes(f.node) if isinstance(x, ast.Assign) and any(isinstance(t, ast.Name) and t.id == a2.id for t in x.targets)]
                            a2 = defs[0] if len(defs) == 1 else a2
                        ch = escape_chain(a2, all_funcs)
                        if ch:
                            # the reader's decoding (extracted from t_STRING) undoes the writer's escaping on every short value
                            from . import strcodec

                            decd = strcodec.reader_decoder(idx, L)
                            if decd["kind"] == "eval":
                                pass  # decided under C10.f (Python literal reader)
                            else:
                                wit_rt = strcodec.round_trip_witness(ch, decd)
                                ctx.ob("C15.b", con + "::decoded-back", K.rel(f), n.lineno, wit_rt is None,
                                       "reader decoding (%s) inverts the writer's escaping on every value of up to 4 characters over %r" % (decd["kind"], "".join(strcodec.ALPHABET)) if wit_rt is None else
                                       "the value %r is written as \"%s\" and read back as %r: the reader's decoding (%s) does not undo the writer's escaping" % (wit_rt[0], wit_rt[1], wit_rt[2],
                                           "successive replacements %s" % (decd["pairs"],) if decd["kind"] == "chain" else decd["kind"]))
                            W = written_string_language(ch)
                            wit = RL.not_included(RL.dfa(W), dfas["STRING"])
                            ctx.ob("C15.b", con + "::read-back", K.rel(f), n.lineno, wit is None,
                                   "every written quoted string is a single STRING token" if wit is None else
                                   "the writer can emit %r between quotes (only %s are escaped), which the reader's STRING rule does not accept: such a value serialises to text that no longer loads" % (wit, ", ".join(repr(a) for a, _ in ch)))
            if isinstance(n, ast.BinOp) and isinstance(n.op, ast.Add) and isinstance(n.left, ast.Constant) and n.left.value == '"':
                n_q += 1
                ctx.violate("C15.b", "%s::quoted-concat" % f.key, K.rel(f), n.lineno, "a value is wrapped in quotes by concatenation without escaping: %s" % K.src(n))
    ctx.floor("C15.b", "quoted placeholders in the serialiser", n_q, 2)
    # bare emission only for reference parameters
    sv = None
    for f in funcs:
        src = K.src(f.node)
        if "ResultParameter" in src and "string_types" in src and (sv is None or len(src) < len(K.src(sv.node))):
            sv = f  # the innermost function that makes the choice (an enclosing function contains the same text)
    con = "%s::bare-references" % ts.key
    if sv is None:
        raise AnalysisError("C15.b: the function choosing between bare and quoted emission was not found")
    cfg = K.cfg_of(idx, sv)
    quoted_rets = [r for r in cfg.find("return") if isinstance(r.ast.value, ast.Call) and ((isinstance(r.ast.value.func, ast.Attribute) and r.ast.value.func.attr == "format" and '"' in str(getattr(r.ast.value.func.value, "value", ""))) or (isinstance(r.ast.value.func, ast.Name) and r.ast.value.func.id in quoting) or K.src(r.ast.value.func) == "json.dumps")]
    str_tests = [t for t in cfg.find("test") if "string_types" in t.text() or "isinstance" in t.text() and "str" in t.text()]
    ref_tests = [t for t in cfg.find("test") if "ResultParameter" in t.text()]
    ok = bool(quoted_rets) and bool(str_tests) and bool(ref_tests) and all(cfg.dominates(ref_tests[0], s) for s in str_tests)
    ctx.ob("C15.b", con, K.rel(sv), sv.node.lineno, ok, "strings are quoted unless the parameter is a result reference" if ok else "the serialiser no longer quotes exactly the non-reference strings")
    # every return of the value as it is (`return value`, `return str(value)`) is taken for a result reference (true side of the
    # ResultParameter test) or for a value that is not text (false side of the string test) - never for some other kind of string
    vp = sv.node.args.args[0].arg if sv.node.args.args else None
    bare = [r for r in cfg.find("return") if (isinstance(r.ast.value, ast.Name) and r.ast.value.id == vp)
            or (isinstance(r.ast.value, ast.Call) and K.src(r.ast.value.func) in ("str", "six.text_type", "text_type") and len(r.ast.value.args) == 1 and isinstance(r.ast.value.args[0], ast.Name) and r.ast.value.args[0].id == vp)]

    def reachable_otherwise(r):
        """is r reachable from the entry along edges that are neither the true outcome of a ResultParameter test nor the false
        outcome of a string test?  (then a string that is no reference can arrive there)"""
        cut = {(id(t), "true") for t in ref_tests} | {(id(t), "false") for t in str_tests}
        # a test on a name bound to the reference test (`is_reference = isinstance(param, ResultParameter) or ...`), possibly negated
        for t in cfg.find("test"):
            e_ = t.ast
            neg_ = False
            while isinstance(e_, ast.UnaryOp) and isinstance(e_.op, ast.Not):
                neg_ = not neg_
                e_ = e_.operand
            if isinstance(e_, ast.Name) and "ResultParameter" in K.src(K.expand(sv, e_)) and "isinstance" in K.src(K.expand(sv, e_)):
                cut.add((id(t), "false" if neg_ else "true"))
        seen, work = set(), [cfg.entry]
        while work:
            n = work.pop()
            if id(n) in seen:
                continue
            seen.add(id(n))
            if n is r:
                return True
            for m, lab in n.succ:
                if lab == "exc" or (id(n), lab) in cut:
                    continue
                work.append(m)
        return False

    for r in bare:
        fine = not reachable_otherwise(r)
        if not fine:
            # written bare only when the loader's own parser, run on the text right there, reads it back as this very string
            # (`probe(value) == value`, probe calling <Parser>.parse): a run-time round trip - whether the probe stands for the place
            # the text is written into is not decided here
            probe = False
            for t in cfg.find("test"):
                if not (cfg.dominates(t, r) and isinstance(t.ast, ast.Compare) and len(t.ast.ops) == 1 and isinstance(t.ast.ops[0], ast.Eq)):
                    continue
                sides = [t.ast.left, t.ast.comparators[0]]
                if any(isinstance(x, ast.Name) and x.id == vp for x in sides):
                    for x in sides:
                        if isinstance(x, ast.Call) and isinstance(x.func, ast.Name) and x.args and isinstance(x.args[0], ast.Name) and x.args[0].id == vp:
                            rr = idx.resolve(sv.module, x.func, sv)
                            if rr is not None and rr[0] == "func" and ".parse(" in K.src(getattr(rr[1], "node_orig", None) or rr[1].node):
                                probe = True
            if probe:
                _SOFT15.append("C15.b: `%s` (line %d) is written without quotes only when a parse of the text, made on the spot, gives the same string back; whether that probe is representative of where the text ends up is not decided" % (K.src(r.ast)[:30], r.line))
                continue
        con_b = "%s::bare-text@%d" % (ts.key, bare.index(r) + 1)
        ctx.ob("C15.b", con_b, K.rel(sv), r.line, fine, "the value is written as it is only for result references and for values that are not text" if fine else
               "`%s` writes a string that is not a result reference without quotes: the loader tokenises it again - identifiers and numbers are recognised first, blanks between tokens are dropped, numbers are re-spelled (`run 1/in.csv` comes back `run1/in.csv`, `007.csv` as `7.0csv`) - so the reloaded argument is another text" % K.src(r.ast)[:40])
    # ------------------------------------------------------------------ c
    allsrc = " ".join(K.src(f.node) for f in funcs)
    # nested lists: the element serialiser must itself recognise list values
    elem_handles_list = False
    elem_handles_wrapped = False
    # does the loader wrap a list inside a list as a ListArgument element?  (Program.from_source / its list helper)
    fsrc = prog.methods.get("from_source")
    loader_wraps = False
    if fsrc is not None:
        for g_ in [fsrc] + list(fsrc.nested.values()):
            for c_ in own_nodes(g_.node):
                if isinstance(c_, ast.Call) and K.src(c_.func).endswith("ListArgument") and len(c_.args) >= 2 and isinstance(c_.args[1], (ast.ListComp, ast.GeneratorExp)):
                    inner = [x for x in ast.walk(c_.args[1].elt) if isinstance(x, ast.Call) and (K.src(x.func).endswith("ListArgument") or (isinstance(x.func, ast.Name) and x.func.id == g_.name))]
                    if inner:
                        loader_wraps = True
    for f in funcs:
        for n in own_nodes(f.node):
            if isinstance(n, (ast.GeneratorExp, ast.ListComp)) and (K.src(n.generators[0].iter).endswith(".value") or isinstance(n.generators[0].iter, ast.Name)) and isinstance(n.elt, ast.Call) and isinstance(n.elt.func, ast.Name) and n.elt.func.id in byname:
                g = byname[n.elt.func.id]
                first = g.node.args.args[0].arg if g.node.args.args else None
                for m in own_nodes(g.node):
                    if isinstance(m, ast.Call) and isinstance(m.func, ast.Name) and m.func.id == "isinstance" and len(m.args) == 2 and isinstance(m.args[0], ast.Name) and m.args[0].id == first:
                        q = K.src(m.args[1])
                        if "ListArgument" in q or "list" in q:
                            elem_handles_list = True
                        if "Argument" in q:
                            elem_handles_wrapped = True
    if elem_handles_list and loader_wraps and not elem_handles_wrapped:
        ctx.violate("C15.c", "%s::nested-lists" % ts.key, rel, ts.node.lineno, "the loader stores a list inside a list as a ListArgument element, but the element serialiser only recognises plain lists: a nested list of a program loaded from source is printed with str() as `<mpilot.arguments.ListArgument object at 0x...>`, which reloads as an unquoted string")
    else:
        ctx.ob("C15.c", "%s::nested-lists" % ts.key, rel, ts.node.lineno, elem_handles_list,
               "list elements that are lists are serialised recursively" if elem_handles_list else
               "a list inside a list is printed with str(): a nested ListArgument loaded from source comes out as `<mpilot.arguments.ListArgument object at 0x...>`")
    # Command objects: some `isinstance(x, Command)` test returns `x.result_name`
    has_cmd = False
    for f in funcs:
        for n in own_nodes(f.node):
            if isinstance(n, ast.If) and isinstance(n.test, ast.Call) and isinstance(n.test.func, ast.Name) and n.test.func.id == "isinstance" and len(n.test.args) == 2 and isinstance(n.test.args[0], ast.Name):
                q = idx.qualname(f.module, n.test.args[1], f) or ""
                if q.endswith(".Command"):
                    v = n.test.args[0].id
                    if any(isinstance(x, ast.Return) and isinstance(x.value, ast.Attribute) and x.value.attr == "result_name" and isinstance(x.value.value, ast.Name) and x.value.value.id == v for b in n.body for x in ast.walk(b)):
                        has_cmd = True
    ctx.ob("C15.c", "%s::command-objects" % ts.key, rel, ts.node.lineno, has_cmd,
           "Command objects are written by result name" if has_cmd else "a Command object given as a reference (API-built program) is printed with str(), not by its result name")
    has_type = "valid_types" in allsrc
    ctx.ob("C15.c", "%s::type-objects" % ts.key, rel, ts.node.lineno, has_type,
           "type objects are written by their data-type name" if has_type else "a cleaned DataType value (a type object, API-built program) is printed as `<class 'float'>`, not as its table key")
    has_dict = False
    for f in funcs:
        for n in own_nodes(f.node):
            if isinstance(n, ast.Call) and isinstance(n.func, ast.Name) and n.func.id == "isinstance" and len(n.args) == 2 and K.src(n.args[1]) in ("dict", "(dict,)", "Mapping", "collections.abc.Mapping"):
                has_dict = True
            if isinstance(n, (ast.GeneratorExp, ast.ListComp)) and isinstance(n.generators[0].iter, ast.Call) and isinstance(n.generators[0].iter.func, ast.Attribute) and n.generators[0].iter.func.attr == "items":
                has_dict = has_dict or isinstance(n.generators[0].target, ast.Tuple)
    ctx.ob("C15.c", "%s::dicts" % ts.key, rel, ts.node.lineno, has_dict, "tuples (dicts) are written as key: value pairs" if has_dict else "dict values are not serialised as tuples")
    # ------------------------------------------------------------------ d
    table_attr = coverage_table_attr(idx)
    ok = False

    def _table_values(f, it):
        """`self.<table>.values()`, possibly under a name bound once, possibly copied with list() / tuple() (order kept)"""
        it = K.expand(f, it)
        while isinstance(it, ast.Call) and isinstance(it.func, ast.Name) and it.func.id in ("list", "tuple") and len(it.args) == 1 and not it.keywords:
            it = K.expand(f, it.args[0])
        return isinstance(it, ast.Call) and isinstance(it.func, ast.Attribute) and it.func.attr == "values" and isinstance(it.func.value, ast.Attribute) and it.func.value.attr == table_attr

    for f in funcs:
        for j in [n for n in own_nodes(f.node) if isinstance(n, ast.Call) and isinstance(n.func, ast.Attribute) and n.func.attr == "join" and n.args and isinstance(n.args[0], (ast.GeneratorExp, ast.ListComp))]:
            g = j.args[0].generators[0]
            it = g.iter
            if _table_values(f, it) and not g.ifs and len(j.args[0].generators) == 1:
                ok = True
        for lp in [n for n in own_nodes(f.node) if isinstance(n, ast.For)]:
            it = lp.iter
            if _table_values(f, it):
                # explicit loop: every iteration must emit (no continue / conditional skip at the top level of the body)
                if not any(isinstance(x, (ast.Continue, ast.Break)) for x in ast.walk(lp)) and not any(isinstance(st, ast.If) for st in lp.body):
                    ok = True
    ctx.ob("C15.d", "%s::command-order" % ts.key, rel, ts.node.lineno, ok, "commands emitted in table order, unfiltered" if ok else "commands are not emitted by an unfiltered walk of the command table in order")
    ok = False
    for f in funcs:
        for n in own_nodes(f.node):
            if isinstance(n, (ast.GeneratorExp, ast.ListComp)) and isinstance(n.generators[0].iter, ast.Attribute) and n.generators[0].iter.attr == "arguments" and _only_drops_unset(n.generators[0]) and len(n.generators) == 1 and isinstance(n.generators[0].target, ast.Name):
                e = n.elt
                tv = n.generators[0].target.id
                if isinstance(e, ast.Call) and isinstance(e.func, ast.Attribute) and e.func.attr == "format" and e.args and isinstance(e.args[0], ast.Attribute) and e.args[0].attr == "name" and isinstance(e.args[0].value, ast.Name) and e.args[0].value.id == tv:
                    ok = True
            if isinstance(n, ast.For) and isinstance(n.iter, ast.Attribute) and n.iter.attr == "arguments" and isinstance(n.target, ast.Name):
                tv = n.target.id
                emits = [c for c in ast.walk(n) if isinstance(c, ast.Call) and isinstance(c.func, ast.Attribute) and c.func.attr == "format" and c.args and isinstance(c.args[0], ast.Attribute) and c.args[0].attr == "name" and isinstance(c.args[0].value, ast.Name) and c.args[0].value.id == tv]
                if emits and not any(isinstance(x, (ast.Continue, ast.Break)) for x in ast.walk(n)) and not any(isinstance(st, ast.If) for st in n.body):
                    ok = True
    ctx.ob("C15.d", "%s::argument-order" % ts.key, rel, ts.node.lineno, ok, "arguments emitted in order under their own names" if ok else "arguments are not emitted in command.arguments order under their own names")
    from .C10 import actions_keep_values

    actions_keep_values(ctx, idx, L, "C15.b")
    from .C16 import parser_state
    ctx.rule("C15.e", "The loader's parser carries no state from one load to the next: every attribute a grammar action sets is reset by parse(), or a fresh Parser is built for each load.")
    parser_state(ctx, idx, "C15.e")
    ctx.rule("C15.h", "What the serialiser writes between quotes is what the lexer reads: from_source and Parser.parse hand the text on as it is (C10.i's reading). to_string writes string and metadata values literally between quotes, so a rewrite of the whole text on the way in (splitlines / join, replace, strip) changes the CR, form feed, NEL or U+2028 inside a value and the program loaded back differs from the one written.")
    from .C11 import text_reaches_lexer

    text_reaches_lexer(ctx, idx, "C15.h", "a string or metadata value holding such a character is written literally by to_string and comes back changed, so the reloaded program is not the one serialised")
    # result name and command name
    ok = False
    for f in funcs:
        for n in own_nodes(f.node):
            if isinstance(n, ast.Call) and isinstance(n.func, ast.Attribute) and n.func.attr == "format":
                attrs = [(a.value.id, a.attr) for a in n.args if isinstance(a, ast.Attribute) and isinstance(a.value, ast.Name)]
                for v in {b for b, _ in attrs}:
                    mine = [at for b, at in attrs if b == v]
                    if "result_name" in mine and "name" in mine and mine.index("result_name") < mine.index("name"):
                        ok = True
    ctx.ob("C15.d", "%s::heads" % ts.key, rel, ts.node.lineno, ok, "each command is written as result_name = name(...)" if ok else "a command is not written as `result_name = command name(...)`")
    if _und_j:
        raise AnalysisError(_und_j[0])
    if _SOFT15:
        raise AnalysisError(_SOFT15[0])
