"""C05 — results keep the input shape; cells are computed independently."""
import ast

from engine.arrays import Arr
from engine.index import own_nodes
from engine.report import AnalysisError

from . import arrayrules as R
from . import common as K


def _shape_term(e, var):
    """'exact' when `e` is the shape of `var` itself (`var.shape`, `numpy.shape(var)`, possibly inside tuple()/list());
    'projection' when it is computed from it (a slice, a filtered copy, the rank, the size): a weaker comparison; else None"""
    while isinstance(e, ast.Call) and isinstance(e.func, ast.Name) and e.func.id in ("tuple", "list") and len(e.args) == 1 and not e.keywords and not isinstance(e.args[0], (ast.GeneratorExp, ast.ListComp)):
        e = e.args[0]
    if isinstance(e, ast.Attribute) and e.attr == "shape" and isinstance(e.value, ast.Name) and e.value.id == var:
        return "exact"
    if isinstance(e, ast.Call) and isinstance(e.func, ast.Attribute) and e.func.attr == "shape" and len(e.args) == 1 and isinstance(e.args[0], ast.Name) and e.args[0].id == var:
        return "exact"
    for x in ast.walk(e):
        if isinstance(x, ast.Attribute) and x.attr in ("shape", "ndim", "size") and isinstance(x.value, ast.Name) and x.value.id == var:
            return "projection"
    return None


def check_validate(ctx, idx, rule="C05.c"):
    """validate_array_shapes raises when any two shapes differ; n-ary commands call it on the whole list before arithmetic."""
    mix = idx.cls("mpilot.libraries.eems.mixins", "SameArrayShapeMixin")
    fi = mix.methods.get("validate_array_shapes")
    if fi is None:
        raise AnalysisError("validate_array_shapes vanished")
    cfg = K.cfg_of(idx, fi)
    arg = fi.node.args.args[1].arg if len(fi.node.args.args) > 1 else None
    con = "%s::compares-every-shape" % fi.key
    raises = [n for n in cfg.find("raise") if (n.meta.get("qual") or "").endswith("MixedArrayShapes")]
    ok = False
    why = "no loop over all arrays comparing `.shape` with the first and raising MixedArrayShapes"
    for head in cfg.find("iter"):
        it = head.meta["iter"]
        tgt = head.meta["target"]
        if head.meta.get("comp") or not isinstance(tgt, ast.Name):
            continue
        whole = isinstance(it, ast.Name) and it.id == arg
        rest = isinstance(it, ast.Subscript) and isinstance(it.value, ast.Name) and it.value.id == arg and isinstance(it.slice, ast.Slice) and it.slice.upper is None and it.slice.step is None and (it.slice.lower is None or (isinstance(it.slice.lower, ast.Constant) and it.slice.lower.value in (0, 1)))
        if not (whole or rest):
            continue
        body = cfg.reachable([m for m, lab in head.succ if lab == "loop"], avoid={head})
        tests = [n for n in body if n.kind == "test" and isinstance(n.ast, ast.Compare) and any(isinstance(x, ast.Attribute) and x.attr == "shape" and isinstance(x.value, ast.Name) and x.value.id == tgt.id for x in ast.walk(K.expand(fi, n.ast)))]
        for t in tests:
            op = t.ast.ops[0]
            lab = "true" if isinstance(op, ast.NotEq) else "false" if isinstance(op, ast.Eq) else None
            if lab is None:
                continue
            te = K.expand(fi, t.ast)
            terms = [_shape_term(x_, tgt.id) for x_ in [te.left] + list(te.comparators)]
            if "projection" in terms and "exact" not in terms:
                weak = K.src([x_ for x_ in [te.left] + list(te.comparators) if _shape_term(x_, tgt.id) == "projection"][0])
                why = "the loop compares `%s`, a quantity computed from the shape, not the shapes themselves: arrays of different shapes (a column and a row, a grid and the same grid with an extra axis) pass the check and are broadcast against each other" % weak[:70]
                continue
            diff = [m for m, l in t.succ if l == lab]
            if diff and raises and all(cfg.must_pass_through(m, head, set(raises)) and cfg.must_pass_through(m, cfg.exit, set(raises)) for m in diff):
                # the loop must be reached whenever there are >= 2 arrays: early returns are allowed only for len <= 1
                ok = True
                why = "loop over %s compares each shape with the reference and raises MixedArrayShapes on a difference" % K.src(it)
            elif diff and raises:
                # form B: a difference is recorded in the loop (appended / stored) and MixedArrayShapes is raised after the
                # loop exactly when something was recorded
                recorded = set()
                for m in body:
                    if m.kind == "call" and isinstance(m.ast.func, ast.Attribute) and m.ast.func.attr in ("append", "add") and isinstance(m.ast.func.value, ast.Name):
                        if all(d_ is m or cfg.must_pass_through(d_, head, {m}) for d_ in diff):
                            recorded.add(m.ast.func.value.id)
                    if m.kind == "store" and m.meta.get("name") and all(d_ is m or cfg.must_pass_through(d_, head, {m}) for d_ in diff):
                        recorded.add(m.meta["name"])
                for t2 in cfg.find("test"):
                    if t2 in body or not any(cfg.dominates(t2, rz) for rz in raises):
                        continue
                    names2 = K.dep_names(fi, t2.ast)
                    if not (names2 & recorded):
                        continue
                    neg = isinstance(t2.ast, ast.Compare) and isinstance(t2.ast.ops[0], (ast.Is, ast.Eq)) or (isinstance(t2.ast, ast.UnaryOp) and isinstance(t2.ast.op, ast.Not))
                    side = [m for m, l in t2.succ if l == ("false" if neg else "true")]
                    if side and all(cfg.must_pass_through(m, cfg.exit, set(raises)) for m in side) and cfg.reachable([head]).__contains__(t2):
                        ok = True
                        why = "loop over %s records every shape that differs from the reference; MixedArrayShapes is raised afterwards whenever one was recorded" % K.src(it)
    if not ok and raises:
        # form C: the differing shapes are collected by a filtered comprehension over the whole list, and MixedArrayShapes is
        # raised afterwards exactly when the collection is not empty
        for n in own_nodes(fi.node):
            if not (isinstance(n, ast.Assign) and len(n.targets) == 1 and isinstance(n.targets[0], ast.Name) and isinstance(n.value, (ast.ListComp, ast.GeneratorExp)) and len(n.value.generators) == 1):
                continue
            g = n.value.generators[0]
            whole = (isinstance(g.iter, ast.Name) and g.iter.id == arg) or (isinstance(g.iter, ast.Subscript) and isinstance(g.iter.value, ast.Name) and g.iter.value.id == arg and isinstance(g.iter.slice, ast.Slice) and g.iter.slice.upper is None and (g.iter.slice.lower is None or (isinstance(g.iter.slice.lower, ast.Constant) and g.iter.slice.lower.value in (0, 1))))
            if not whole or len(g.ifs) != 1 or not isinstance(g.target, ast.Name):
                continue
            c0 = K.expand(fi, g.ifs[0])
            if not (isinstance(c0, ast.Compare) and len(c0.ops) == 1 and isinstance(c0.ops[0], ast.NotEq) and any(isinstance(x, ast.Attribute) and x.attr == "shape" and isinstance(x.value, ast.Name) and x.value.id == g.target.id for x in ast.walk(c0))):
                continue
            terms = [_shape_term(x_, g.target.id) for x_ in [c0.left] + list(c0.comparators)]
            if "projection" in terms and "exact" not in terms:
                why = "the shapes are compared through `%s`, a quantity computed from the shape, not the shapes themselves" % K.src(c0)[:70]
                continue
            recorded = {n.targets[0].id}
            for t2 in cfg.find("test"):
                if not any(cfg.dominates(t2, rz) for rz in raises):
                    continue
                if not (K.dep_names(fi, t2.ast) & recorded):
                    continue
                neg = isinstance(t2.ast, ast.Compare) and isinstance(t2.ast.ops[0], (ast.Is, ast.Eq)) or (isinstance(t2.ast, ast.UnaryOp) and isinstance(t2.ast.op, ast.Not))
                side = [m for m, l in t2.succ if l == ("false" if neg else "true")]
                if side and all(cfg.must_pass_through(m, cfg.exit, set(raises)) for m in side):
                    ok = True
                    why = "every shape that differs from the reference is collected from %s; MixedArrayShapes is raised whenever the collection is not empty" % K.src(g.iter)
    if not ok and raises:
        # form D: `first = next((a for a in arrays[1:] if a.shape != ref), None)` and MixedArrayShapes raised exactly when
        # `first is not None`.  (The truth value of what was found is not that test: an array of zeros is false, an array
        # of several cells has none, the shape of a 0-d array is the empty tuple.)
        for n in own_nodes(fi.node):
            if not (isinstance(n, ast.Assign) and len(n.targets) == 1 and isinstance(n.targets[0], ast.Name) and isinstance(n.value, ast.Call) and isinstance(n.value.func, ast.Name) and n.value.func.id == "next"
                    and len(n.value.args) == 2 and isinstance(n.value.args[1], ast.Constant) and n.value.args[1].value is None and isinstance(n.value.args[0], ast.GeneratorExp) and len(n.value.args[0].generators) == 1):
                continue
            g = n.value.args[0].generators[0]
            whole = (isinstance(g.iter, ast.Name) and g.iter.id == arg) or (isinstance(g.iter, ast.Subscript) and isinstance(g.iter.value, ast.Name) and g.iter.value.id == arg and isinstance(g.iter.slice, ast.Slice) and g.iter.slice.upper is None and g.iter.slice.step is None and (g.iter.slice.lower is None or (isinstance(g.iter.slice.lower, ast.Constant) and g.iter.slice.lower.value in (0, 1))))
            if not whole or len(g.ifs) != 1 or not isinstance(g.target, ast.Name):
                continue
            c0 = K.expand(fi, g.ifs[0])
            if not (isinstance(c0, ast.Compare) and len(c0.ops) == 1 and isinstance(c0.ops[0], ast.NotEq) and any(isinstance(x, ast.Attribute) and x.attr == "shape" and isinstance(x.value, ast.Name) and x.value.id == g.target.id for x in ast.walk(c0))):
                continue
            terms = [_shape_term(x_, g.target.id) for x_ in [c0.left] + list(c0.comparators)]
            if "projection" in terms and "exact" not in terms:
                why = "the shapes are compared through `%s`, a quantity computed from the shape, not the shapes themselves" % K.src(c0)[:70]
                continue
            found = n.targets[0].id
            for t2 in cfg.find("test"):
                a2 = t2.ast
                if not (isinstance(a2, ast.Compare) and len(a2.ops) == 1 and isinstance(a2.ops[0], (ast.Is, ast.IsNot)) and isinstance(a2.left, ast.Name) and a2.left.id == found
                        and isinstance(a2.comparators[0], ast.Constant) and a2.comparators[0].value is None):
                    if isinstance(a2, ast.Name) and a2.id == found or (isinstance(a2, ast.UnaryOp) and isinstance(a2.operand, ast.Name) and a2.operand.id == found):
                        why = "the array found by `next(...)` is tested for truth (`%s`), not for being there: an array of zeros counts as no mismatch, an array of several cells has no truth value" % K.src(a2)
                    continue
                side = [m for m, l in t2.succ if l == ("true" if isinstance(a2.ops[0], ast.IsNot) else "false")]
                if side and all(cfg.must_pass_through(m, cfg.exit, set(raises)) for m in side):
                    ok = True
                    why = "the first shape that differs from the reference is looked for in %s; MixedArrayShapes is raised whenever one is found" % K.src(g.iter)
    # the early `return` for short lists must not exceed one element
    for t in cfg.find("test"):
        s = K.src(t.ast)
        if s.startswith("len(") and isinstance(t.ast, ast.Compare) and isinstance(t.ast.comparators[0], ast.Constant):
            c = t.ast.comparators[0].value
            op = t.ast.ops[0]
            trues = [m for m, l in t.succ if l == "true"]
            returns_early = any(m.kind == "return" or (cfg.exit in cfg.reachable(m, avoid=set(raises) | set(cfg.find("iter")))) for m in trues)
            limit = c if isinstance(op, (ast.Eq, ast.LtE)) else c - 1 if isinstance(op, ast.Lt) else None
            if returns_early and limit is not None and limit > 1:
                ok = False
                why = "validate_array_shapes returns early for lists of up to %d arrays without comparing their shapes" % limit
    ctx.ob(rule, con, K.rel(fi), fi.node.lineno, ok, why)
    # empty list -> EmptyInputs before indexing
    empties = [n for n in cfg.find("raise") if (n.meta.get("qual") or "").endswith("EmptyInputs")]
    subs = [n for n in cfg.find("sub") if isinstance(n.ast.value, ast.Name) and n.ast.value.id == arg]
    ok2 = bool(empties) and all(not (cfg.reachable(cfg.entry, avoid=set(empties) | {t for t in cfg.find("test") if False}) and False) for _ in [0])
    if empties:
        # every index of the list must be unreachable on the "list is empty" outcome
        t = [n for n in cfg.find("test") if isinstance(n.ast, ast.Name) and n.ast.id == arg or K.src(n.ast) in ("len(%s) == 0" % arg, "len(%s)" % arg)]
        ok2 = bool(t) and all(cfg.dominates(t[0], s) for s in subs)
    ctx.ob(rule, "%s::empty-list" % fi.key, K.rel(fi), fi.node.lineno, ok2,
           "an empty list raises EmptyInputs before the list is indexed" if ok2 else "an empty input list is not rejected with EmptyInputs before `%s[0]` is evaluated" % arg)
    return fi


def _rebuilt_before_validation(idx, rule, ctx):
    """Read on the control-flow graph, before the array analyser is consulted: the list handed to validate_array_shapes is the
    list of ALL input arrays as first built (`[c.result for c in kwargs[...]]`), not a list some helper or filter rebuilt on the
    way (layers dropped there - a zero weight, an empty layer - escape the same-shape check).  Returns the keys it reported."""
    reported = set()
    for d in K.table(idx):
        fi = d.execute
        if fi is None or fi.cls.name == "Command" or not (d.is_data() or d.cls.name == "EEMSWrite"):
            continue
        lists = [nm for nm, (k, _) in d.ref_inputs().items() if k == "cmdlist"]
        if not lists:
            continue
        cfg = K.cfg_of(idx, fi)
        sn = K.self_name(fi)
        calls = cfg.find("call", lambda c: K.is_self_call(c.ast, "validate_array_shapes", sn))
        if not calls:
            continue
        rd = cfg.reaching_defs()
        kwn = fi.node.args.kwarg.arg if fi.node.args.kwarg else None

        def provenance(e, at, depth=0):
            """True: the list of all inputs as first built; (False, culprit): filtered / rebuilt on the way; None: not followed"""
            if depth > 6 or e is None:
                return None
            if isinstance(e, ast.Subscript) and isinstance(e.value, ast.Name) and e.value.id == kwn and isinstance(e.slice, ast.Constant) and e.slice.value in lists:
                return True
            if isinstance(e, (ast.ListComp, ast.GeneratorExp)) and len(e.generators) == 1:
                g = e.generators[0]
                if g.ifs:
                    return (False, e)
                return provenance(g.iter, at, depth + 1)
            if isinstance(e, ast.Call) and isinstance(e.func, ast.Name) and e.func.id in ("list", "tuple", "zip", "enumerate", "reversed") and e.args:
                return provenance(e.args[0], at, depth + 1)
            if isinstance(e, ast.Name):
                defs = [dn for dn in rd.get(at, {}).get(e.id, frozenset())]
                if not defs or any(dn == "param" or dn.kind != "store" for dn in defs):
                    return None
                out = True
                for dn in defs:
                    v = dn.meta.get("value")
                    stmt = dn.ast
                    if v is None and not isinstance(stmt, ast.Assign):
                        # a target inside a tuple-unpacking assignment: find the statement it belongs to
                        stmt = next((a_ for a_ in own_nodes(fi.node) if isinstance(a_, ast.Assign) and any(dn.ast is y_ for t_ in a_.targets for y_ in ast.walk(t_))), None)
                    if v is None and isinstance(stmt, ast.Assign) and isinstance(stmt.value, ast.Tuple) and len(stmt.targets) == 1 and isinstance(stmt.targets[0], ast.Tuple) \
                            and len(stmt.targets[0].elts) == len(stmt.value.elts):
                        pos = [i for i, t in enumerate(stmt.targets[0].elts) if isinstance(t, ast.Name) and t.id == e.id]
                        v = stmt.value.elts[pos[0]] if pos else None
                    if v is None and isinstance(stmt, ast.Assign) and isinstance(stmt.value, ast.Call):
                        return (False, stmt.value)  # rebuilt by a call the list was handed to
                    pr = provenance(v, dn, depth + 1)
                    if pr is None:
                        return None
                    if pr is not True:
                        return pr
                return out
            if isinstance(e, ast.Call):
                return (False, e) if any(isinstance(a, ast.Name) for a in e.args) else None
            return None

        for c in calls:
            a0 = c.ast.args[0] if c.ast.args else None
            if not isinstance(a0, ast.Name):
                continue
            pr = provenance(a0, c)
            if isinstance(pr, tuple):
                con = "%s.execute::shapes-validated" % d.key
                ctx.violate(rule, con, d.module.rel, c.line, "validate_array_shapes is given `%s` after the list of inputs was filtered / rebuilt by `%s`: inputs dropped there never have their shape compared, so layers of different shapes are accepted and the result takes the shape of only some of them" % (a0.id, K.src(pr[1])[:70]))
                reported.add(d.key)
    return reported


def check_validate_callers(ctx, idx, rule):
    """every command with a list-of-results input calls validate_array_shapes on the whole list before arithmetic"""
    n = 0
    early = _rebuilt_before_validation(idx, rule, ctx)
    for key, (d, r) in sorted(R.results(idx).items()):
        if key in early:
            n += 1
            continue
        lists = [nm for nm, (k, _) in d.ref_inputs().items() if k == "cmdlist"]
        pair = [nm for nm, (k, _) in d.ref_inputs().items() if k == "cmd"]
        if not d.is_data() and d.cls.name != "EEMSWrite":
            continue
        if not lists and len(pair) < 2:
            continue
        n += 1
        fi = d.execute
        cfg = K.cfg_of(idx, fi)
        sn = K.self_name(fi)
        calls = cfg.find("call", lambda c: K.is_self_call(c.ast, "validate_array_shapes", sn))
        con = "%s.execute::shapes-validated" % d.key
        if not calls:
            ctx.violate(rule, con, d.module.rel, fi.node.lineno, "%s combines several arrays but never calls validate_array_shapes: mismatched shapes broadcast or fail with a numpy error instead of MixedArrayShapes" % d.cls.name)
            continue
        whole = False
        for line, arg, node, fk in r.validates:
            from engine.arrays import Lst
            if isinstance(arg, Lst) and arg.what == "arrs" and arg.part == "all" and arg.L in lists:
                whole = True
            if isinstance(arg, Lst) and arg.items is not None and len(arg.items) >= len(pair) and pair:
                whole = True
        if not whole:
            ctx.violate(rule, con, d.module.rel, calls[0].line, "validate_array_shapes is not given the whole list of input arrays: %s" % calls[0].text())
            continue
        # dominance: before the first arithmetic/aug/stack use of the arrays
        uses = cfg.find(("aug",)) + cfg.find("call", lambda c: (c.meta.get("qual") or "").startswith(("numpy.", "functools.reduce", "builtins.sum")) and c not in calls)
        late = [u for u in uses if u in cfg.reachable() and not any(cfg.dominates(c, u) for c in calls) and not any(u.line == c.line for c in calls)]
        binops = [nd for nd in ast.walk(fi.node) if isinstance(nd, ast.BinOp)]
        if late:
            ctx.violate(rule, con, d.module.rel, late[0].line, "`%s` can run before validate_array_shapes: mismatched shapes reach numpy first" % late[0].text())
        else:
            ctx.hold(rule, con, d.module.rel, calls[0].line, "whole input list validated before %d array operation site(s)" % len(uses))
    ctx.floor(rule, "n-ary commands", n, 14)


def run(ctx, idx):
    ctx.assume("numpy axioms A10-A12 (vstack vs stack, layer-axis sort/index/mean) and A9 (boolean selection)")
    ctx.rule("C05.a", "Every normal return of a data command has abstract shape Same for inputs of any rank; stacked values are consumed only by layer-axis operations.")
    ctx.rule("C05.b", "Data-shaped values are touched only by pointwise, symmetric-scalar or layer-axis operations; positional indexing, reshapes, transposes, sorts and reductions along data axes are violations.")
    ctx.rule("C05.c", "validate_array_shapes raises when any two shapes differ (and EmptyInputs on an empty list); every n-ary command calls it on the whole list before the first array operation.")
    # the shape precondition is read off the callers' control flow: decided before the array analyser is consulted
    check_validate(ctx, idx, "C05.c")
    check_validate_callers(ctx, idx, "C05.c")
    n_ret = 0
    for d, r in R.data_commands(idx):
        for n, s, v in R.ret_sites(d, r):
            n_ret += 1
            con = R.ret_key(d, n)
            if not isinstance(v, Arr):
                continue
            if v.shape == "same":
                ctx.hold("C05.a", con, d.module.rel, R.line_of(s), "shape Same")
            else:
                shape_f = [f for f in r.findings if f[0] == "shape"]
                why = "returned value has abstract shape `%s`, not the shape of the inputs" % v.shape
                if shape_f:
                    why += " — " + shape_f[0][2]
                ctx.violate("C05.a", con, d.module.rel, shape_f[0][1] if shape_f else R.line_of(s), why)
        seen = set()
        for kind, line, msg, fk, node in r.findings:
            if kind != "equivariance":
                continue
            con = "%s.execute::positional@%s" % (d.key, K.src(node)[:60])
            if con in seen:
                continue
            seen.add(con)
            ctx.violate("C05.b", con, d.module.rel, line, msg)
        if not any(f[0] == "equivariance" for f in r.findings):
            ctx.hold("C05.b", "%s.execute::equivariant" % d.key, d.module.rel, d.execute.node.lineno, "only pointwise / symmetric-scalar / layer-axis operations")
    ctx.floor("C05.a", "return sites of data commands", n_ret, 30)
