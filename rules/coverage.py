"""Shape analyses shared by C01 and C14: pull completeness of execute bodies, start coverage of Program.run,
totality of ListParameter.clean."""
import ast

from engine.cfg import self_attr
from engine.index import own_nodes
from engine.report import AnalysisError

from . import common as K


# ---------------------------------------------------------------------------------------------- pull completeness
def _kw_name(fi):
    a = fi.node.args
    return a.kwarg.arg if a.kwarg is not None else None


def _direct_ref(expr, kw, p, params):
    """`kwargs["p"]`, `kwargs.get("p")`, or the explicit parameter `p`"""
    if isinstance(expr, ast.Subscript) and isinstance(expr.value, ast.Name) and expr.value.id == kw:
        return isinstance(expr.slice, ast.Constant) and expr.slice.value == p
    if (
        isinstance(expr, ast.Call)
        and isinstance(expr.func, ast.Attribute)
        and expr.func.attr in ("get", "pop")
        and isinstance(expr.func.value, ast.Name)
        and expr.func.value.id == kw
        and expr.args
        and isinstance(expr.args[0], ast.Constant)
        and expr.args[0].value == p
    ):
        return True
    if isinstance(expr, ast.Name) and expr.id == p and p in params:
        return True
    return False


def _aliases(fi, kw, p, params):
    """local names that only ever hold the cleaned value of input p"""
    assigned = {}
    for n in own_nodes(fi.node):
        if isinstance(n, ast.Assign):
            for t in n.targets:
                for x in ast.walk(t):
                    if isinstance(x, ast.Name) and isinstance(x.ctx, ast.Store):
                        assigned.setdefault(x.id, []).append(n.value if isinstance(t, ast.Name) else None)
        elif isinstance(n, (ast.For, ast.comprehension)):
            for x in ast.walk(n.target):
                if isinstance(x, ast.Name):
                    assigned.setdefault(x.id, []).append(None)
        elif isinstance(n, ast.AugAssign) and isinstance(n.target, ast.Name):
            assigned.setdefault(n.target.id, []).append(None)
    out = set()
    for nm, vals in assigned.items():
        if vals and all(v is not None and _direct_ref(v, kw, p, params) for v in vals):
            out.add(nm)
    return out


def _kw_copies(fi, kw):
    """local names bound to (copies of) the keyword-argument mapping"""
    out = set()
    changed = True
    while changed:
        changed = False
        for n in own_nodes(fi.node):
            if isinstance(n, ast.Assign) and len(n.targets) == 1 and isinstance(n.targets[0], ast.Name) and n.targets[0].id not in out and n.targets[0].id != kw:
                v = n.value
                src_ = None
                if isinstance(v, ast.Name):
                    src_ = v.id
                elif isinstance(v, ast.Call) and K.src(v.func) in ("dict", "copy.copy", "copy") and v.args and isinstance(v.args[0], ast.Name):
                    src_ = v.args[0].id
                elif isinstance(v, ast.Call) and isinstance(v.func, ast.Attribute) and v.func.attr == "copy" and isinstance(v.func.value, ast.Name):
                    src_ = v.func.value.id
                if src_ is not None and (src_ == kw or src_ in out):
                    out.add(n.targets[0].id)
                    changed = True
    return out


def _pull_helpers(idx, fi):
    """{name: {positions}} of the functions defined inside `fi` (or at the top of its module) that read `.result` of a
    positional parameter on every path from their entry to any exit, a handler's included (the read is the first thing evaluated)"""
    out = {}
    for f in idx.funcs:
        if not (f.parent is fi or (f.parent is None and f.module is fi.module and getattr(f, "cls", None) is None)):
            continue
        if f is fi or f.node.args.vararg or f.node.args.kwarg:
            continue
        try:
            c = K.cfg_of(idx, f)
        except Exception:
            continue
        for i, a in enumerate(f.node.args.args):
            lo = set(c.find("load", lambda n: n.meta.get("attr") == "result" and isinstance(n.ast.value, ast.Name) and n.ast.value.id == a.arg))
            rebound = [n for n in own_nodes(f.node) if isinstance(n, ast.Name) and isinstance(n.ctx, ast.Store) and n.id == a.arg]
            if lo and not rebound and c.must_pass_through(c.entry, c.exit, lo):
                out.setdefault(f.name, set()).add(i)
    return out


def pulls(idx, cls, fi, p, kind, depth=0):
    """Does `fi` (the effective execute of `cls`) take `.result` of input p on every path to its normal exit?"""
    cfg = K.cfg_of(idx, fi)
    kw = _kw_name(fi)
    params = {a.arg for a in fi.node.args.args[1:]} | {a.arg for a in fi.node.args.kwonlyargs}
    al = _aliases(fi, kw, p, params)

    def is_ref(e):
        return _direct_ref(e, kw, p, params) or (isinstance(e, ast.Name) and e.id in al)

    nodes = set()
    partial = []
    if kind == "cmd":
        for n in cfg.find("load", lambda n: n.meta.get("attr") == "result"):
            if is_ref(n.ast.value):
                nodes.add(n)
    else:
        for head in cfg.find("iter"):
            it = head.meta["iter"]
            tgt = head.meta["target"]
            if not is_ref(it):
                # sliced / filtered / wrapped iteration over the list: noted, not counted
                if any(is_ref(x) for x in ast.walk(it)) and not isinstance(it, ast.Name):
                    partial.append((head, "iterates over `%s`, not the whole list" % K.src(it)))
                continue
            if head.meta.get("comp"):
                gens = [g for g in head.ast.generators if g.iter is it]
                if gens and gens[0].ifs:
                    partial.append((head, "comprehension over `%s` is filtered" % K.src(it)))
                    continue
            if not isinstance(tgt, ast.Name):
                continue
            loads = set(cfg.find("load", lambda n: n.meta.get("attr") == "result" and isinstance(n.ast.value, ast.Name) and n.ast.value.id == tgt.id))
            # the element handed to a local helper that takes `.result` of that parameter on every path through it
            ph = _pull_helpers(idx, fi)
            loads |= set(cfg.find("call", lambda n: isinstance(n.ast.func, ast.Name) and n.ast.func.id in ph and not n.ast.keywords
                                  and any(isinstance(a_, ast.Name) and a_.id == tgt.id and i_ in ph[n.ast.func.id] for i_, a_ in enumerate(n.ast.args))))
            firsts = [m for m, lab in head.succ if lab == "loop"]
            if loads and all(cfg.must_pass_through(b, head, loads) for b in firsts):
                nodes.add(head)
            elif loads:
                partial.append((head, "loop body can skip `%s.result`" % tgt.id))
    # delegation to the base class body
    for c in cfg.find("call", lambda n: K.is_super_call(n.ast, "execute")):
        call = c.ast
        forwarded = False

        def unwrap(e):
            """the name of the mapping `e` forwards the caller's arguments from: dict(D, **kw), dict(kw, a=1), copy.copy(kw), kw.copy()"""
            if isinstance(e, ast.Name):
                return e
            if isinstance(e, ast.Call):
                fn = K.src(e.func)
                if fn in ("dict", "copy.copy", "copy", "OrderedDict", "collections.OrderedDict"):
                    if any(kk.arg == p and not is_ref(kk.value) for kk in e.keywords):
                        return None  # the input is replaced by something else
                    for cand_ in [kk.value for kk in e.keywords if kk.arg is None] + list(e.args):
                        u = unwrap(cand_)
                        if u is not None and (u.id == kw or u.id in _kw_copies(fi, kw)):
                            return u
                    return None
                if isinstance(e.func, ast.Attribute) and e.func.attr == "copy" and not e.args:
                    return unwrap(e.func.value)
            return None

        for k in call.keywords:
            kv = unwrap(k.value) if k.arg is None else None
            if k.arg is None and kv is not None:
                forwarded = True
                fwd = kv.id
                for n in own_nodes(fi.node):
                    if isinstance(n, ast.Delete):
                        for t in n.targets:
                            if isinstance(t, ast.Subscript) and isinstance(t.value, ast.Name) and t.value.id == fwd and isinstance(t.slice, ast.Constant) and t.slice.value == p:
                                forwarded = False
                    if isinstance(n, ast.Call) and isinstance(n.func, ast.Attribute) and n.func.attr == "pop" and isinstance(n.func.value, ast.Name) and n.func.value.id == fwd and n.args and isinstance(n.args[0], ast.Constant) and n.args[0].value == p:
                        forwarded = False
                    if isinstance(n, ast.Assign):
                        for t in n.targets:
                            if isinstance(t, ast.Subscript) and isinstance(t.value, ast.Name) and t.value.id == fwd and isinstance(t.slice, ast.Constant) and t.slice.value == p:
                                forwarded = False  # replaced by something else
            elif k.arg == p and is_ref(k.value):
                forwarded = True
        if not forwarded or depth >= 3:
            continue
        base = idx.find_method(cls, "execute", after=fi.cls)
        if base is None or base.cls.name == "Command":
            continue
        ok, _, _ = pulls(idx, cls, base, p, kind, depth + 1)
        if ok:
            nodes.add(c)
    line = fi.node.lineno
    if not nodes:
        why = "input `%s` is declared a result reference but %s never takes `.result` of %s" % (
            p, fi.qualname, "it" if kind == "cmd" else "every element")
        if partial:
            why += " (" + "; ".join(w for _, w in partial) + ")"
            line = partial[0][0].line
        return False, why, line
    if cfg.must_pass_through(cfg.entry, cfg.exit, nodes):
        first = sorted(nodes, key=lambda n: n.line or 0)[0]
        return True, "`%s` pulled on every path to the normal exit (%d site(s), first: %s)" % (p, len(nodes), first.text()), first.line
    return False, "a path reaches the normal exit of %s without taking `.result` of input `%s`" % (fi.qualname, p), line


# ---------------------------------------------------------------------------------------------- Program.run coverage
class Cover(object):
    def __init__(self, kind, text, line, problems=None):
        self.kind = kind  # unfiltered | filtered-ok | bad | unknown
        self.text = text
        self.line = line
        self.problems = problems or []


def command_table_attr(idx, A):
    """the Program attribute holding {result_name: command}: the one add_command subscript-stores into"""
    add = A.program.methods.get("add_command")
    if add is None:
        raise AnalysisError("Program.add_command vanished")
    sn = K.self_name(add)
    for n in own_nodes(add.node):
        if isinstance(n, ast.Assign):
            for t in n.targets:
                if isinstance(t, ast.Subscript) and self_attr(t.value, sn):
                    return self_attr(t.value, sn)
    raise AnalysisError("cannot find the command-table store in Program.add_command")


def load_time_queries(idx, A):
    """By-name consultations of the command table (`k in table`, `table[k]`, `table.get(k)`) in what loading reaches
    (from_source / add_command), other than on the name the new command is stored under.  -> [(fi, node, key source)]"""
    attr = command_table_attr(idx, A)
    prog = A.program
    starts = [prog.methods[m] for m in ("from_source", "add_command") if m in prog.methods]
    reach, _parent = idx.reachable(starts)
    out = []
    n_seen = 0
    for fi in reach:
        if fi.module.name.startswith("mpilot.parser") or not hasattr(fi, "node"):
            continue
        own_keys = set()
        for n in own_nodes(fi.node):
            if isinstance(n, ast.Subscript) and isinstance(n.ctx, ast.Store) and isinstance(n.value, ast.Attribute) and n.value.attr == attr:
                own_keys.add(K.src(K.expand(fi, n.slice)))
        for n in own_nodes(fi.node):
            key = None
            if isinstance(n, ast.Compare) and len(n.ops) == 1 and isinstance(n.ops[0], (ast.In, ast.NotIn)):
                c = n.comparators[0]
                if isinstance(c, ast.Call) and isinstance(c.func, ast.Attribute) and c.func.attr == "keys" and not c.args:
                    c = c.func.value
                if isinstance(c, ast.Attribute) and c.attr == attr:
                    key = n.left
            elif isinstance(n, ast.Subscript) and isinstance(n.ctx, ast.Load) and isinstance(n.value, ast.Attribute) and n.value.attr == attr and not isinstance(n.slice, ast.Constant):
                key = n.slice
            elif isinstance(n, ast.Call) and isinstance(n.func, ast.Attribute) and n.func.attr in ("get", "__contains__", "__getitem__") and isinstance(n.func.value, ast.Attribute) and n.func.value.attr == attr and n.args:
                key = n.args[0]
            if key is None:
                continue
            n_seen += 1
            if K.src(K.expand(fi, key)) in own_keys or K.src(key) in own_keys:
                continue
            if _after_loading_loop(fi, n) or _miss_changes_nothing(idx, fi, n):
                continue
            out.append((fi, n, K.src(key)))
    return out, n_seen


def _after_loading_loop(fi, site):
    """the site lies after the loop that adds the commands (every command is in the table by then: no order dependence)"""
    loops = [lp for lp in own_nodes(fi.node) if isinstance(lp, ast.For) and any(isinstance(c, ast.Call) and isinstance(c.func, ast.Attribute) and c.func.attr == "add_command" for st in lp.body for c in ast.walk(st))]
    if not loops:
        return False
    inside = any(site is x for lp in loops for x in ast.walk(lp))
    return not inside and all(getattr(site, "lineno", 0) > (lp.end_lineno or lp.lineno) for lp in loops)


def _miss_changes_nothing(idx, fi, site):
    """The lookup only adds behaviour when the name is already there: within one pass of the enclosing loop no raise is reachable
    from the 'not found' outcome that is not also reachable from the 'found' outcome.  Decided for `k in table` / `k not in table`
    tests and for `v = table.get(k)` followed by a test of v; anything else is treated as order dependent."""
    cfg = K.cfg_of(idx, fi)
    heads = set(cfg.find("iter"))

    def raises_from(nodes):
        nodes = [x for x in nodes if x not in heads]
        if not nodes:
            return set()
        return {r for r in cfg.reachable(nodes, avoid=heads) if r.kind == "raise"}

    def decided(test, miss_label):
        miss = [m for m, l in test.succ if l == miss_label]
        hit = [m for m, l in test.succ if l != miss_label and l in ("true", "false")]
        if not miss or not hit:
            return False
        return not (raises_from(miss) - raises_from(hit))

    if isinstance(site, ast.Compare):
        ts = [t for t in cfg.find("test") if t.ast is site]
        if not ts:
            return False
        return all(decided(t, "true" if isinstance(site.ops[0], ast.NotIn) else "false") for t in ts)
    if isinstance(site, ast.Call):
        # v = table.get(k)
        tgt = None
        for st in own_nodes(fi.node):
            if isinstance(st, ast.Assign) and st.value is site and len(st.targets) == 1 and isinstance(st.targets[0], ast.Name):
                tgt = st.targets[0].id
        if tgt is None:
            return False
        tests = []
        for t in cfg.find("test"):
            e = t.ast
            label = None
            if isinstance(e, ast.Call) and isinstance(e.func, ast.Name) and e.func.id == "isinstance" and e.args and isinstance(e.args[0], ast.Name) and e.args[0].id == tgt:
                label = "false"
            elif isinstance(e, ast.Compare) and len(e.ops) == 1 and isinstance(e.left, ast.Name) and e.left.id == tgt and isinstance(e.comparators[0], ast.Constant) and e.comparators[0].value is None:
                label = "true" if isinstance(e.ops[0], (ast.Is, ast.Eq)) else "false"
            elif isinstance(e, ast.Name) and e.id == tgt:
                label = "false"
            if label is not None and getattr(e, "lineno", 0) >= site.lineno:
                tests.append((t, label))
        if not tests:
            return False
        # every other read of v must sit behind one of those tests' found-branch
        return all(decided(t, lab) for t, lab in tests)
    return False


def _table_iter(expr, sn, attr):
    """`self.commands.values()` -> 'values'; `.items()` -> 'items'; `self.commands` / `.keys()` -> 'keys'; else None.
    Also looks through list(...), tuple(...), sorted(...), reversed(...)."""
    while isinstance(expr, ast.Call) and isinstance(expr.func, ast.Name) and expr.func.id in ("list", "tuple", "sorted", "reversed", "iter") and len(expr.args) == 1:
        expr = expr.args[0]
    if self_attr(expr, sn) == attr:
        return "keys"
    if isinstance(expr, ast.Call) and isinstance(expr.func, ast.Attribute) and not expr.args and self_attr(expr.func.value, sn) == attr:
        if expr.func.attr in ("values", "items", "keys"):
            return expr.func.attr
    return None


def _loop_var(tgt, mode):
    if mode == "items" and isinstance(tgt, (ast.Tuple, ast.List)) and len(tgt.elts) == 2 and isinstance(tgt.elts[1], ast.Name):
        return tgt.elts[1].id
    if mode == "values" and isinstance(tgt, ast.Name):
        return tgt.id
    return None


def _starts(cfg, var, flag=None):
    out = set(cfg.find("call", lambda n: isinstance(n.ast.func, ast.Attribute) and n.ast.func.attr == "run" and isinstance(n.ast.func.value, ast.Name) and n.ast.func.value.id == var and not n.ast.args))
    out |= set(cfg.find("load", lambda n: n.meta.get("attr") == "result" and isinstance(n.ast.value, ast.Name) and n.ast.value.id == var))
    return out


def coverage_loops(idx, A):
    """All loops of Program.run over the command table, classified."""
    fi = A.program_run
    sn = K.self_name(fi)
    cfg = K.cfg_of(idx, fi)
    attr = command_table_attr(idx, A)
    loops = []
    for head in cfg.find("iter"):
        if head.meta.get("comp"):
            continue
        it = head.meta["iter"]
        if isinstance(it, ast.Name):
            # `leaves = [c for c in table if ...]` first, then `for c in leaves:`
            d0 = K.single_defs(fi).get(it.id)
            if isinstance(d0, (ast.ListComp, ast.GeneratorExp)) or (d0 is not None and _table_iter(d0, sn, attr)):
                it = d0
            elif isinstance(d0, ast.Call) and isinstance(d0.func, ast.Name) and d0.func.id in ("list", "tuple") and len(d0.args) == 1:
                it = d0.args[0]
        tgt = head.meta["target"]
        mode = _table_iter(it, sn, attr)
        filt = None
        if mode is None and isinstance(it, (ast.GeneratorExp, ast.ListComp)) and len(it.generators) == 1:
            g = it.generators[0]
            m2 = _table_iter(g.iter, sn, attr)
            v2 = _loop_var(g.target, m2) if m2 else None
            if v2 and isinstance(it.elt, ast.Name) and it.elt.id == v2:
                mode = "values"
                filt = (g.ifs, v2)

                def _unfinished_only(c):
                    # `not <var>.<finished flag>`: leaves out only commands with nothing left to start (the flag is never reset)
                    return isinstance(c, ast.UnaryOp) and isinstance(c.op, ast.Not) and isinstance(c.operand, ast.Attribute) and c.operand.attr == A.flag \
                        and isinstance(c.operand.value, ast.Name) and c.operand.value.id == v2
                if g.ifs and all(_unfinished_only(c) for c in g.ifs):
                    filt = None
        if mode is None:
            continue
        var = _loop_var(tgt, mode)
        if var is None:
            continue
        firsts = [m for m, lab in head.succ if lab == "loop"]
        body_nodes = cfg.reachable(firsts, avoid={head})
        starts = {s for s in _starts(cfg, var) if s in body_nodes}
        covered = set(starts)
        for t in cfg.find("test"):
            if t in body_nodes and isinstance(t.ast, ast.Attribute) and t.ast.attr == A.flag and isinstance(t.ast.value, ast.Name) and t.ast.value.id == var:
                covered |= {m for m, lab in t.succ if lab == "true"}  # already finished: nothing to start
        every = bool(starts) and all(cfg.must_pass_through(b, head, covered) for b in firsts)
        on_all = cfg.must_pass_through(cfg.entry, cfg.exit, {head})
        if not on_all and filt is None:
            # the loop may be skipped when a test has just found every command finished: `all(c.<flag> for c in <table>)` true,
            # or `any(not c.<flag> for c in <table>)` false - nothing is left to start on that edge
            def _all_finished_edge(t):
                e = t.ast
                if not (isinstance(e, ast.Call) and isinstance(e.func, ast.Name) and e.func.id in ("all", "any") and len(e.args) == 1 and isinstance(e.args[0], (ast.GeneratorExp, ast.ListComp))
                        and len(e.args[0].generators) == 1 and not e.args[0].generators[0].ifs):
                    return None
                g = e.args[0].generators[0]
                m_ = _table_iter(g.iter, sn, attr)
                v_ = _loop_var(g.target, m_) if m_ else None
                el = e.args[0].elt
                neg = False
                while isinstance(el, ast.UnaryOp) and isinstance(el.op, ast.Not):
                    neg = not neg
                    el = el.operand
                if e.func.id == "all" and not neg and isinstance(el, ast.BoolOp) and isinstance(el.op, ast.And):
                    # all(A and c.<flag> and B ...): true only if every command is finished, whatever else is asked
                    for conj in el.values:
                        if isinstance(conj, ast.Attribute) and conj.attr == A.flag and isinstance(conj.value, ast.Name) and conj.value.id == v_:
                            el = conj
                            break
                if not (v_ and isinstance(el, ast.Attribute) and el.attr == A.flag and isinstance(el.value, ast.Name) and el.value.id == v_):
                    return None
                if e.func.id == "all" and not neg:
                    return "true"
                if e.func.id == "any" and neg:
                    return "false"
                return None
            skip = {t: _all_finished_edge(t) for t in cfg.find("test")}
            # ... or when a flag of the program says so that provably means it: `self.<F>` is false only in the constructor (no
            # commands yet) and after a complete pass of this very loop, and every method that puts a command into the table sets it
            inv = _nothing_to_do_flags(idx, A, cfg, head, sn, attr) if every else set()
            for t in cfg.find("test"):
                e_ = t.ast
                neg_ = False
                while isinstance(e_, ast.UnaryOp) and isinstance(e_.op, ast.Not):
                    neg_ = not neg_
                    e_ = e_.operand
                if isinstance(e_, ast.Attribute) and isinstance(e_.value, ast.Name) and e_.value.id == sn and e_.attr in inv and skip.get(t) is None:
                    skip[t] = "true" if neg_ else "false"
            seen_, work_ = set(), [cfg.entry]
            while work_:
                x_ = work_.pop()
                if x_ in seen_ or x_ is head:
                    continue
                seen_.add(x_)
                for m_, lab_ in x_.succ:
                    if skip.get(x_) is not None and lab_ == skip[x_]:
                        continue
                    work_.append(m_)
            on_all = cfg.exit not in seen_
        loops.append({"head": head, "var": var, "filter": filt, "starts": starts, "every": every, "on_all": on_all, "cfg": cfg, "for": head.ast})
    return cfg, loops


def _nothing_to_do_flags(idx, A, cfg, head, sn, attr):
    """Program attributes F with the invariant `not F  =>  every command of the table is finished`:
      * `self.F = False` occurs only in __init__ and, in run(), at nodes every path to which has passed through `head` (the loop
        that starts every command) and left it;
      * every Program method that stores into the command table sets `self.F = True` on every path to its exit;
      * nothing else assigns F (no store outside class Program)."""
    out = set()
    prog = A.program
    cand = set()
    for n in cfg.find("store"):
        if n.meta.get("attr") and self_attr(n.ast, sn) == n.meta.get("attr") and isinstance(n.meta.get("value"), ast.Constant) and n.meta["value"].value is False:
            cand.add(n.meta["attr"])
    for F in sorted(cand):
        ok = True
        body_nodes = cfg.reachable([m for m, lab in head.succ if lab == "loop"], avoid={head})
        for n in cfg.find("store", lambda x: x.meta.get("attr") == F and self_attr(x.ast, sn) == F):
            v = n.meta.get("value")
            if isinstance(v, ast.Constant) and v.value is False:
                if n in body_nodes or not cfg.must_pass_through(cfg.entry, n, {head}):
                    ok = False
            elif not (isinstance(v, ast.Constant) and v.value is True):
                ok = False
        for nm, m in prog.methods.items():
            if m is A.program_run:
                continue
            msn = K.self_name(m)
            c2 = K.cfg_of(idx, m)
            stores_f = c2.find("store", lambda x: x.meta.get("attr") == F and self_attr(x.ast, msn) == F)
            table_stores = [x for x in own_nodes(m.node) if isinstance(x, (ast.Assign, ast.AugAssign)) and any(isinstance(t, ast.Subscript) and self_attr(t.value, msn) == attr for t in (x.targets if isinstance(x, ast.Assign) else [x.target]))]
            table_stores += [x for x in own_nodes(m.node) if isinstance(x, ast.Call) and isinstance(x.func, ast.Attribute) and x.func.attr in ("update", "setdefault") and self_attr(x.func.value, msn) == attr]
            trues = [x for x in stores_f if isinstance(x.meta.get("value"), ast.Constant) and x.meta["value"].value is True]
            falses = [x for x in stores_f if x not in trues]
            if nm == "__init__":
                if any(not isinstance(x.meta.get("value"), ast.Constant) for x in stores_f):
                    ok = False
                continue
            if falses:
                ok = False
            if table_stores and not (trues and c2.must_pass_through(c2.entry, c2.exit, set(trues))):
                ok = False
        for mod, f, n in K.scoped_nodes(idx):
            if isinstance(n, ast.Attribute) and n.attr == F and isinstance(n.ctx, ast.Store) and not (f is not None and getattr(f, "cls", None) is prog):
                ok = False
        if ok:
            out.add(F)
    return out


def _neg_lookup(test, var):
    """Recognise `not D.get(var.result_name)` / `var.result_name not in D` / `not D[var.result_name]`.
    Returns (D, polarity) with polarity True when the command is run only if D has NO non-empty entry."""

    def key_ok(k):
        return isinstance(k, ast.Attribute) and k.attr == "result_name" and isinstance(k.value, ast.Name) and k.value.id == var

    pol = True
    t = test
    while isinstance(t, ast.UnaryOp) and isinstance(t.op, ast.Not):
        pol = not pol
        t = t.operand
    # pol now True when an even number of nots: test is "lookup truthy"
    if isinstance(t, ast.Call) and isinstance(t.func, ast.Attribute) and t.func.attr == "get" and isinstance(t.func.value, ast.Name) and t.args and key_ok(t.args[0]):
        return t.func.value.id, (not pol)
    if isinstance(t, ast.Subscript) and isinstance(t.value, ast.Name) and key_ok(t.slice):
        return t.value.id, (not pol)
    if isinstance(t, ast.Compare) and len(t.ops) == 1 and key_ok(t.left) and isinstance(t.comparators[0], ast.Name):
        if isinstance(t.ops[0], ast.NotIn):
            return t.comparators[0].id, pol
        if isinstance(t.ops[0], ast.In):
            return t.comparators[0].id, (not pol)
    return None, None


def _check_dependents_map(idx, A, cfg, D, consumer_loop_vars):
    """Keys of map D must flow only from cleaned values of reference inputs. Returns list of problems."""
    fi = A.program_run
    problems = []
    cleaned = set()
    for n in own_nodes(fi.node):
        if isinstance(n, ast.Assign) and len(n.targets) == 1 and isinstance(n.targets[0], ast.Name):
            v = n.value
            if isinstance(v, ast.Call) and isinstance(v.func, ast.Attribute) and v.func.attr == "clean":
                cleaned.add(n.targets[0].id)
    if not cleaned:
        return [("dependents-keys", fi.node.lineno, "no cleaned value is ever recorded: the dependents map cannot reflect references")]
    derived = K.derived_names(fi, cleaned)
    # stores into D
    key_exprs = []
    for n in own_nodes(fi.node):
        if isinstance(n, ast.Assign):
            for t in n.targets:
                if isinstance(t, ast.Subscript) and isinstance(t.value, ast.Name) and t.value.id == D:
                    key_exprs.append((t.slice, n))
        if isinstance(n, ast.Call) and isinstance(n.func, ast.Attribute):
            f = n.func
            if isinstance(f.value, ast.Name) and f.value.id == D and f.attr in ("setdefault",) and n.args:
                key_exprs.append((n.args[0], n))
            if isinstance(f.value, ast.Name) and f.value.id == D and f.attr in ("update", "__setitem__"):
                problems.append(("dependents-keys", n.lineno, "dependents map updated through %s: keys cannot be traced" % f.attr))
            if isinstance(f.value, ast.Subscript) and isinstance(f.value.value, ast.Name) and f.value.value.id == D and f.attr in ("add", "append", "update", "extend"):
                key_exprs.append((f.value.slice, n))
    if not key_exprs:
        return [("dependents-keys", fi.node.lineno, "the dependents map `%s` is never filled, so every command is a leaf (harmless) — but then the filter is dead code" % D)] if False else []
    # each key must be a Name iterating a list R (or an expression) made only of cleaned-derived values
    lists = {}
    for n in own_nodes(fi.node):
        if isinstance(n, ast.Call) and isinstance(n.func, ast.Attribute) and n.func.attr in ("append", "extend", "add") and isinstance(n.func.value, ast.Name) and n.args:
            lists.setdefault(n.func.value.id, []).append((n.args[0], n))
        if isinstance(n, ast.AugAssign) and isinstance(n.target, ast.Name) and isinstance(n.op, ast.Add):
            lists.setdefault(n.target.id, []).append((n.value, n))
    loop_src = {}
    for n in own_nodes(fi.node):
        if isinstance(n, ast.For) and isinstance(n.target, ast.Name):
            loop_src.setdefault(n.target.id, []).append(n.iter)

    def value_ok(e):
        """an element recorded as 'referenced name/command'"""
        if isinstance(e, ast.IfExp):
            return value_ok(e.body) and value_ok(e.orelse)
        if isinstance(e, (ast.ListComp, ast.GeneratorExp)):
            g = e.generators[0]
            return bool(K.names_in(g.iter) & derived) and value_ok_elt(e.elt, {x.id for x in ast.walk(g.target) if isinstance(x, ast.Name)})
        if isinstance(e, ast.Attribute) and e.attr == "result_name":
            return isinstance(e.value, ast.Name) and e.value.id in derived and e.value.id not in consumer_loop_vars
        if isinstance(e, ast.Name):
            return e.id in derived and e.id not in consumer_loop_vars
        return False

    def value_ok_elt(e, bound):
        if isinstance(e, ast.Name):
            return e.id in bound
        if isinstance(e, ast.Attribute) and e.attr == "result_name" and isinstance(e.value, ast.Name):
            return e.value.id in bound
        return False

    for k, site in key_exprs:
        if isinstance(k, ast.Name) and k.id in loop_src:
            for it in loop_src[k.id]:
                if not (isinstance(it, ast.Name) and it.id in lists):
                    problems.append(("dependents-keys", site.lineno, "key `%s` of the dependents map iterates over `%s`, which is not a list of recorded references" % (k.id, K.src(it))))
                    continue
                for e, s in lists[it.id]:
                    if not value_ok(e):
                        problems.append(("dependents-keys", s.lineno, "`%s` records `%s`, which is not (the result name of) a cleaned reference value" % (it.id, K.src(e))))
                    elif not isinstance(e, (ast.ListComp, ast.GeneratorExp)):
                        # must be recorded only for reference-typed parameters
                        guarded = False
                        for nd in cfg.find(("call", "aug"), lambda x: x.ast is s or (x.kind == "call" and x.ast is s)):
                            for tnode in cfg.find("test"):
                                tt = tnode.ast
                                if isinstance(tt, ast.Call) and isinstance(tt.func, ast.Name) and tt.func.id == "isinstance" and len(tt.args) == 2:
                                    q = idx.qualname(fi.module, tt.args[1], fi) or ""
                                    if q.endswith("ResultParameter") or q.endswith(".Command"):
                                        trues = [m for m, lab in tnode.succ if lab == "true"]
                                        falses = [m for m, lab in tnode.succ if lab == "false"]
                                        if trues and nd not in cfg.reachable(falses, avoid={tnode}) or cfg.must_pass_through(cfg.entry, nd, set(trues)):
                                            guarded = True
                        if not guarded:
                            problems.append(("dependents-keys", s.lineno, "`%s` is recorded as a reference for parameters of any type: a plain string equal to a result name would hide that command from the leaf loop" % K.src(e)))
        elif value_ok(k):
            pass
        else:
            problems.append(("dependents-keys", site.lineno, "key `%s` of the dependents map does not flow from a cleaned reference value" % K.src(k)))
    return problems


def start_coverage(idx, A):
    cfg, loops = coverage_loops(idx, A)
    fi = A.program_run
    if not loops:
        return Cover("bad", "Program.run has no loop over the command table that starts commands", fi.node.lineno)
    for lp in loops:
        if lp["filter"] is None and lp["every"] and lp["on_all"]:
            return Cover("unfiltered", K.src(lp["for"].iter) + " -> " + ", ".join(sorted(s.text() for s in lp["starts"])), lp["head"].line)
    # filtered forms
    unknown = []
    for lp in loops:
        var = lp["var"]
        tests = None
        if lp["filter"] is not None and lp["every"]:
            ifs, v2 = lp["filter"]
            if len(ifs) == 1:
                tests = (ifs[0], v2)
        elif lp["filter"] is None and lp["starts"]:
            body = lp["for"].body
            if len(body) == 1 and isinstance(body[0], ast.If) and not body[0].orelse:
                tests = (body[0].test, var)
        if tests is None:
            unknown.append("loop at line %s" % lp["head"].line)
            continue
        D, runs_when_absent = _neg_lookup(tests[0], tests[1])
        if D is None:
            unknown.append("filter `%s`" % K.src(tests[0]))
            continue
        if not lp["on_all"]:
            return Cover("bad", "the leaf loop is skipped on some path to the normal exit of Program.run", lp["head"].line)
        if not runs_when_absent:
            return Cover("bad", "the loop runs only commands that HAVE recorded consumers (`%s`): commands nobody consumes are never started" % K.src(tests[0]), lp["head"].line)
        consumer_vars = set()
        for n in own_nodes(fi.node):
            if isinstance(n, ast.For) and _table_iter(n.iter, K.self_name(fi), command_table_attr(idx, A)):
                for x in ast.walk(n.target):
                    if isinstance(x, ast.Name):
                        consumer_vars.add(x.id)
        problems = _check_dependents_map(idx, A, cfg, D, consumer_vars)
        if problems:
            return Cover("bad", problems[0][2], problems[0][1], problems=[])
        return Cover("filtered-ok", "filter `%s`" % K.src(tests[0]), lp["head"].line)
    return Cover("unknown", "; ".join(unknown), fi.node.lineno)


# ---------------------------------------------------------------------------------------------- ListParameter.clean
def list_clean_total(idx, fi):
    """returns (ok|None, why, line)"""
    sn = K.self_name(fi)
    args = [a.arg for a in fi.node.args.args]
    if len(args) < 2:
        return None, "ListParameter.clean has no value parameter", fi.node.lineno
    raw = args[1]
    rets = [n for n in own_nodes(fi.node) if isinstance(n, ast.Return)]
    if not rets:
        return False, "ListParameter.clean never returns a value", fi.node.lineno
    # the raw list belongs to the caller (the argument of the command, shared by every program built from it):
    # storing cleaned values back into it replaces reference names by this program's Command objects
    rebound = False
    for st in fi.node.body:
        if isinstance(st, ast.Assign) and any(isinstance(t, ast.Name) and t.id == raw for t in st.targets):
            rebound = True
        if rebound:
            break
        for n in ast.walk(st):
            hit = None
            if isinstance(n, (ast.Assign, ast.AugAssign)):
                for t in (n.targets if isinstance(n, ast.Assign) else [n.target]):
                    if isinstance(t, ast.Subscript) and isinstance(t.value, ast.Name) and t.value.id == raw:
                        hit = K.src(t)
            if isinstance(n, ast.Call) and isinstance(n.func, ast.Attribute) and isinstance(n.func.value, ast.Name) and n.func.value.id == raw and n.func.attr in ("append", "extend", "insert", "pop", "remove", "clear", "sort", "reverse", "__setitem__"):
                hit = K.src(n.func)
            if hit:
                return False, "cleaned values are written into the raw argument list itself (`%s`): the caller's list of reference names now holds this program's Command objects, so a second program built from the same arguments is fed the first program's commands" % hit, n.lineno
    verdict = True
    why = []
    line = rets[0].lineno
    for r in rets:
        v = r.value
        if isinstance(v, ast.Call) and isinstance(v.func, ast.Name) and v.func.id in ("list", "tuple") and len(v.args) == 1:
            v = v.args[0]
        if isinstance(v, (ast.ListComp, ast.GeneratorExp)) and _identity_value_type(idx, fi, r, sn) and _unwrap_only(v, raw):
            why.append("under `type(self.value_type) is Parameter` (whose clean hands the value back) every item is unwrapped")
            continue
        if isinstance(v, (ast.ListComp, ast.GeneratorExp)):
            ok, w = _comp_total(v, raw, sn)
            if ok is None:
                return None, w, r.lineno
            if not ok:
                verdict = False
                line = r.lineno
            why.append(w)
        elif isinstance(v, ast.Name) and isinstance(K.single_defs(fi).get(v.id), (ast.ListComp, ast.GeneratorExp)):
            ok, w = _comp_total(K.single_defs(fi)[v.id], raw, sn)
            if ok is None:
                return None, w, r.lineno
            if not ok:
                verdict = False
                line = r.lineno
            why.append(w)
        elif isinstance(v, ast.Name) and v.id == raw and not rebound:
            verdict = False
            line = r.lineno
            why.append("`%s` hands the raw items back as they are: they are neither passed through the declared value type nor unwrapped (the loader delivers a list inside a list as a ListArgument object, and references as names), so a nested list reaches the command as wrapper objects and the dependency scan no longer sees through it" % K.src(r))
        elif isinstance(v, ast.Name):
            # list built by a loop: `out = []; for item in value: out.append(self.value_type.clean(item...))`
            ok, w = _loop_total(fi, v.id, raw, sn)
            if ok is None:
                return None, w, r.lineno
            if not ok:
                verdict = False
                line = r.lineno
            why.append(w)
        else:
            return None, "return form `%s` is outside the recognised shapes" % K.src(r.value), r.lineno
    return verdict, "; ".join(why), line


def _is_value_type_clean(call, sn):
    return (
        isinstance(call, ast.Call)
        and isinstance(call.func, ast.Attribute)
        and call.func.attr == "clean"
        and isinstance(call.func.value, ast.Attribute)
        and isinstance(call.func.value.value, ast.Name)
        and call.func.value.value.id == sn
    )


def _identity_value_type(idx, fi, ret, sn):
    """the return sits under `if type(self.value_type) is Parameter:` and the base Parameter.clean returns its argument"""
    for iff in own_nodes(fi.node):
        if isinstance(iff, ast.If) and any(ret is x for b in iff.body for x in ast.walk(b)):
            t = iff.test
            if isinstance(t, ast.Compare) and len(t.ops) == 1 and isinstance(t.ops[0], (ast.Is, ast.Eq)) and K.src(t.left).replace(" ", "") == "type(%s.value_type)" % sn:
                r = idx.resolve(fi.module, t.comparators[0], fi)
                if r and r[0] == "class" and r[1].name == "Parameter":
                    base_clean = r[1].methods.get("clean")
                    if base_clean is not None:
                        rets = [n for n in own_nodes(base_clean.node) if isinstance(n, ast.Return)]
                        arg = base_clean.node.args.args[1].arg
                        if rets and all(isinstance(x.value, ast.Name) and x.value.id == arg for x in rets):
                            return True
    return False


def _unwrap_only(comp, raw):
    """[item.value if isinstance(item, Argument) else item for item in <raw>]: every item, unwrapped"""
    if len(comp.generators) != 1:
        return False
    g = comp.generators[0]
    if g.ifs or not (isinstance(g.iter, ast.Name) and g.iter.id == raw) or not isinstance(g.target, ast.Name):
        return False
    e = comp.elt
    t = g.target.id
    return (isinstance(e, ast.IfExp) and K.src(e.body) == "%s.value" % t and K.src(e.orelse) == t and isinstance(e.test, ast.Call) and K.src(e.test.func) == "isinstance" and K.src(e.test.args[0]) == t and "Argument" in K.src(e.test.args[1]))


def _comp_total(comp, raw, sn):
    if len(comp.generators) != 1:
        return None, "comprehension with several generators"
    g = comp.generators[0]
    if not (isinstance(g.iter, ast.Name) and g.iter.id == raw):
        if raw in K.names_in(g.iter):
            return False, "iterates over `%s`, not over every item of the raw list" % K.src(g.iter)
        return None, "comprehension does not iterate over the raw value"
    if g.ifs:
        return False, "items are filtered (`if %s`): some references are never cleaned/resolved" % K.src(g.ifs[0])
    if not _is_value_type_clean(comp.elt, sn):
        return False, "elements are not passed through the declared value_type.clean: `%s`" % K.src(comp.elt)
    tnames = {x.id for x in ast.walk(g.target) if isinstance(x, ast.Name)}
    if not comp.elt.args or not (K.names_in(comp.elt.args[0]) & tnames):
        return False, "value_type.clean is not applied to the item itself"
    return True, "comprehension over every item of `%s` through %s" % (raw, K.src(comp.elt.func))


def _loop_total(fi, name, raw, sn):
    loops = [n for n in own_nodes(fi.node) if isinstance(n, ast.For)]
    for lp in loops:
        appends = [
            n for n in ast.walk(lp)
            if isinstance(n, ast.Call) and isinstance(n.func, ast.Attribute) and n.func.attr == "append" and isinstance(n.func.value, ast.Name) and n.func.value.id == name
        ]
        if not appends:
            continue
        if not (isinstance(lp.iter, ast.Name) and lp.iter.id == raw):
            return False, "loop iterates over `%s`, not over every item of the raw list" % K.src(lp.iter)
        # the append is the last statement of the body and nothing before it can leave the iteration early
        last = lp.body[-1]
        early = any(isinstance(x, (ast.Continue, ast.Break, ast.Return)) for st in lp.body[:-1] for x in ast.walk(st))
        if len(appends) != 1 or not isinstance(last, ast.Expr) or last.value is not appends[0] or early:
            if early or len(appends) != 1 or any(appends[0] is x for st in lp.body[:-1] for x in ast.walk(st)):
                return False, "some items can skip the append: not every item of the raw list is cleaned"
            return None, "loop body does not end in the append"
        if not _is_value_type_clean(appends[0].args[0], sn):
            return False, "appended value is not value_type.clean(item)"
        # the cleaned value derives from the loop variable (directly or through temporaries set in the body)
        tnames = {x.id for x in ast.walk(lp.target) if isinstance(x, ast.Name)}
        changed = True
        while changed:
            changed = False
            for st in lp.body[:-1]:
                for n in ast.walk(st):
                    if isinstance(n, ast.Assign) and len(n.targets) == 1 and isinstance(n.targets[0], ast.Name) and n.targets[0].id not in tnames and K.names_in(n.value) & tnames:
                        tnames.add(n.targets[0].id)
                        changed = True
        a0 = appends[0].args[0]
        if not a0.args or not (K.names_in(a0.args[0]) & tnames):
            return False, "value_type.clean is not applied to the item itself"
        return True, "loop over every item of `%s`" % raw
    # a private copy filled in place: name = list(raw); for i, item in enumerate(name | raw): name[i] = value_type.clean(item, ...)
    defs = [n for n in own_nodes(fi.node) if isinstance(n, ast.Assign) and any(isinstance(t, ast.Name) and t.id == name for t in n.targets)]
    if len(defs) == 1 and isinstance(defs[0].value, ast.Call) and K.src(defs[0].value.func) == "list" and len(defs[0].value.args) == 1 and isinstance(defs[0].value.args[0], ast.Name) and defs[0].value.args[0].id == raw:
        for lp in loops:
            it = lp.iter
            if not (isinstance(it, ast.Call) and K.src(it.func) == "enumerate" and len(it.args) == 1 and isinstance(it.args[0], ast.Name) and it.args[0].id in (name, raw)
                    and isinstance(lp.target, ast.Tuple) and len(lp.target.elts) == 2 and all(isinstance(x, ast.Name) for x in lp.target.elts)):
                continue
            ix, item = lp.target.elts[0].id, lp.target.elts[1].id
            last = lp.body[-1]
            early = any(isinstance(x, (ast.Continue, ast.Break, ast.Return)) for st in lp.body[:-1] for x in ast.walk(st))
            if not (isinstance(last, ast.Assign) and len(last.targets) == 1 and isinstance(last.targets[0], ast.Subscript) and isinstance(last.targets[0].value, ast.Name) and last.targets[0].value.id == name
                    and isinstance(last.targets[0].slice, ast.Name) and last.targets[0].slice.id == ix) or early:
                continue
            if not _is_value_type_clean(last.value, sn):
                return False, "the stored value is not value_type.clean(item)"
            if not last.value.args or item not in K.names_in(last.value.args[0]):
                return False, "value_type.clean is not applied to the item itself"
            return True, "every item of a private copy of `%s` is replaced by its cleaned value" % raw
    return None, "returned name `%s` is not built by a recognised loop" % name


def false_cycle_reports(idx, A, err="RecursiveModelStructure"):
    """Recursive walks of the reference graph (reachable from Program.run) that raise the recursive-model error when the node at hand
    is already in a collection they add to, but never take anything out of that collection again and hand the same object down:
    the collection then holds everything visited, not the current chain, and a result reached along two chains (a diamond) is
    reported as a cycle.  -> [(function, line, text)]"""
    out = []
    reach, _p = idx.reachable([A.program_run])
    cands = [f for f in reach] + [g for f in reach for g in getattr(f, "nested", {}).values()]
    seen = set()
    for f in cands:
        if f in seen or not hasattr(f, "node"):
            continue
        seen.add(f)
        node = getattr(f, "node_orig", None) or f.node
        rec = [c for c in ast.walk(node) if isinstance(c, ast.Call) and ((isinstance(c.func, ast.Name) and c.func.id == f.name) or (isinstance(c.func, ast.Attribute) and c.func.attr == f.name and isinstance(c.func.value, ast.Name) and c.func.value.id in ("self", "cls")))]
        # iterative form: a work list (`pending.pop()` / `pending.extend(successors)`) with a `visited` collection that is only added to:
        # a node reached a second time - along another chain - is taken for a loop
        for lp in [n for n in ast.walk(node) if isinstance(n, ast.While)]:
            pops = [c for c in ast.walk(lp) if isinstance(c, ast.Call) and isinstance(c.func, ast.Attribute) and c.func.attr in ("pop", "popleft") and isinstance(c.func.value, ast.Name)]
            pushes = [c for c in ast.walk(lp) if isinstance(c, ast.Call) and isinstance(c.func, ast.Attribute) and c.func.attr in ("extend", "append", "appendleft", "update") and isinstance(c.func.value, ast.Name) and any(p_.func.value.id == c.func.value.id for p_ in pops)]
            if not (pops and pushes):
                continue
            for iff in [n for n in ast.walk(lp) if isinstance(n, ast.If)]:
                t = iff.test
                if not (isinstance(t, ast.Compare) and len(t.ops) == 1 and isinstance(t.ops[0], ast.In) and isinstance(t.comparators[0], ast.Name)):
                    continue
                if not any(isinstance(x, ast.Raise) and x.exc is not None and err in K.src(x.exc) for st in iff.body for x in ast.walk(st)):
                    continue
                coll = t.comparators[0].id
                adds = [c for c in ast.walk(lp) if isinstance(c, ast.Call) and isinstance(c.func, ast.Attribute) and c.func.attr in ("add", "append") and isinstance(c.func.value, ast.Name) and c.func.value.id == coll]
                removes = [c for c in ast.walk(lp) if isinstance(c, ast.Call) and isinstance(c.func, ast.Attribute) and c.func.attr in ("remove", "discard", "pop", "clear") and isinstance(c.func.value, ast.Name) and c.func.value.id == coll]
                if adds and not removes and coll not in {p_.func.value.id for p_ in pops}:
                    out.append((f, iff.lineno, "%s walks the references with a work list and raises the recursive-model error when `%s` is already in `%s`, a collection it only ever adds to: it holds every result reached so far, not the chain being followed, so a result reached along two chains (a diamond, or the same result named twice) is reported as a loop and a valid model is refused before anything runs" % (f.qualname, K.src(t.left), coll)))
        if not rec:
            continue
        params = [a.arg for a in node.args.args]
        for iff in [n for n in ast.walk(node) if isinstance(n, ast.If)]:
            t = iff.test
            if not (isinstance(t, ast.Compare) and len(t.ops) == 1 and isinstance(t.ops[0], ast.In) and isinstance(t.comparators[0], ast.Name)):
                continue
            if not any(isinstance(x, ast.Raise) and x.exc is not None and err in K.src(x.exc) for st in iff.body for x in ast.walk(st)):
                continue
            coll = t.comparators[0].id
            adds = [c for c in ast.walk(node) if isinstance(c, ast.Call) and isinstance(c.func, ast.Attribute) and c.func.attr in ("add", "append") and isinstance(c.func.value, ast.Name) and c.func.value.id == coll]
            if not adds:
                continue
            removes = [c for c in ast.walk(node) if isinstance(c, ast.Call) and isinstance(c.func, ast.Attribute) and c.func.attr in ("remove", "discard", "pop", "clear") and isinstance(c.func.value, ast.Name) and c.func.value.id == coll]
            dels = [d for d in ast.walk(node) if isinstance(d, ast.Delete) and any(isinstance(x, ast.Subscript) and isinstance(x.value, ast.Name) and x.value.id == coll for x in d.targets)]
            # the same object handed down?  (a copy per call - `path | {n}`, `path + [n]`, `set(path)` - unwinds by itself)
            same_down = False
            for c in rec:
                for a in list(c.args) + [k.value for k in c.keywords]:
                    if isinstance(a, ast.Name) and a.id == coll:
                        same_down = True
            if coll not in params:
                same_down = True  # a closure / outer variable shared by every call
            if same_down and not removes and not dels:
                out.append((f, iff.lineno, "%s raises the recursive-model error when `%s` is already in `%s`, a collection it only ever adds to and hands down unchanged: it holds every command visited so far, not the chain being followed, so a result reached along two chains (X feeds Y and Z, Z also reads Y) is reported as a loop and a valid model is refused" % (f.qualname, K.src(t.left), coll)))
    return out



def complementary_starts(A):
    """Two top-level loops of Program.run over the command table, `for c in T: if P(c): c.run()` and `for c in T: if not P(c): c.run()`
    (the same test, once negated - `x in R` / `x not in R`), nothing else in either body, R not rebound in between: together they
    start every command.  -> (line, text) or None"""
    import ast as _ast
    from . import common as _K

    fi = A.program_run
    body = fi.node.body
    cands = []
    for i, st in enumerate(body):
        if not (isinstance(st, _ast.For) and isinstance(st.target, _ast.Name) and not st.orelse and len(st.body) == 1 and isinstance(st.body[0], _ast.If) and not st.body[0].orelse):
            continue
        if not _K.src(st.iter).replace(" ", "").endswith(".values()") and not _K.src(st.iter).replace(" ", "").endswith(".commands"):
            continue
        iff = st.body[0]
        v = st.target.id
        if not (len(iff.body) == 1 and isinstance(iff.body[0], _ast.Expr) and isinstance(iff.body[0].value, _ast.Call) and _K.src(iff.body[0].value.func) in ("%s.run" % v,)):
            continue
        t = iff.test
        neg = False
        while isinstance(t, _ast.UnaryOp) and isinstance(t.op, _ast.Not):
            neg, t = not neg, t.operand
        if isinstance(t, _ast.Compare) and len(t.ops) == 1 and isinstance(t.ops[0], (_ast.In, _ast.NotIn)):
            if isinstance(t.ops[0], _ast.NotIn):
                neg = not neg
            core = (_K.src(t.left).replace(v + ".", "_v."), _K.src(t.comparators[0]), _K.src(st.iter))
            names = {x.id for x in _ast.walk(t.comparators[0]) if isinstance(x, _ast.Name)}
        else:
            core = (_K.src(t).replace(v + ".", "_v."), "", _K.src(st.iter))
            names = {x.id for x in _ast.walk(t) if isinstance(x, _ast.Name)} - {v}
        cands.append((i, core, neg, names, st))
    for a in cands:
        for b in cands:
            if a[0] < b[0] and a[1] == b[1] and a[2] != b[2]:
                between = body[a[0] + 1:b[0]]
                rebound = any(isinstance(x, _ast.Name) and isinstance(x.ctx, _ast.Store) and x.id in a[3] for st in between for x in _ast.walk(st))
                if not rebound and not any(isinstance(x, (_ast.Return, _ast.Break)) for st in body[a[0]:b[0] + 1] for x in _ast.walk(st)):
                    return a[4].lineno, "`%s` and its negation, one loop each: every command is started by one of the two" % _K.src(a[4].body[0].test)
    return None
