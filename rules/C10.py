"""C10 — parsing delivers exactly what was written: table agreement, delimiters, number tokens, value threading, lossy reconstruction."""
import ast

from engine import grammar
from engine import regexlang as RL
from engine.report import AnalysisError

from . import common as K

PUNCT_OK = {"COLON": ":", "COMMA": ",", "EQUAL": "=", "LBRACK": "[", "LPAREN": "(", "RBRACK": "]", "RPAREN": ")"}
VALUELESS = set(PUNCT_OK)
LR_LEN = {"quick": 12, "thorough": 13}


def p_indices(func):
    """indices i of p[i] loads (not p[0] store) in a grammar action, with their nodes"""
    parg = func.args.args[-1].arg
    out = []
    for n in ast.walk(func):
        if isinstance(n, ast.Subscript) and isinstance(n.value, ast.Name) and n.value.id == parg and isinstance(n.ctx, ast.Load):
            if isinstance(n.slice, ast.Constant) and isinstance(n.slice.value, int):
                out.append((n.slice.value, n))
            else:
                out.append((None, n))
    return out


def p_flow(func):
    """indices i whose p[i] flows into p[0], through local names (flow-insensitive closure over the action body)"""
    parg = func.args.args[-1].arg

    def direct(e):
        out = set()
        for n in ast.walk(e):
            if isinstance(n, ast.Subscript) and isinstance(n.value, ast.Name) and n.value.id == parg and isinstance(n.ctx, ast.Load) and isinstance(n.slice, ast.Constant) and isinstance(n.slice.value, int) and n.slice.value > 0:
                out.add(n.slice.value)
            # p.slice[i].<attr>: the token object of symbol i (its text as written, its type): also that symbol's value
            if isinstance(n, ast.Subscript) and isinstance(n.value, ast.Attribute) and n.value.attr == "slice" and isinstance(n.value.value, ast.Name) and n.value.value.id == parg \
                    and isinstance(n.slice, ast.Constant) and isinstance(n.slice.value, int) and n.slice.value > 0:
                out.add(n.slice.value)
        return out

    names = {}
    p0 = set()
    changed = True

    mutated = {}  # k -> indices whose values were put into the object p[k] (p[1].append(p[3]))

    def of(e):
        out = direct(e)
        for n in ast.walk(e):
            if isinstance(n, ast.Name) and n.id in names:
                out |= names[n.id]
        for k in list(out):
            out |= mutated.get(k, set())
        return out

    rounds = 0
    while changed and rounds < 10:
        rounds += 1
        changed = False
        for n in ast.walk(func):
            tgt_vals = []
            if isinstance(n, ast.Assign):
                for t in n.targets:
                    tgt_vals.append((t, n.value))
            elif isinstance(n, ast.AugAssign):
                tgt_vals.append((n.target, n.value))
            elif isinstance(n, ast.For):
                tgt_vals.append((n.target, n.iter))
            elif isinstance(n, ast.Call) and isinstance(n.func, ast.Attribute) and isinstance(n.func.value, ast.Name) and n.func.attr in ("append", "extend", "update", "insert", "add", "setdefault"):
                for a in list(n.args) + [k.value for k in n.keywords]:
                    tgt_vals.append((n.func.value, a))
            if isinstance(n, ast.Call) and isinstance(n.func, ast.Attribute) and n.func.attr in ("append", "extend", "insert", "add", "update") and isinstance(n.func.value, ast.Subscript) \
                    and isinstance(n.func.value.value, ast.Name) and n.func.value.value.id == parg and isinstance(n.func.value.slice, ast.Constant) and isinstance(n.func.value.slice.value, int):
                k = n.func.value.slice.value
                add = set()
                for a in n.args:
                    add |= of(a)
                if not add <= mutated.get(k, set()):
                    mutated.setdefault(k, set()).update(add)
                    changed = True
            for t, v in tgt_vals:
                src = of(v)
                if isinstance(t, ast.Subscript) and isinstance(t.value, ast.Name) and t.value.id == parg:
                    if isinstance(t.slice, ast.Constant) and t.slice.value == 0 and not src <= p0:
                        p0 |= src
                        changed = True
                    continue
                base = t
                extra = set()
                while isinstance(base, (ast.Subscript, ast.Attribute)):
                    if isinstance(base, ast.Subscript):
                        extra |= of(base.slice)
                    base = base.value
                for x in ([base] if isinstance(base, ast.Name) else [y for y in ast.walk(t) if isinstance(y, ast.Name)]):
                    cur = names.setdefault(x.id, set())
                    if not (src | extra) <= cur:
                        cur |= src | extra
                        changed = True
    return p0


def p0_value(func):
    parg = func.args.args[-1].arg
    for n in ast.walk(func):
        if isinstance(n, ast.Assign):
            for t in n.targets:
                if isinstance(t, ast.Subscript) and isinstance(t.value, ast.Name) and t.value.id == parg and isinstance(t.slice, ast.Constant) and t.slice.value == 0:
                    return n.value
    return None


def respelled_words(ctx, idx, L, dfas):
    """C10.h: bounded enumeration over the extracted lexer and grammar (nothing of mpilot is executed)."""
    import itertools
    import json
    import os

    rel = L.mod.rel
    con = "%s::Lexer::respelled-words" % rel
    known = {}
    kf = os.path.join(os.path.dirname(os.path.dirname(os.path.abspath(__file__))), "known_findings.json")
    try:
        with open(kf) as f:
            for ent in json.load(f).get("findings", []):
                if ent.get("rule") == "C10.f" and ent.get("construct", "").endswith("::restringified-number"):
                    known = ent.get("number_syntax") or {}
    except Exception:
        known = {}
    ref = {k: RL.dfa(v) for k, v in known.items()}
    numeric = [r for r in L.priority if L.lexer_converts(r.name[2:]) in ("int", "float")]
    if not numeric:
        # the lexer keeps the spelling of numbers (the conversion sits in a grammar action, C10.c): a number token inside an
        # unquoted word contributes its own text, nothing is re-spelled through str(number)
        ctx.hold("C10.h", con, rel, 0, "number tokens keep their spelling in the lexer: no word is rebuilt from a converted number", nontrivial=False)
        return
    ignore = set(L.t_ignore or "")
    alphabet = "107eE.-+a"
    prio = [r for r in L.priority if r.name[2:] in (L.tokens or [])]

    def longest(A, text, i):
        q, best = A.start, None
        j = i
        if q in A.acc:
            best = i
        while j < len(text):
            q = A.tr.get((q, RL.atom_of(text[j])))
            if q is None:
                break
            j += 1
            if q in A.acc:
                best = j
        return best

    def tokenise(text):
        out, i = [], 0
        while i < len(text):
            if text[i] in ignore:
                i += 1
                continue
            for r in prio:
                j = longest(dfas[r.name], text, i)
                if j is not None and j > i:
                    out.append((r.name[2:], text[i:j]))
                    i = j
                    break
            else:
                return None
        return out

    conv = {r.name[2:]: L.lexer_converts(r.name[2:]) for r in numeric}
    n_words = n_resp = 0
    new = []
    for n in range(2, 6):
        for tup in itertools.product(alphabet, repeat=n):
            w = "".join(tup)
            toks = tokenise(w)
            if not toks or len(toks) < 2 or not any(t in conv for t, _x in toks):
                continue
            if not grammar.derives(L.productions, "plain_string", [t for t, _x in toks]):
                continue
            n_words += 1
            parts = []
            for t, x in toks:
                if t in conv:
                    try:
                        parts.append(str(int(x) if conv[t] == "int" else float(x)))
                    except ValueError:
                        parts.append(x)
                else:
                    parts.append(x)
            if "".join(parts) == w:
                continue
            n_resp += 1
            outside = [(t, x) for t, x in toks if t in conv and not any(RL.accepts(A, x) for A in ref.values())]
            if outside and len(new) < 3:
                new.append((w, "".join(parts), outside[0]))
    ctx.count("unquoted_words_enumerated", n_words)
    ctx.count("unquoted_words_respelled", n_resp)
    if n_words < 100:
        raise AnalysisError("C10.h: only %d number-led words were derived as plain strings (the enumeration no longer reaches the production it is about)" % n_words)
    ctx.ob("C10.h", con, rel, numeric[0].node.lineno, not new,
           "%d of %d number-led words are re-spelled, all of them through a number in the recorded syntax (the known finding)" % (n_resp, n_words) if not new else
           "the unquoted word `%s` is read as `%s`: its head `%s` is taken for a %s token, which the number syntax recorded with the known finding does not include - a label or file name that merely starts like a number in the widened pattern loses its spelling" % (new[0][0], new[0][1], new[0][2][1], new[0][2][0]))


def run(ctx, idx):
    ctx.assume("PLY 3.11 facts (DESIGN A.2): function rules in definition order then string rules by decreasing pattern length; first matching alternative wins; t_ignore characters are skipped before every token")
    ctx.assume("reference languages L_int_builtin / L_float_builtin are the strings int() / float() accept (fixed by Python)")
    ctx.rule("C10.a", "Tables agree: grammar terminals ⊆ tokens; every token has a rule; every nonterminal is defined and reachable; each p[i] is within the production's length for every alternative.")
    ctx.rule("C10.b", "Delimiters are delimiters: every punctuation token, both quotes, '#', CR and LF lie outside the unquoted-string language; the comment pattern cannot match CR or LF; t_ignore is exactly space and tab; the newline rule returns no token (DFA facts with witnesses).")
    ctx.rule("C10.c", "Numbers: L(INT) ⊆ L(int()), L(FLOAT) ⊆ L(float()), L(INT) ∩ L(FLOAT) = ∅, FLOAT is tried before INT, their actions convert with int/float and return the token.")
    ctx.rule("C10.d", "Actions thread values: in every production each value-carrying RHS symbol is used exactly once in p[0], punctuation never, list-building productions keep source order (head before tail).")
    ctx.rule("C10.e", "Layout: optional trailing separator and empty forms exist for argument_list, elements, tuple_pairs, arguments, list.")
    ctx.rule("C10.f", "Text is not reconstructed lossily: a converted numeric token is never re-stringified; token values are never concatenated across positions where ignored characters may have been skipped; quotes are removed positionally (v[1:-1]); the escape codec is byte-transparent for non-ASCII and decoding errors become SyntaxError.")
    ctx.rule("C10.g", "Malformed text is a syntax error: t_error and p_error raise SyntaxError on every path.")
    ctx.rule("C10.h", "The words that come back re-spelled are only those the recorded finding describes: over all unquoted words of up to five characters from a small alphabet (digits, e/E, point, signs, a letter), tokenised with the extracted token automata in PLY's order and derived with the extracted grammar, a word whose value differs from its text starts with a number in the syntax recorded with the finding (C10.f restringified-number). A word re-spelled through a numeric token outside that syntax is a new defect (a widened number pattern swallowing the head of a label or file name).")
    ctx.rule("C10.i", "The lexer reads the text it was given: from_source and Parser.parse pass their text parameter on as it is - no splitlines / join, replace, strip or re-encoding before the token rules see it. A rewrite of the whole text cannot tell layout from the inside of a quoted string: `splitlines()` also breaks at form feed, vertical tab, NEL and the Unicode separators, which are ordinary string content to the lexer.")
    from .C11 import text_reaches_lexer

    text_reaches_lexer(ctx, idx, "C10.i", "characters inside quoted strings (form feed, vertical tab, U+0085, U+2028/9, a lone CR) are rewritten or dropped with the layout, so a string no longer comes back as its content")
    ctx.rule("C10.k", "What a text parses to depends on that text alone: state the grammar actions write on the parser object (the EEMS 2.0 flag that becomes the program's version) does not survive from one parse into the next - it is reset by parse(), or every load builds a Parser of its own whose PLY parser is bound to that very object (C16.c's reading; PLY binds the actions to the object given as `module=`, so a PLY parser shared between Parser objects keeps writing the first object's flag).")
    from .C16 import parser_state

    parser_state(ctx, idx, "C10.k")
    ctx.rule("C10.j", "Only the lexer and the grammar reject text: Parser.parse and Program.from_source raise nothing on a test of the raw text before the PLY parse call (counting brackets or quotes, searching for a character) - such a test cannot tell program text from the inside of a quoted string or a comment, so it refuses well-formed files.")
    n_pre = 0
    for fn_, what_ in ((idx.func("mpilot.parser.parser", "Parser.parse"), "Parser.parse"), (idx.func("mpilot.program", "Program.from_source"), "Program.from_source")):
        if fn_ is None:
            raise AnalysisError("C10.j: %s vanished" % what_)
        cfg_ = K.cfg_of(idx, fn_)
        params_ = {a.arg for a in fn_.node.args.args[1:]}
        pcalls = [c for c in cfg_.find("call") if isinstance(c.ast.func, ast.Attribute) and c.ast.func.attr == "parse"]
        n_pre += len(pcalls)
        con_ = "%s::no-rejection-on-the-raw-text" % fn_.key
        early = None
        for rz in cfg_.find("raise"):
            if rz not in cfg_.reachable():
                continue
            before = rz in cfg_.reachable(avoid=set(pcalls))  # reachable without passing the parse call
            if not before:
                continue
            guards = [t for t in cfg_.find("test") if cfg_.dominates(t, rz) and any(isinstance(x, ast.Name) and x.id in params_ and x.id not in ("libraries", "working_dir", "cls") for x in ast.walk(K.expand(fn_, t.ast)))]
            textual = [t for t in guards if any(isinstance(x, ast.Call) and isinstance(x.func, ast.Attribute) and x.func.attr in ("count", "find", "index", "startswith", "endswith", "search", "match", "findall", "rfind", "partition", "split") for x in ast.walk(K.expand(fn_, t.ast)))
                       or any(isinstance(x, ast.Compare) and any(isinstance(o, (ast.In, ast.NotIn)) for o in x.ops) and any(isinstance(y, ast.Constant) and isinstance(y.value, str) for y in [x.left]) for x in ast.walk(K.expand(fn_, t.ast)))]
            if textual:
                early = (rz, textual[0])
        if early:
            ctx.violate("C10.j", con_, K.rel(fn_), early[0].line, "%s raises on `%s`, a test of the raw text made before the lexer runs: a bracket, quote or keyword inside a quoted string or a comment counts like program text, so well-formed files are rejected" % (what_, K.src(early[1].ast)[:70]))
        else:
            ctx.hold("C10.j", con_, K.rel(fn_), fn_.node.lineno, "nothing is raised on the raw text before the parse call", nontrivial=False)
    ctx.floor("C10.j", "parse call sites on the loading path", n_pre, 2)
    L = grammar.Lexicon(idx)
    rel = L.mod.rel
    dfas = {r.name: RL.dfa(r.pattern) for r in L.rules}
    respelled_words(ctx, idx, L, dfas)
    ctx.count("token_rules", len(L.rules))
    ctx.count("productions", len(L.productions))
    ctx.floor("C10.a", "productions", len(L.productions), 30)
    # ------------------------------------------------------------------ a
    nts = L.nonterminals()
    toks = set(L.tokens)
    prec_names = {n for row in L.precedence for n in row[1:]}
    for p in L.productions:
        for sym in p.rhs:
            if sym not in nts and sym not in toks:
                ctx.violate("C10.a", "%s::Parser.%s::symbol(%s)" % (rel, p.func.name, sym), rel, p.func.lineno, "production `%s` uses `%s`, which is neither a token nor a defined nonterminal" % (p, sym))
        if p.prec and p.prec not in prec_names and p.prec not in toks:
            ctx.violate("C10.a", "%s::Parser.%s::prec" % (rel, p.func.name), rel, p.func.lineno, "%%prec %s is not declared" % p.prec)
    retyped = retyping(idx, L)
    for t in L.tokens:
        r = L.rule(t)
        if r is None and t in retyped:
            # produced by another rule that re-types its token for particular lexemes (the reserved-word idiom)
            src_rule, words = retyped[t]
            missing = []
            for p in L.productions:
                for i, sym in enumerate(p.rhs):
                    if sym == src_rule.token:
                        alt = p.rhs[:i] + [t] + p.rhs[i + 1:]

                        def yields_alone(sym_, goal, seen=()):
                            """sym_ derives exactly the one token `goal` (through unit productions)"""
                            if sym_ == goal:
                                return True
                            if sym_ in seen:
                                return False
                            return any(q2.lhs == sym_ and len(q2.rhs) == 1 and yields_alone(q2.rhs[0], goal, seen + (sym_,)) for q2 in L.productions)

                        covered = any(q.lhs == p.lhs and len(q.rhs) == len(alt) and all(a_ == b_ for k_, (a_, b_) in enumerate(zip(q.rhs, alt)) if k_ != i) and yields_alone(q.rhs[i], t) for q in L.productions)
                        if not covered:
                            missing.append(p)
            ctx.ob("C10.a", "%s::token(%s)" % (rel, t), rel, src_rule.node.lineno, not missing,
                   "token %s is produced by %s for the lexemes %s and is accepted wherever %s is" % (t, src_rule.name, sorted(words), src_rule.token) if not missing else
                   "%s re-types the lexemes %s as %s, but the grammar does not accept %s where it accepts %s (e.g. in `%s`): text that merely starts with or equals such a word (`%s.tif`, a tuple key `%s`) is now a syntax error although its quoted spelling still parses" % (
                       src_rule.name, sorted(words), t, t, src_rule.token, missing[0], sorted(words)[0], sorted(words)[0]))
            continue
        ctx.ob("C10.a", "%s::token(%s)" % (rel, t), rel, r.node.lineno if r else L.lexer_cls.node.lineno, r is not None, "token %s has a rule" % t if r else "token %s is declared but has no t_%s rule: PLY refuses to build the lexer" % (t, t), nontrivial=False)
    for r in L.rules:
        if not r.ignored and r.token not in toks and r.name != "t_newline" and r.returns_token is not False:
            ctx.violate("C10.a", "%s::%s::undeclared" % (rel, r.name), rel, r.node.lineno, "rule %s produces a token that is not in `tokens`" % r.name)
    reach = {L.start}
    changed = True
    while changed:
        changed = False
        for p in L.productions:
            if p.lhs in reach:
                for s in p.rhs:
                    if s in nts and s not in reach:
                        reach.add(s)
                        changed = True
    for nt in sorted(nts):
        ctx.ob("C10.a", "%s::nonterminal(%s)" % (rel, nt), rel, 0, nt in reach, "reachable from %s" % L.start if nt in reach else "nonterminal %s is unreachable from the start symbol" % nt, nontrivial=False)
    used_toks = {s for p in L.productions for s in p.rhs if s in toks}
    for t in sorted(toks - used_toks):
        ctx.note("token %s is never used by the grammar" % t)
    byfunc = {}
    for p in L.productions:
        byfunc.setdefault(p.func.name, []).append(p)
    for fname, prods in sorted(byfunc.items()):
        f = prods[0].func
        parg_ = f.args.args[-1].arg
        par_ = {}
        for x_ in ast.walk(f):
            for ch_ in ast.iter_child_nodes(x_):
                par_[id(ch_)] = x_

        def min_len(node_):
            """the least len(p) under which `node_` is evaluated, read off enclosing `len(p) <op> k` tests (If / conditional expression)"""
            g_ = 0
            q_ = node_
            while id(q_) in par_:
                up_ = par_[id(q_)]
                if isinstance(up_, (ast.If, ast.IfExp)):
                    in_body = (q_ is up_.body) if isinstance(up_, ast.IfExp) else any(q_ is b_ for b_ in up_.body)
                    in_else = (q_ is up_.orelse) if isinstance(up_, ast.IfExp) else any(q_ is b_ for b_ in up_.orelse)
                    conj_ = up_.test.values if isinstance(up_.test, ast.BoolOp) and isinstance(up_.test.op, ast.And) else [up_.test]
                    for t_ in conj_:
                        if isinstance(t_, ast.Compare) and len(t_.ops) == 1 and K.src(t_.left).replace(" ", "") == "len(%s)" % parg_ and isinstance(t_.comparators[0], ast.Constant) and isinstance(t_.comparators[0].value, int):
                            k_, op_ = t_.comparators[0].value, t_.ops[0]
                            if in_body and (len(conj_) >= 1):
                                g_ = max(g_, k_ + 1 if isinstance(op_, ast.Gt) else k_ if isinstance(op_, (ast.GtE, ast.Eq)) else 0)
                            if in_else and len(conj_) == 1:
                                g_ = max(g_, k_ + 1 if isinstance(op_, ast.LtE) else k_ if isinstance(op_, ast.Lt) else 0)
                q_ = up_
            return g_

        short = None
        for i_, node_ in p_indices(f):
            if i_ is None:
                continue
            g_ = min_len(node_)
            for p in prods:
                if len(p.rhs) + 1 >= g_ and i_ > len(p.rhs):
                    short = short or (i_, p)
        ctx.ob("C10.a", "%s::Parser.%s::index-in-range" % (rel, fname), rel, f.lineno, short is None, "p[i] within every alternative that reaches it" if short is None else "action reads p[%d] but alternative `%s` has only %d symbols" % (short[0], short[1], len(short[1].rhs)))
    # ------------------------------------------------------------------ b
    plain = L.rule("PLAIN_STRING")
    if plain is None:
        raise AnalysisError("PLAIN_STRING rule vanished")
    dp = dfas[plain.name]
    delims = []
    for t, ch in PUNCT_OK.items():
        r = L.rule(t)
        if r is None:
            raise AnalysisError("punctuation token %s vanished" % t)
        w = RL.shortest(dfas[r.name])
        ok = w == ch and RL.not_included(dfas[r.name], RL.dfa("\\" + ch)) is None
        ctx.ob("C10.b", "%s::%s::literal" % (rel, r.name), rel, r.node.lineno, ok, "matches exactly %r" % ch if ok else "token %s matches %r, not exactly %r" % (t, w, ch), nontrivial=False)
        delims.append(ch)
    for ch in delims + ['"', "'", "#", "\r", "\n"]:
        w = RL.contains(dp, {ch})
        ctx.ob("C10.b", "%s::t_PLAIN_STRING::excludes(%r)" % (rel, ch), rel, plain.node.lineno, w is None,
               "unquoted strings cannot contain %r" % ch if w is None else "the unquoted-string pattern can swallow the delimiter %r (witness %r): the structure after it is lost" % (ch, w))
    for r in L.rules:
        if r.ignored:
            for ch, nm in (("\n", "LF"), ("\r", "CR")):
                w = RL.contains(dfas[r.name], {ch})
                ctx.ob("C10.b", "%s::%s::excludes(%s)" % (rel, r.name, nm), rel, r.node.lineno, w is None,
                       "comments end at %s" % nm if w is None else "the comment pattern %r can match %s (witness %r): with CR line endings a comment swallows the following lines" % (r.pattern, nm, w))
    ctx.ob("C10.b", "%s::t_ignore" % rel, rel, L.lexer_cls.node.lineno, L.t_ignore is not None and set(L.t_ignore) == {" ", "\t"},
           "t_ignore is space and tab" if L.t_ignore is not None and set(L.t_ignore) == {" ", "\t"} else "t_ignore is %r: characters other than blanks are silently dropped between tokens" % (L.t_ignore,))
    for r in L.rules:
        if r.kind == "func" and RL.contains(dfas[r.name], {"\n"}) is not None and RL.not_included(dfas[r.name], RL.dfa(r"[\r\n]+")) is None:
            ctx.ob("C10.b", "%s::%s::no-token" % (rel, r.name), rel, r.node.lineno, r.returns_token is False, "line breaks produce no token" if r.returns_token is False else "the newline rule returns a token the grammar does not expect")
    # ------------------------------------------------------------------ c
    ri, rf = L.rule("INT"), L.rule("FLOAT")
    if ri is None or rf is None:
        raise AnalysisError("INT/FLOAT rules vanished")
    w = RL.not_included(dfas[ri.name], RL.dfa(RL.L_INT_BUILTIN))
    ctx.ob("C10.c", "%s::t_INT::accepted-by-int" % rel, rel, ri.node.lineno, w is None, "L(INT) ⊆ L(int())" if w is None else "INT matches %r, which int() rejects (ValueError inside the lexer)" % w)
    w = RL.not_included(dfas[rf.name], RL.dfa(RL.L_FLOAT_BUILTIN))
    ctx.ob("C10.c", "%s::t_FLOAT::accepted-by-float" % rel, rel, rf.node.lineno, w is None, "L(FLOAT) ⊆ L(float())" if w is None else "FLOAT matches %r, which float() rejects" % w)
    w = RL.intersection(dfas[ri.name], dfas[rf.name])
    ctx.ob("C10.c", "%s::INT-FLOAT-disjoint" % rel, rel, ri.node.lineno, w is None, "no text is both INT and FLOAT" if w is None else "%r is both an INT and a FLOAT" % w)
    order = [r.name for r in L.priority]
    ok = order.index(rf.name) < order.index(ri.name) if rf.kind == ri.kind == "func" else rf.kind == "func"
    ctx.ob("C10.c", "%s::FLOAT-before-INT" % rel, rel, rf.node.lineno, ok, "FLOAT is tried before INT" if ok else "INT is tried before FLOAT: `1.5` lexes as INT 1 followed by `.5`")
    # a decimal must not be lexed as something else first: every rule tried before FLOAT must not match a FLOAT prefix
    for r in L.priority[: order.index(rf.name)]:
        w = RL.intersection(dfas[r.name], RL.dfa(r"[\-\+]?[0-9.][\s\S]*")) if not r.ignored else None
        if w is not None and r.name not in (ri.name,):
            ctx.violate("C10.c", "%s::%s::shadows-numbers" % (rel, r.name), rel, r.node.lineno, "rule %s is tried before FLOAT and matches %r: numbers are no longer lexed as numbers" % (r.name, w))
    for r, conv in ((ri, "int"), (rf, "float")):
        fn = r.node
        ok = False
        if isinstance(fn, ast.FunctionDef):
            t = fn.args.args[-1].arg
            s = K.src(fn).replace(" ", "")
            ok = ("%s.value=%s(%s.value)" % (t, conv, t)) in s and r.returns_token is True
        why = "value = %s(text), token returned" % conv if ok else "%s does not convert its text with %s() and return the token" % (r.name, conv)
        tokname = r.name[2:] if r.name.startswith("t_") else r.name
        if not ok and r.returns_token is True and L.lexer_converts(tokname) is None:
            # the token keeps its spelling: the conversion must then happen in the action of the production `x : INT | FLOAT`
            ok, why = number_action_converts(idx, L, tokname, conv)
            if ok is None:
                raise AnalysisError("C10.c: %s" % why)
        ctx.ob("C10.c", "%s::%s::converts" % (rel, r.name), rel, r.node.lineno, ok, why)
    # a number token is refused only when Python's own conversion refuses it: a SyntaxError raised in t_INT / t_FLOAT sits in the
    # handler of the conversion call - a test computed beside it (a length against a limit) can disagree with int() / float()
    ctx.rule("C10.n", "Numbers are refused only where int() / float() refuse them: every raise in the INT / FLOAT token functions is inside the except handler of the conversion call (a hand-made length test counts the sign, or reads a limit that is 0 when it is switched off, and rejects literals Python converts).")
    for r_ in (ri, rf):
        if not isinstance(r_.node, ast.FunctionDef):
            continue
        in_handler = {id(x) for t_ in ast.walk(r_.node) if isinstance(t_, ast.Try) and any(isinstance(c_, ast.Call) and K.src(c_.func) in ("int", "float") for b_ in t_.body for c_ in ast.walk(b_))
                      for h_ in t_.handlers for x in ast.walk(h_)}
        loose = [x for x in ast.walk(r_.node) if isinstance(x, ast.Raise) and id(x) not in in_handler]
        if loose:
            g_ = K.int_length_guard(r_.node)
            mine = g_ is not None and all(any(x is y for b_ in g_[1].body for y in ast.walk(b_)) for x in loose)
            if mine and g_[0] == "exact":
                ctx.hold("C10.n", "%s::%s::refused-only-by-the-conversion" % (rel, r_.name), rel, g_[1].lineno, "the length test in front of int() is int()'s own: digits without the sign against sys.get_int_max_str_digits(), skipped when that is 0")
                continue
            if mine and g_[0] == "wrong":
                ctx.violate("C10.n", "%s::%s::refused-only-by-the-conversion" % (rel, r_.name), rel, g_[1].lineno, "`%s` refuses a number on a test of its own: %s" % (K.src(g_[1].test)[:60], g_[2]))
                continue
            raise AnalysisError("C10.n: %s raises on a test of its own (`%s`) beside the conversion; whether that test agrees with %s() is not decided" % (r_.name, K.src(loose[0])[:40], "int" if r_ is ri else "float"))
        ctx.ob("C10.n", "%s::%s::refused-only-by-the-conversion" % (rel, r_.name), rel, loose[0].lineno if loose else r_.node.lineno, not loose, "no raise outside the handler of the conversion" if not loose else
               "`%s` refuses a number on a test of its own, outside the handler of the conversion: where that test and %s() disagree (a sign counted as a digit, a digit limit that is switched off and reads 0) a literal Python converts is a syntax error" % (K.src(loose[0])[:60], "int" if r_ is ri else "float"))
    # ------------------------------------------------------------------ d
    # nonterminals that stand for punctuation only (`optional_comma : COMMA | empty`, `empty :`): every production is made of
    # punctuation tokens and such nonterminals, and no action gives them a value - nothing to thread
    novalue = set()
    grew = True
    while grew:
        grew = False
        for nt_ in nts:
            if nt_ in novalue:
                continue
            ps_ = [p for p in L.productions if p.lhs == nt_]
            if ps_ and all(all(sym in VALUELESS or sym in novalue for sym in p.rhs) for p in ps_) and all(p0_value(p.func) is None for p in ps_):
                novalue.add(nt_)
                grew = True
    for fname, prods in sorted(byfunc.items()):
        f = prods[0].func
        v = p0_value(f)
        con = "%s::Parser.%s::threads-values" % (rel, fname)
        if v is None and all(p.lhs in novalue for p in prods):
            ctx.hold("C10.d", con, rel, f.lineno, "punctuation only: %s carries no value" % "/".join(sorted({p.lhs for p in prods})))
            continue
        if v is None:
            ctx.violate("C10.d", con, rel, f.lineno, "action never assigns p[0]")
            continue
        flow = p_flow(f)
        # uses that only ask a question about the value (`2 if any(c.x is None for c in p[1]) else 3`, len(p[1])) do not place it
        asking = set()
        for x in ast.walk(v):
            if isinstance(x, ast.IfExp):
                asking |= {id(y) for y in ast.walk(x.test)}
            if isinstance(x, ast.Call) and isinstance(x.func, ast.Name) and x.func.id in ("any", "all", "len", "isinstance", "bool"):
                asking |= {id(y) for y in ast.walk(x)}
        direct = [i for i, n in p_indices(f) if any(n is x for x in ast.walk(v)) and id(n) not in asking]
        via_temps = bool(flow - set(direct))
        probs = []
        for p in prods:
            for i, sym in enumerate(p.rhs, 1):
                if sym in VALUELESS or sym in novalue:
                    if i in flow:
                        probs.append("punctuation %s (p[%d]) flows into the value" % (sym, i))
                elif sym in ("TRUE", "FALSE", "ID", "INT", "FLOAT", "STRING", "PLAIN_STRING") or sym in nts:
                    if i not in flow:
                        probs.append("`%s`: the value of %s (p[%d]) is dropped" % (p, sym, i))
                    elif not via_temps and direct.count(i) > 1:
                        probs.append("`%s`: p[%d] is used %d times" % (p, i, direct.count(i)))
        # order of list building: [p[1]] + p[3]   (only decidable when p[0] is written as a sum directly)
        if isinstance(v, ast.BinOp) and isinstance(v.op, ast.Add):
            flat = []

            def walk_add(e):
                if isinstance(e, ast.BinOp) and isinstance(e.op, ast.Add):
                    walk_add(e.left)
                    walk_add(e.right)
                else:
                    for i, n in p_indices(f):
                        if any(n is x for x in ast.walk(e)):
                            flat.append(i)
            walk_add(v)
            if flat != sorted(flat):
                probs.append("values are combined in the order %s, not in source order" % flat)
        if probs:
            ctx.violate("C10.d", con, rel, f.lineno, "; ".join(probs[:3]))
        else:
            ctx.hold("C10.d", con, rel, f.lineno, "every value-carrying symbol reaches p[0]%s" % ("" if via_temps else ", once, in order"))
    # ------------------------------------------------------------------ e
    want = {
        "argument_list": [["argument", "COMMA"], ["argument"], ["argument", "COMMA", "argument_list"]],
        "elements": [["element", "COMMA"], ["element"], ["element", "COMMA", "elements"]],
        "tuple_pairs": [["tuple_pair", "COMMA"], ["tuple_pair"], ["tuple_pair", "COMMA", "tuple_pairs"]],
        "arguments": [["LPAREN", "RPAREN"], ["LPAREN", "argument_list", "RPAREN"]],
        "list": [["LBRACK", "RBRACK"], ["LBRACK", "elements", "RBRACK"]],
    }
    # decided on the language the productions generate (an Earley recogniser over the extracted grammar), not on how it is written
    X, A, P = ["STRING"], ["ID", "EQUAL", "STRING"], ["STRING", "COLON", "STRING"]
    forms = {
        "elements": ("list", "LBRACK", "RBRACK", X), "tuple_pairs": ("list", "LBRACK", "RBRACK", P), "argument_list": ("arguments", "LPAREN", "RPAREN", A),
    }
    lang_done = set()
    if all(any(p.lhs == st for p in L.productions) for st, _o, _c, _i in forms.values()):
        for lhs, (start, o_, c_, item) in forms.items():
            yes = {"one item": [o_] + item + [c_], "a trailing comma": [o_] + item + ["COMMA", c_], "two items": [o_] + item + ["COMMA"] + item + [c_], "two items and a trailing comma": [o_] + item + ["COMMA"] + item + ["COMMA", c_]}
            no = {"an empty slot between two commas": [o_] + item + ["COMMA", "COMMA"] + item + [c_], "a leading comma": [o_, "COMMA"] + item + [c_], "two trailing commas": [o_] + item + ["COMMA", "COMMA", c_]}
            lost = [k for k, seq in yes.items() if not grammar.derives(L.productions, start, seq)]
            gained = [k for k, seq in no.items() if grammar.derives(L.productions, start, seq)]
            ctx.ob("C10.e", "%s::grammar(%s)::layout-forms" % (rel, lhs), rel, 0, not lost and not gained, "lists of %s accept one or more items with an optional trailing comma, and nothing else" % lhs if not lost and not gained else
                   "; ".join((["%s is no longer accepted" % k for k in lost] + ["%s is now accepted (an element is silently skipped)" % k for k in gained])[:3]))
            lang_done.add(lhs)
        # ... and on the parser PLY generates from these productions: an LALR(1) table with yacc's conflict resolution (shift
        # unless precedence says otherwise).  A grammar that derives a trailing comma but needs two tokens of look-ahead to tell it
        # from a separating one (right recursion + `optional_comma`) shifts the comma and then fails at the bracket.
        tab = grammar.LRTable(L.productions, L.start, L.precedence)
        tab1 = grammar.LRTable(L.productions, L.start, L.precedence, merge=False)
        wrap = {"arguments": (["ID", "EQUAL", "ID"], []), "list": (["ID", "EQUAL", "ID", "LPAREN", "ID", "EQUAL"], ["RPAREN"])}
        n_lr = 0
        lr_undecided = []
        for lhs, (start, o_, c_, item) in forms.items():
            pre_, post_ = wrap[start]
            lost, unsure = [], []
            for k_ in (1, 2, 3):
                for tr_ in (False, True):
                    seq = []
                    for j_ in range(k_):
                        seq += item + (["COMMA"] if (j_ < k_ - 1 or tr_) else [])
                    toks_ = pre_ + [o_] + seq + [c_] + post_
                    if not grammar.derives(L.productions, L.start, toks_):
                        continue  # not in the language: reported above
                    n_lr += 1
                    a_, b_ = tab.accepts(toks_), tab1.accepts(toks_)
                    if not a_ and not b_:
                        lost.append("%d item%s%s" % (k_, "s" if k_ > 1 else "", " and a trailing comma" if tr_ else ""))
                    elif a_ != b_:
                        unsure.append(" ".join(toks_))
            if unsure and not lost:
                lr_undecided.append("C10.e: the LALR(1) and the canonical LR(1) table of the extracted grammar disagree on `%s`; which of them PLY's table follows is not decided" % unsure[0])
                continue
            sr_ = sorted({"%s before %s" % (" ".join(tab.prods[c[4]][1]) or "<empty>", c[1]) for c in tab.conflicts if c[2] == "shift/reduce" and c[3] == "shift" and c[1] == "COMMA"})
            ctx.ob("C10.e", "%s::grammar(%s)::generated-parser" % (rel, lhs), rel, 0, not lost, "the LALR(1) parser generated from the productions accepts 1-3 items with and without a trailing comma" if not lost else
                   "the grammar derives %s, but the LALR(1) parser PLY generates from it does not accept %s: a shift/reduce conflict on COMMA (%s) is resolved as a shift, so after a comma the parser is committed to another item and fails at the closing bracket" % (
                       lhs, "; ".join(lost[:3]), ", ".join(sr_[:2]) or "see the table"))
        ctx.floor("C10.e", "layout forms run through the generated LR table", n_lr, 9)
        if lr_undecided:
            raise AnalysisError(lr_undecided[0])
        # ... and for every conflict yacc resolved silently: no sentence the grammar derives (all of them, up to a length) is lost
        # to it.  An LALR(1) parser without conflicts accepts exactly the language; each conflict resolved against a derivation
        # costs the sentences that needed the other choice.
        ctx.rule("C10.l", "What the grammar derives the generated parser accepts: every sentence of up to N token names derived from the extracted productions (N = %d quick, %d thorough) is run through the LALR(1) table; a rejected sentence is charged to the silently resolved conflict(s) its run went through." % (LR_LEN["quick"], LR_LEN["thorough"]))
        at_ = tab.conflict_at()
        n_tok = LR_LEN.get(ctx.tier, LR_LEN["quick"])
        sents = None
        while n_tok >= 8:
            sents = grammar.sentences(L.productions, L.start, n_tok)
            if sents is not None:
                break
            n_tok -= 1
        if sents is None:
            raise AnalysisError("C10.l: the grammar derives too many sentential forms of 8 tokens to enumerate")
        ctx.floor("C10.l", "sentences of up to %d tokens derived by the grammar" % n_tok, len(sents), 200)
        blamed, multi, unsure_l = {}, [], []
        for snt in sorted(sents, key=lambda z: (len(z), z)):
            seen_c = set()
            if tab.accepts(snt, seen_c, at_):
                continue
            if tab1.accepts(snt):
                unsure_l.append(snt)
                continue
            if not seen_c:
                raise AnalysisError("C10.l: `%s` is derived by the grammar and refused by the conflict-free part of the generated table - the table construction is wrong" % " ".join(snt))
            if len(seen_c) == 1:
                blamed.setdefault(next(iter(seen_c)), snt)
            else:
                multi.append((snt, seen_c))
        for snt, cs in multi:
            if not (cs & set(blamed)):
                for c_ in cs:
                    blamed.setdefault(c_, snt)
        for c_ in sorted(set(at_.values())):
            w_ = blamed.get(c_)
            ctx.ob("C10.l", "%s::grammar::derived-is-accepted(%s)" % (rel, c_), rel, 0, w_ is None,
                   "the conflict is resolved without losing any of the %d derived sentences of up to %d tokens" % (len(sents), n_tok) if w_ is None else
                   "the grammar derives `%s`, but the generated parser refuses it: the conflict `%s` is resolved silently (as yacc does: shift, or the rule written first) and the parser is then committed to the other reading" % (" ".join(w_), c_))
        if not at_:
            ctx.hold("C10.l", "%s::grammar::derived-is-accepted(no conflicts)" % rel, rel, 0, "the LALR(1) table has no conflict: the generated parser accepts exactly what the grammar derives (%d sentences of up to %d tokens confirmed)" % (len(sents), n_tok))
        if unsure_l and not blamed:
            raise AnalysisError("C10.l: the LALR(1) and the canonical LR(1) table disagree on `%s`" % " ".join(unsure_l[0]))
        for lhs, (o_, c_) in (("arguments", ("LPAREN", "RPAREN")), ("list", ("LBRACK", "RBRACK"))):
            okl = grammar.derives(L.productions, lhs, [o_, c_])
            ctx.ob("C10.e", "%s::grammar(%s)::layout-forms" % (rel, lhs), rel, 0, okl, "the empty form is accepted" if okl else "the empty form `%s %s` is no longer accepted" % (o_, c_))
            lang_done.add(lhs)
    for lhs, alts in want.items():
        if lhs in lang_done:
            continue
        have = [p.rhs for p in L.productions if p.lhs == lhs]
        miss = [a for a in alts if a not in have]
        ctx.ob("C10.e", "%s::grammar(%s)::layout-forms" % (rel, lhs), rel, 0, not miss, "empty / trailing-separator forms present" if not miss else "`%s : %s` is missing: %s is no longer accepted" % (lhs, " ".join(miss[0]), "a trailing comma" if miss[0][-1] == "COMMA" else "the empty form" if len(miss[0]) == 2 else "this form"))
    # ------------------------------------------------------------------ f
    numeric = {"INT", "FLOAT"}
    for fname, prods in sorted(byfunc.items()):
        f = prods[0].func
        v = p0_value(f)
        if v is None:
            continue
        for n in ast.walk(v):
            if isinstance(n, ast.Call) and isinstance(n.func, ast.Name) and n.func.id in ("str", "repr", "format") and n.args:
                for i, sub in p_indices(f):
                    if any(sub is x for x in ast.walk(n.args[0])):
                        syms = {p.rhs[i - 1] for p in prods if i is not None and i <= len(p.rhs)}
                        if syms & numeric:
                            ctx.violate("C10.f", "%s::Parser.%s::restringified-number" % (rel, fname), rel, n.lineno,
                                        "`%s` turns an already converted %s token back into text: `1.50abc` becomes `1.5abc`, `007x` becomes `7x`" % (K.src(n), "/".join(sorted(syms & numeric))))
        if isinstance(v, ast.BinOp) and isinstance(v.op, ast.Add):
            parts = []

            def flat(e):
                if isinstance(e, ast.BinOp) and isinstance(e.op, ast.Add):
                    flat(e.left)
                    flat(e.right)
                else:
                    parts.append(e)
            flat(v)
            textual = [e for e in parts if not isinstance(e, (ast.List, ast.ListComp))]
            idxs = [i for e in textual for i, sub in p_indices(f) if any(sub is x for x in ast.walk(e))]
            if len(textual) == len(parts) and len(idxs) >= 2:
                ctx.violate("C10.f", "%s::Parser.%s::concatenated-tokens" % (rel, fname), rel, v.lineno,
                            "`%s` glues the values of separate tokens together: blanks the lexer skipped between them are lost (`This is a string.` -> `Thisisastring.`)" % K.src(v))
    actions_keep_values(ctx, idx, L, "C10.f")
    rs = L.rule("STRING")
    if rs is None or not isinstance(rs.node, ast.FunctionDef):
        raise AnalysisError("STRING rule vanished")
    t = rs.node.args.args[-1].arg
    body = K.src(rs.node)
    # the STRING token is one quoted string: it ends at the first unescaped occurrence of ITS OWN opening quote (inclusion in the
    # language of such strings), and every single-line quoted string with escapes is a token (inclusion the other way)
    ctx.rule("C10.m", "A quoted string is one token and ends at its own closing quote: L(STRING) is included in `q (non-q non-backslash | backslash any)* q` for each quote q, and includes every single-line string of that form. A pattern whose escape branch reads the wrong quote class lets the token run on to a later quote (two arguments become one value).")
    Q_SAFE = r'"([^"\\]|\\[\s\S])*"|\'([^\'\\]|\\[\s\S])*\''
    Q_MIN = r'"([^"\\\r\n]|\\[^\r\n])*"|\'([^\'\\\r\n]|\\[^\r\n])*\''
    w_ = RL.not_included(dfas[rs.name], RL.dfa(Q_SAFE))
    ctx.ob("C10.m", "%s::t_STRING::ends-at-its-closing-quote" % rel, rel, rs.node.lineno, w_ is None, "every STRING token is a single quoted string" if w_ is None else
           "the STRING pattern matches %r as ONE token: it runs past the closing quote of the string it started in, so what follows (another argument, another command) becomes part of the value - and the same text with the other kind of quote parses differently" % w_)
    w_ = RL.not_included(RL.dfa(Q_MIN), dfas[rs.name])
    ctx.ob("C10.m", "%s::t_STRING::every-quoted-string-is-a-token" % rel, rel, rs.node.lineno, w_ is None, "every single-line quoted string (escapes included) is a STRING token" if w_ is None else
           "the quoted string %r is not a STRING token: a well-formed value is rejected (or lexed as something else)" % w_)
    con = "%s::t_STRING::quote-removal" % rel
    strip = [n for n in ast.walk(rs.node) if isinstance(n, ast.Call) and isinstance(n.func, ast.Attribute) and (n.func.attr in ("strip", "lstrip", "rstrip") or (n.func.attr == "replace" and len(n.args) == 2 and isinstance(n.args[0], ast.Constant) and n.args[0].value in ('"', "'") and isinstance(n.args[1], ast.Constant) and n.args[1].value == ""))]
    sl = [n for n in ast.walk(rs.node) if isinstance(n, ast.Subscript) and isinstance(n.slice, ast.Slice) and K.src(n.slice) == "1:-1"]
    pyeval = [n for n in ast.walk(rs.node) if isinstance(n, ast.Call) and (idx.qualname(L.mod, n.func) or K.src(n.func)) in ("ast.literal_eval", "builtins.eval", "eval") and n.args and K.src(n.args[0]) == "%s.value" % t]
    if pyeval:
        # the token text is handed to Python's own literal reader: every STRING token must then be a Python string literal
        PY_LITERAL = r'"([^"\\\n]|\\[\s\S])*"|\'([^\'\\\n]|\\[\s\S])*\''
        wit = RL.not_included(dfas[rs.name], RL.dfa(PY_LITERAL))
        ctx.ob("C10.f", con, rel, pyeval[0].lineno, wit is None, "every STRING token is a Python string literal" if wit is None else
               "the token text is decoded with %s, but the STRING pattern accepts %r, which is not a Python string literal (a quoted string spanning lines): a well-formed value is rejected, although the same text written with an escape still parses" % (K.src(pyeval[0].func), wit))
    elif strip:
        ctx.violate("C10.f", con, rel, strip[0].lineno, "`%s` removes every leading/trailing quote character, not one delimiter each side: `\"'x'\"` yields `x`" % K.src(strip[0]))
    elif sl:
        ctx.hold("C10.f", con, rel, sl[0].lineno, "delimiters removed positionally (v[1:-1])")
    else:
        raise AnalysisError("C10.f: quote removal in t_STRING is outside the recognised forms")
    # a rewrite of the string body by a regular expression BEFORE it is decoded must read escapes the way the decoder does: in
    # pairs.  A pattern that consumes one backslash and only LOOKS at what follows judges every backslash on its own - the second
    # backslash of `\\\\` (an escaped backslash) is then taken for the start of an escape of the next character
    con = "%s::t_STRING::body-reaches-decoder" % rel
    pre = [n for n in ast.walk(rs.node) if isinstance(n, ast.Call) and isinstance(n.func, ast.Attribute) and n.func.attr in ("sub", "subn") and n.args and any("1:-1" in K.src(a_) or ("%s.value" % t) in K.src(a_) for a_ in n.args)]
    for n in pre:
        pat_src = None
        recv = n.func.value
        cands = []
        if isinstance(recv, ast.Attribute):
            # self.<name> / Lexer.<name>: a class attribute holding re.compile(<literal>)
            for st_ in ast.walk(L.lexer_cls.node):
                if isinstance(st_, ast.Assign) and any(isinstance(t_, ast.Name) and t_.id == recv.attr for t_ in st_.targets) and isinstance(st_.value, ast.Call) and st_.value.args and isinstance(st_.value.args[0], ast.Constant):
                    cands.append(st_.value.args[0].value)
        elif isinstance(recv, ast.Name) and recv.id == "re" and isinstance(n.args[0], ast.Constant):
            cands.append(n.args[0].value)
        if len(cands) == 1 and isinstance(cands[0], str):
            pat_src = cands[0]
        if pat_src is None:
            raise AnalysisError("C10.f: the string body is rewritten by `%s` before it is decoded and the pattern is not a literal" % K.src(n)[:50])
        import re as _re

        try:
            tree = _re._parser.parse(pat_src)
        except Exception:
            raise AnalysisError("C10.f: cannot read the pattern %r" % pat_src)
        items = list(tree)
        single_backslash_lookahead = len(items) == 2 and str(items[0][0]) == "LITERAL" and items[0][1] == 92 and str(items[1][0]) in ("ASSERT_NOT", "ASSERT")
        if single_backslash_lookahead:
            ctx.violate("C10.f", con, rel, n.lineno, "`%s` rewrites the string body with %r, which consumes ONE backslash and only looks at the next character: escapes are not read in pairs, so in `\\\\d` (an escaped backslash followed by `d`) the second backslash is taken for an unknown escape and doubled - \"C:\\\\data\" comes back with two backslashes, and \"a\\\\\" is rejected" % (K.src(n)[:50], pat_src))
        else:
            raise AnalysisError("C10.f: the string body is rewritten by a regular expression (%r) before it is decoded; whether it reads escapes the way the decoder does is not decided" % pat_src)
    if not pre:
        ctx.hold("C10.f", con, rel, rs.node.lineno, "the string body goes to the decoder as sliced", nontrivial=False)
    con = "%s::t_STRING::escape-codec" % rel
    from . import strcodec as _sc

    dec = _sc.unicode_escape_calls(rs.node)
    if dec:
        dn_, enc, encoding_ = dec[0]
        if encoding_ == "latin-1":
            ctx.hold("C10.f", con, rel, dn_.lineno, "latin-1/backslashreplace encode is inverted by unicode_escape for every code point")
        elif encoding_ == "utf-8":
            ctx.violate("C10.f", con, rel, dn_.lineno, "text is encoded as UTF-8 (explicitly, or by handing text to the codec) but `unicode_escape` reads the bytes as Latin-1: `é` comes back as `Ã©`")
        elif isinstance(enc, ast.Call) and isinstance(enc.func, ast.Attribute) and enc.func.attr == "encode":
            raise AnalysisError("C10.f: encode(%s) before unicode_escape is outside the recognised codec pairs" % K.src(enc)[:60])
        else:
            raise AnalysisError("C10.f: decode('unicode_escape') without a recognisable encode")
    else:
        from . import strcodec

        decd = strcodec.reader_decoder(idx, L)
        if decd["kind"] == "chain":
            # escapes decoded by successive str.replace calls: each call rescans text the previous one produced
            wit = strcodec.chain_is_single_pass(decd, lambda tx: RL.accepts(dfas[rs.name], tx))
            ctx.ob("C10.f", con, rel, decd["node"].lineno, wit is None, "the replacement table decodes every short token body as one left-to-right pass would" if wit is None else
                   "escapes are decoded by successive replacements over the whole text, so output of one replacement is decoded again by the next: the quoted string \"%s\" yields %r instead of %r (an escaped backslash followed by a letter turns into a control character)" % (wit, strcodec.decode_with(decd, wit), strcodec.single_pass(decd["pairs"], wit)))
        else:
            ctx.note("t_STRING processes no escape sequences")
    # decoding errors -> SyntaxError
    con = "%s::t_STRING::decode-errors" % rel
    dec = [d_[0] for d_ in dec]
    if dec:
        guarded = False
        for n in ast.walk(rs.node):
            if isinstance(n, ast.Try) and any(dec[0] is x for b in n.body for x in ast.walk(b)):
                for h in n.handlers:
                    hs = K.src(h.type) if h.type is not None else ""
                    raises_syntax = any(isinstance(x, ast.Raise) and x.exc is not None and "SyntaxError" in K.src(x.exc) for x in ast.walk(h))
                    if ("UnicodeDecodeError" in hs or "UnicodeError" in hs or "ValueError" in hs or hs in ("Exception", "")) and raises_syntax:
                        guarded = True
        ctx.ob("C10.f", con, rel, dec[0].lineno, guarded, "UnicodeDecodeError is converted to SyntaxError" if guarded else
               "a malformed escape (`\"\\x\"`, a trailing backslash before the quote) raises UnicodeDecodeError out of the lexer instead of a syntax error")
    # ------------------------------------------------------------------ g
    error_callbacks_total(ctx, idx, "C10.g", L)
    for nm, fn in (("t_error", L.t_error), ("p_error", L.p_error)):
        con = "%s::%s::raises-syntax-error" % (rel, nm)
        if fn is None:
            ctx.violate("C10.g", con, rel, 0, "%s vanished: PLY skips illegal input silently" % nm)
            continue
        from engine.cfg import CFG
        cfg = CFG(fn, idx, L.mod, None)
        ends_normally = cfg.exit in cfg.reachable()
        rz = [n for n in cfg.find("raise") if (n.meta.get("qual") or "") == "builtins.SyntaxError"]
        other = [n for n in cfg.find("raise") if n not in rz]
        ok = not ends_normally and rz and not other
        ctx.ob("C10.g", con, rel, fn.lineno, ok, "raises SyntaxError on every path" if ok else "%s can return normally or raise something else: malformed text is skipped or misreported" % nm)


def number_action_converts(idx, L, tok, conv):
    """(ok|None, why): the grammar action that receives the unconverted token text of `tok` turns it into the right kind of number"""
    prods = [p for p in L.productions if p.rhs == [tok] or list(p.rhs) == [tok]]
    if not prods:
        return False, "%s keeps its spelling and no production `x : %s` converts it: numbers are delivered as text" % (tok, tok)
    f = prods[0].func
    parg = f.args.args[-1].arg

    def is_p1(e):
        return isinstance(e, ast.Subscript) and isinstance(e.value, ast.Name) and e.value.id == parg and isinstance(e.slice, ast.Constant) and e.slice.value == 1

    calls = [n for n in ast.walk(f) if isinstance(n, ast.Call) and isinstance(n.func, ast.Name) and n.func.id in ("int", "float") and len(n.args) == 1 and is_p1(n.args[0])]
    if not calls:
        return False, "%s keeps its spelling and the action %s does not convert it with %s(): the value is delivered as text" % (tok, f.name, conv)
    # `try: int(text) except ValueError: float(text)`
    for tr in [n for n in ast.walk(f) if isinstance(n, ast.Try)]:
        ints = [c for c in calls if c.func.id == "int" and any(c is x for b in tr.body for x in ast.walk(b))]
        flts = [c for c in calls if c.func.id == "float" and any(c is x for h in tr.handlers for x in ast.walk(h))]
        if ints and flts:
            hs = " ".join(K.src(h.type) if h.type is not None else "" for h in tr.handlers)
            if tok == "INT":
                return False, ("the action %s reads the number as `int(text)` and falls back on `float(text)` when int() raises %s: int() also raises ValueError for an INT literal of more than %d digits (Python's digit limit), so such an integer is silently delivered as a float (inf) instead of being an integer or a syntax error" % (f.name, hs or "anything", RL.INT_MAX_STR_DIGITS))
            return True, "FLOAT text fails int() and is converted by the float() fallback in %s" % f.name
    # dispatch on the token type
    kinds = {c.func.id for c in calls}
    if kinds == {conv}:
        return True, "converted with %s() in %s" % (conv, f.name)
    if conv in kinds:
        for iff in [n for n in ast.walk(f) if isinstance(n, ast.If)]:
            ts = K.src(iff.test)
            if ".type" in ts and ("'%s'" % tok in ts or '"%s"' % tok in ts):
                body_calls = {c.func.id for c in calls if any(c is x for b in iff.body for x in ast.walk(b))}
                if body_calls == {conv}:
                    return True, "converted with %s() in %s under a test of the token type" % (conv, f.name)
            elif ".type" in ts and isinstance(iff.test, ast.Compare) and isinstance(iff.test.ops[0], ast.Eq) and iff.orelse:
                # `if type == "<the other number token>": ... else: <this one>`
                others = {"INT", "FLOAT"} - {tok}
                if any(("'%s'" % o in ts or '"%s"' % o in ts) for o in others) and set(prods[0].rhs) | {r_ for p_ in prods for r_ in p_.rhs} <= {"INT", "FLOAT"} | {tok}:
                    else_calls = {c.func.id for c in calls if any(c is x for b in iff.orelse for x in ast.walk(b))}
                    if else_calls == {conv}:
                        return True, "converted with %s() in the else branch of %s's token-type test" % (conv, f.name)
        return None, "the action %s applies %s to the text of %s in a form the analyser cannot decide" % (f.name, "/".join(sorted(kinds)), tok)
    return False, "the action %s converts the text of %s with %s(), not %s()" % (f.name, tok, "/".join(sorted(kinds)), conv)


def actions_keep_values(ctx, idx, L, rule):
    rel = L.mod.rel
    # grammar actions hand token values on as they are: no trimming / case folding / substitution of a value taken from p[i]
    # (a quoted string keeps its blanks; only the lexer decides what belongs to a token)
    TRANSFORMS = ("strip", "lstrip", "rstrip", "lower", "upper", "title", "capitalize", "casefold", "replace", "expandtabs", "translate", "swapcase", "zfill")
    seen_fn = set()
    for prod in L.productions:
        f = prod.func
        if f.name in seen_fn:
            continue
        seen_fn.add(f.name)
        parg = f.args.args[-1].arg
        derived = set()
        changed = True
        while changed:
            changed = False
            for n in ast.walk(f):
                if isinstance(n, ast.Assign) and len(n.targets) == 1 and isinstance(n.targets[0], ast.Name) and n.targets[0].id not in derived:
                    if any(isinstance(x, ast.Subscript) and isinstance(x.value, ast.Name) and x.value.id == parg for x in ast.walk(n.value)) or (K.names_in(n.value) & derived):
                        derived.add(n.targets[0].id)
                        changed = True
        # terminals each nonterminal can derive (to know which symbols can carry a quoted string)
        derives = {}
        changed2 = True
        nts = {p_.lhs for p_ in L.productions}
        while changed2:
            changed2 = False
            for p_ in L.productions:
                cur = derives.setdefault(p_.lhs, set())
                for sym in p_.rhs:
                    add = derives.get(sym, set()) if sym in nts else {sym}
                    if not add <= cur:
                        cur |= add
                        changed2 = True

        def only_unquoted(call):
            """the rewrite trims blanks and sits under `if p.slice[i].type == NT` with NT unable to derive a STRING token"""
            if call.func.attr not in ("strip", "lstrip", "rstrip"):
                return False
            if call.args:
                try:
                    chars = idx.const(L.mod, call.args[0])
                except Exception:
                    chars = None
                    if isinstance(call.args[0], ast.Attribute) and call.args[0].attr == "t_ignore":
                        chars = L.t_ignore
                if not isinstance(chars, str) or set(chars) - {" ", "\t"}:
                    return False
            for iff in ast.walk(f):
                if isinstance(iff, ast.If) and any(call is x for b_ in iff.body for x in ast.walk(b_)):
                    t_ = iff.test
                    if isinstance(t_, ast.Compare) and len(t_.ops) == 1 and isinstance(t_.ops[0], (ast.Eq, ast.In)) and K.src(t_.left).replace(" ", "").startswith("%s.slice[" % parg) and K.src(t_.left).endswith(".type"):
                        try:
                            names_ = idx.const(L.mod, t_.comparators[0])
                        except Exception:
                            return False
                        names_ = [names_] if isinstance(names_, str) else list(names_)
                        if names_ and all(isinstance(nm_, str) and "STRING" not in (derives.get(nm_, {nm_}) if nm_ in nts else {nm_}) for nm_ in names_):
                            return True
            return False

        for n in ast.walk(f):
            if isinstance(n, ast.Call) and isinstance(n.func, ast.Attribute) and n.func.attr in TRANSFORMS:
                recv = n.func.value
                from_p = any(isinstance(x, ast.Subscript) and isinstance(x.value, ast.Name) and x.value.id == parg for x in ast.walk(recv)) or bool(K.names_in(recv) & derived)
                if from_p and only_unquoted(n):
                    ctx.hold(rule, "%s::Parser.%s::value-rewritten" % (rel, f.name), rel, n.lineno, "blanks are trimmed only from values of a symbol that cannot be a quoted string")
                    continue
                if from_p:
                    ctx.violate(rule, "%s::Parser.%s::value-rewritten" % (rel, f.name), rel, n.lineno,
                                "the action rewrites a token value (`%s`): a quoted string loses characters that were inside its quotes, so the quoted and the unquoted spelling of a value no longer differ only in what needs quoting, and a serialised string does not read back" % K.src(n)[:60])


def retyping(idx, L):
    """tokens a function rule emits by re-typing its token for particular lexemes:
    `t.type = TABLE.get(t.value, "ID")` / `if t.value in TABLE: t.type = TABLE[t.value]` -> {token: (rule, lexemes)}"""
    out = {}
    for r in L.rules:
        if r.kind != "func":
            continue
        fn = r.node
        targ = fn.args.args[-1].arg
        for n in ast.walk(fn):
            if not (isinstance(n, ast.Assign) and len(n.targets) == 1 and isinstance(n.targets[0], ast.Attribute) and n.targets[0].attr == "type"
                    and isinstance(n.targets[0].value, ast.Name) and n.targets[0].value.id == targ):
                continue
            v = n.value
            table = None
            if isinstance(v, ast.Constant) and isinstance(v.value, str):
                out.setdefault(v.value, (r, set()))
                continue
            if isinstance(v, ast.Call) and isinstance(v.func, ast.Attribute) and v.func.attr == "get" and v.args:
                table = v.func.value
            elif isinstance(v, ast.Subscript):
                table = v.value
            if table is None:
                continue
            tv = None
            try:
                tv = idx.const(L.mod, table)
            except KeyError:
                if isinstance(table, ast.Attribute) and isinstance(table.value, ast.Name):
                    c0, expr = idx.find_attr(L.lexer_cls, table.attr)
                    if expr is not None:
                        try:
                            tv = idx.const(L.mod, expr)
                        except KeyError:
                            tv = None
            if isinstance(tv, dict):
                for word, tok in tv.items():
                    if isinstance(tok, str) and tok != r.token:
                        out.setdefault(tok, (r, set()))[1].add(word)
    return out


def error_callbacks_total(ctx, idx, rule, L):
    """p_error receives tokens whose value may be a converted number: only formatting/printing is total on it"""
    fn = L.p_error
    if fn is None:
        return
    parg = fn.args.args[-1].arg
    parents = {}
    for n in ast.walk(fn):
        for c in ast.iter_child_nodes(n):
            parents[id(c)] = n
    probs = []
    for n in ast.walk(fn):
        if isinstance(n, ast.Attribute) and n.attr == "value" and isinstance(n.value, ast.Name) and n.value.id == parg:
            par = parents.get(id(n))
            ok = False
            if isinstance(par, ast.Call) and n in par.args:
                f = par.func
                if isinstance(f, ast.Attribute) and f.attr == "format":
                    ok = True
                if isinstance(f, ast.Name) and f.id in ("str", "repr", "print", "format", "type", "isinstance"):
                    ok = True
            if isinstance(par, ast.FormattedValue) or isinstance(par, ast.keyword):
                ok = True
            if isinstance(par, ast.BinOp) and isinstance(par.op, ast.Mod) and par.right is n:
                ok = True
            if isinstance(par, ast.Tuple):
                gp = parents.get(id(par))
                if isinstance(gp, ast.BinOp) and isinstance(gp.op, ast.Mod):
                    ok = True
            if not ok:
                probs.append((n.lineno, "`%s`: the unexpected token may be an INT or FLOAT whose value is a number, so this raises TypeError inside the error handler and malformed text is no longer reported as a syntax error" % K.src(par)[:70]))
    con = "%s::p_error::token-value-use" % L.mod.rel
    if probs:
        ctx.violate(rule, con, L.mod.rel, probs[0][0], probs[0][1])
    else:
        ctx.hold(rule, con, L.mod.rel, fn.lineno, "the token value is only formatted")
    # nothing in an error callback may fail before the SyntaxError is raised: no partial operation (index, lookup, conversion)
    for nm, cb in (("t_error", L.t_error), ("p_error", L.p_error)):
        if cb is None:
            continue
        arg = cb.args.args[-1].arg
        partial = []
        for n in ast.walk(cb):
            if isinstance(n, ast.Subscript) and not isinstance(n.slice, ast.Slice) and isinstance(n.ctx, ast.Load):
                # t.value[0] in t_error: PLY calls t_error with the non-empty rest of the input as t.value
                # `<pattern>.split(text)[0]` / `[-1]`, `text.split(sep)[0]` / `[-1]`: splitting with a separator always yields at least one piece
                if isinstance(n.value, ast.Call) and isinstance(n.value.func, ast.Attribute) and n.value.func.attr in ("split", "rsplit", "partition", "rpartition") and n.value.args \
                        and ((isinstance(n.slice, ast.Constant) and n.slice.value in (0, -1)) or (isinstance(n.slice, ast.UnaryOp) and isinstance(n.slice.op, ast.USub) and isinstance(n.slice.operand, ast.Constant) and n.slice.operand.value == 1)):
                    continue
                if nm == "t_error" and K.src(n) == "%s.value[0]" % arg:
                    continue
                partial.append((n.lineno, "`%s` can raise IndexError/KeyError" % K.src(n)[:80]))
            if isinstance(n, ast.Call) and isinstance(n.func, ast.Name) and n.func.id in ("int", "float", "next", "ord", "chr", "min", "max"):
                partial.append((n.lineno, "`%s` can raise" % K.src(n)[:80]))
            if isinstance(n, ast.Call) and isinstance(n.func, ast.Attribute) and n.func.attr in ("index", "pop", "remove", "encode", "decode"):
                partial.append((n.lineno, "`%s` can raise" % K.src(n)[:80]))
        con = "%s::%s::no-partial-operation" % (L.mod.rel, nm)
        if partial:
            ctx.violate(rule, con, L.mod.rel, partial[0][0], "%s in %s, before the SyntaxError is raised: some malformed texts (e.g. with CR-only line breaks, where the line count and a split on LF disagree) then escape as another exception type" % (partial[0][1], nm))
        else:
            ctx.hold(rule, con, L.mod.rel, cb.lineno, "only total operations (attribute reads, formatting) precede the raise")
