"""Decision table of ResultParameter.clean extracted by path enumeration over a finite predicate set (C12.c)."""
import ast

from engine import tables
from engine.index import own_nodes
from engine.report import AnalysisError

from . import common as K

_cache = {}


def value_names(fi, valname):
    """local names that hold the value being validated: the parameter, copies of it, and the command looked up under it"""
    names = {valname}
    changed = True
    while changed:
        changed = False
        for n in own_nodes(fi.node):
            if isinstance(n, ast.Assign) and len(n.targets) == 1 and isinstance(n.targets[0], ast.Name) and n.targets[0].id not in names:
                v = n.value
                if isinstance(v, ast.Name) and v.id in names:
                    names.add(n.targets[0].id)
                    changed = True
                elif isinstance(v, ast.Subscript) and isinstance(v.value, ast.Attribute) and v.value.attr == "commands" and isinstance(v.slice, ast.Name) and v.slice.id in names:
                    names.add(n.targets[0].id)
                    changed = True
    return names


class _Canon(ast.NodeTransformer):
    def __init__(self, names, valname):
        self.names, self.valname = names, valname

    def visit_Name(self, node):
        if node.id in self.names and node.id != self.valname:
            return ast.copy_location(ast.Name(id=self.valname, ctx=node.ctx), node)
        return node


def classify(idx, fi, t, valname, selfname):
    """test expression -> (predicate, polarity-when-true)"""
    import copy

    names = value_names(fi, valname)
    e = t
    if isinstance(e, ast.Name) and e.id not in names:
        d_ = K.single_defs(fi).get(e.id)
        if d_ is not None:
            e = d_
    else:
        e = K.expand(fi, e) if not (isinstance(e, ast.Name)) else e
    e = _Canon(names, valname).visit(copy.deepcopy(e))
    neg_wrap = False
    while isinstance(e, ast.UnaryOp) and isinstance(e.op, ast.Not):
        neg_wrap = not neg_wrap
        e = e.operand
    pred, pol = _classify(idx, fi, e, valname, selfname)
    if pred is None and isinstance(t, ast.Name):
        return "var:" + t.id, True
    if pred is not None and neg_wrap:
        pol = not pol
    return pred, pol


def _classify(idx, fi, e, valname, selfname):
    s = K.src(e)
    if isinstance(e, ast.Call) and isinstance(e.func, ast.Name) and e.func.id == "isinstance" and len(e.args) == 2 and isinstance(e.args[0], ast.Name) and e.args[0].id == valname:
        q = idx.qualname(fi.module, e.args[1], fi) or ""
        if q in ("six.string_types", "builtins.str", "six.text_type"):
            return "S", True
        if q.endswith("commands.Command"):
            return "K", True
    if isinstance(e, ast.Compare) and len(e.ops) == 1 and isinstance(e.ops[0], (ast.Is, ast.IsNot, ast.Eq, ast.NotEq)):
        left = K.src(e.left)
        c = e.comparators[0]
        pos = isinstance(e.ops[0], (ast.Is, ast.Eq))
        if left == "%s.is_fuzzy" % selfname and isinstance(c, ast.Constant):
            if c.value is True:
                return "WT", pos
            if c.value is False:
                return "WF", pos
            if c.value is None:
                return "WN", pos
        if left == "%s.output_type" % selfname and isinstance(c, ast.Constant) and c.value is None:
            return "O", not pos
        if left == "%s.output" % valname and isinstance(c, ast.Constant) and c.value is None:
            return "P", not pos
    if isinstance(e, ast.Call) and isinstance(e.func, ast.Name) and e.func.id == "getattr" and len(e.args) >= 2 and isinstance(e.args[0], ast.Name) and e.args[0].id == valname and isinstance(e.args[1], ast.Constant):
        if e.args[1].value == "is_fuzzy":
            return "H", True
    if s == "%s.is_fuzzy" % valname:
        return "H", True
    if s == "%s.is_finished" % valname:
        return "D", True
    if isinstance(e, ast.Call) and isinstance(e.func, ast.Name) and e.func.id == "hasattr" and len(e.args) == 2 and K.src(e.args[0]) == "%s.output_type" % selfname and isinstance(e.args[1], ast.Constant) and e.args[1].value == "accepts":
        return "Q", True
    if s == "%s.output_type" % selfname:
        return "O", True
    if s == "%s.output" % valname:
        return "P", True
    if isinstance(e, ast.Name):
        return "var:" + e.id, True
    if isinstance(e, ast.Call) and isinstance(e.func, ast.Attribute) and isinstance(e.func.value, ast.Name) and e.func.value.id == selfname:
        # a helper method deciding "does the wanted type accept the producer's output?"
        m = idx.find_method(fi.cls, e.func.attr) if fi.cls is not None else None
        if m is not None:
            rets = [n for n in own_nodes(m.node) if isinstance(n, ast.Return) and n.value is not None]
            if rets and all(("accepts(" in K.src(r.value)) or ("issubclass(" in K.src(r.value)) for r in rets):
                return "A", True
    if isinstance(e, ast.Call) and ("accepts(" in s or "issubclass(" in s) and "output" in s:
        return "A", True
    return None, None


def extract(idx):
    """list of rows: (assignment dict, outcome, path)"""
    k = id(idx)
    if k in _cache:
        return _cache[k]
    ci = idx.cls("mpilot.params", "ResultParameter")
    fi = ci.methods.get("clean")
    if fi is None:
        raise AnalysisError("ResultParameter.clean vanished")
    cfg = K.cfg_of(idx, fi)
    args = [a.arg for a in fi.node.args.args]
    selfname, valname = args[0], args[1]
    # which local names stand for the 'accepted' verdict
    valid_defs = {}
    for n in own_nodes(fi.node):
        if isinstance(n, ast.Assign) and len(n.targets) == 1 and isinstance(n.targets[0], ast.Name):
            valid_defs.setdefault(n.targets[0].id, []).append(n.value)
    rows = []
    for p in cfg.paths(loop_bound=1, limit=200000):
        asg = {}
        feasible = True
        skip = False
        outcome = None
        prev = None
        for n, lab in p:
            if lab == "exc" and prev is not None:
                if prev.kind == "sub" and "commands" in K.src(prev.ast):
                    asg["F"] = False
                elif prev.kind == "call" and isinstance(prev.ast.func, ast.Attribute) and prev.ast.func.attr == "clean":
                    asg["V"] = False
                    outcome = "<wanted type's own error>"
                elif prev.kind == "raise":
                    pass
                elif prev.kind == "pad":
                    if n.kind == "raise_exit":
                        skip = True  # a foreign exception propagating uncaught: C13's business, not a row of this table
                        break
                else:
                    skip = True  # an exception from an operation modelled as total
                    break
            if prev is not None and prev.kind == "sub" and "commands" in K.src(prev.ast) and lab != "exc":
                asg.setdefault("F", True)
            if prev is not None and prev.kind == "call" and isinstance(prev.ast.func, ast.Attribute) and prev.ast.func.attr == "clean" and lab != "exc":
                asg.setdefault("V", True)
            if prev is not None and prev.kind == "test" and lab in ("true", "false"):
                pred, pol = classify(idx, fi, prev.ast, valname, selfname)
                if pred is None and len(args) > 2:
                    # `program is None`: without a program there is no table the name could be found in
                    t_ = prev.ast
                    neg_ = False
                    while isinstance(t_, ast.UnaryOp) and isinstance(t_.op, ast.Not):
                        t_, neg_ = t_.operand, not neg_
                    if isinstance(t_, ast.Compare) and len(t_.ops) == 1 and isinstance(t_.ops[0], (ast.Is, ast.IsNot)) and isinstance(t_.left, ast.Name) and t_.left.id == args[2] and isinstance(t_.comparators[0], ast.Constant) and t_.comparators[0].value is None:
                        absent = ((lab == "true") == isinstance(t_.ops[0], ast.Is)) != neg_
                        if absent:
                            if asg.get("F") is True:
                                feasible = False
                                break
                            asg["F"] = False
                            asg["N"] = True
                        elif asg.get("N"):
                            feasible = False
                            break
                        pred = "-"
                if pred is None:
                    raise AnalysisError("C12.c: test `%s` in ResultParameter.clean is outside the predicate vocabulary" % K.src(prev.ast))
                val = (lab == "true") == pol
                if pred == "-":
                    pass
                elif pred.startswith("var:"):
                    nm = pred[4:]
                    defs = valid_defs.get(nm, [])
                    if defs and all(("accepts(" in K.src(d)) or ("issubclass(" in K.src(d)) for d in defs):
                        pred = "A"
                    else:
                        raise AnalysisError("C12.c: test on local `%s` is outside the predicate vocabulary" % nm)
                if pred != "-":
                    if pred in asg and asg[pred] != val:
                        feasible = False
                        break
                    asg[pred] = val
            if n.kind == "raise":
                q = n.meta.get("qual") or "?"
                outcome = q.split(".")[-1]
            if n.kind == "return":
                v = n.ast.value
                outcome = "accept" if isinstance(v, ast.Name) and v.id in value_names(fi, valname) else "return:%s" % K.src(v)
            prev = n
        if skip or not feasible:
            continue
        if asg.get("WT") and asg.get("WF"):
            continue
        if asg.get("S") is False and "F" in asg and asg["F"] is False:
            continue
        if p[-1][0] is cfg.exit and outcome is None:
            outcome = "return:None"
        rows.append((asg, outcome, p))
    _cache[k] = (fi, rows)
    return _cache[k]


def spec(asg):
    """3-valued evaluation of the specification table; returns (outcome, None) or (None, missing predicate)"""

    def g(k):
        return asg.get(k)

    def need(k):
        raise KeyError(k)

    def val(k):
        v = g(k)
        if v is None:
            need(k)
        return v

    try:
        if g("S") is None:
            need("S")
        if g("S") and not val("F"):
            return "ResultDoesNotExist", None
        if not val("K"):
            return "ParameterNotValid", None
        wt = g("WT")
        wf = g("WF")
        if wt is None and g("WN") is None:
            need("WT")
        if wt:
            if not val("H"):
                return "ResultNotFuzzy", None
        else:
            if wf is None and g("WN") is None:
                need("WF")
            if wf and val("H"):
                return "ResultIsFuzzy", None
        if not val("O"):
            return "accept", None
        if val("D"):
            return ("accept" if val("V") else "<wanted type's own error>"), None
        if not val("P"):
            return "accept", None
        if not val("A"):
            return "ResultTypeNotValid", None
        return "accept", None
    except KeyError as ex:
        return None, ex.args[0]


def check(ctx, idx, A):
    fi, rows = extract(idx)
    ctx.count("result_clean_paths", len(rows))
    ctx.floor("C12.c", "feasible decision paths of ResultParameter.clean", len(rows), 8)
    con = "%s::decision-table" % fi.key
    bad = []
    outcomes = set()
    for asg, outcome, p in rows:
        want, missing = spec(asg)
        outcomes.add(outcome)
        if want is None:
            bad.append((asg, outcome, p, "reaches `%s` without testing %s" % (outcome, PRED_TEXT.get(missing, missing))))
        elif want == "<wanted type's own error>" and outcome == "ResultTypeNotValid":
            continue  # a finished result of the wrong kind may be refused by the wanted type's own error or re-reported as "result of the wrong type": both name the result
        elif want != outcome:
            bad.append((asg, outcome, p, "for %s the outcome is `%s`, the specification says `%s`" % (show(asg), outcome, want)))
    need = {"ResultDoesNotExist", "ParameterNotValid", "ResultNotFuzzy", "ResultIsFuzzy", "ResultTypeNotValid", "accept"}
    lost = need - outcomes
    if bad:
        asg, outcome, p, why = bad[0]
        ctx.violate("C12.c", con, K.rel(fi), fi.node.lineno, why + (" (+%d more rows)" % (len(bad) - 1) if len(bad) > 1 else ""), path=K.path_text(p, only=("test", "raise", "return")))
    elif lost:
        ctx.violate("C12.c", con, K.rel(fi), fi.node.lineno, "outcome(s) %s can no longer occur: that rejection has been lost" % sorted(lost))
    else:
        ctx.hold("C12.c", con, K.rel(fi), fi.node.lineno, "%d feasible rows agree with the specification table; outcomes %s" % (len(rows), sorted(outcomes)))
    # payloads (C12.f): each rejection names the referenced result / value
    for n in own_nodes(fi.node):
        if isinstance(n, ast.Raise) and isinstance(n.exc, ast.Call):
            nm = K.src(n.exc.func).split(".")[-1]
            a0 = K.src(n.exc.args[0]) if n.exc.args else ""
            valname = fi.node.args.args[1].arg
            vnames = value_names(fi, valname)
            a0n = n.exc.args[0] if n.exc.args else None
            if nm in ("ResultNotFuzzy", "ResultIsFuzzy", "ResultTypeNotValid"):
                ok = isinstance(a0n, ast.Attribute) and a0n.attr == "result_name" and isinstance(a0n.value, ast.Name) and a0n.value.id in vnames
            elif nm in ("ResultDoesNotExist", "ParameterNotValid"):
                ok = isinstance(a0n, ast.Name) and a0n.id in vnames
            else:
                continue
            ctx.ob("C12.f", "%s::payload(%s)" % (fi.key, nm), K.rel(fi), n.lineno, ok, "names the offending %s" % ("result" if "result_name" in a0 else "value") if ok else "%s is given `%s`, not the offending reference" % (nm, a0))


PRED_TEXT = {"S": "whether the value is a name", "F": "whether the name resolves", "K": "whether the value is a command", "WT": "the wanted fuzziness", "WF": "the wanted fuzziness",
             "H": "the producer's fuzziness", "O": "whether an output type is wanted", "D": "whether the producer has finished", "V": "the finished value",
             "P": "whether the producer declares an output", "A": "whether the wanted type accepts the producer's output"}


def show(asg):
    return "{" + ", ".join("%s=%s" % (k, "T" if v else "F") for k, v in sorted(asg.items())) + "}"


# -------------------------------------------------------------------------------------------- thorough: matrix
def accepts_static(idx, wanted, produced):
    """evaluate wanted.accepts(produced.__class__) / issubclass fallback from source; returns (code verdict, how)"""
    m = idx.find_method(wanted.cls, "accepts")
    if m is None:
        return idx.is_subclass(produced.cls, wanted.cls), "issubclass(output class, wanted class)"
    rets = [n for n in own_nodes(m.node) if isinstance(n, ast.Return)]
    if len(rets) != 1 or not (isinstance(rets[0].value, ast.Call) and K.src(rets[0].value.func) == "issubclass" and len(rets[0].value.args) == 2):
        raise AnalysisError("accepts() of %s is outside the recognised form" % wanted.cls.name)
    targ = rets[0].value.args[1]
    elts = targ.elts if isinstance(targ, ast.Tuple) else [targ]
    classes = []
    for e in elts:
        r = idx.resolve(m.module, e, m)
        if not r or r[0] != "class":
            raise AnalysisError("accepts() of %s names an unknown class" % wanted.cls.name)
        classes.append(r[1])
    return any(idx.is_subclass(produced.cls, c) for c in classes), "accepts"


def reference_accepts(idx, wanted, produced):
    """documented compatibility: same kind (subclass); a String input also takes Number and Path results"""
    if idx.is_subclass(produced.cls, wanted.cls):
        return True
    if wanted.cls.name in ("StringParameter",) and any(idx.is_subclass(produced.cls, idx.cls("mpilot.params", n)) for n in ("NumberParameter", "PathParameter", "StringParameter")):
        return True
    if wanted.cls.name == "NumberParameter" and idx.is_subclass(produced.cls, idx.cls("mpilot.params", "NumberParameter")):
        return True
    return False


def matrix(ctx, idx, A):
    fi, rows = extract(idx)
    cmds = K.table(idx)
    n = 0
    disagreements = 0
    for sname, libs in sorted(tables.library_sets(idx).items()):
        vis = tables.visible_commands(cmds, libs)
        consumers = []
        for c in vis:
            for nm, (kind, pt) in c.ref_inputs().items():
                consumers.append((c, nm, pt))
        for prod in vis:
            for c, nm, pt in consumers:
                n += 1
                W = pt.kw.get("is_fuzzy")
                wanted = pt.kw.get("output_type")
                asg = {"S": True, "F": True, "K": True, "WT": W is True, "WF": W is False, "H": prod.is_fuzzy is True, "O": wanted is not None, "D": False,
                       "P": prod.output is not None}
                code_A = None
                if wanted is not None and prod.output is not None:
                    code_A, how = accepts_static(idx, wanted, prod.output)
                    asg["A"] = code_A
                    asg["Q"] = idx.find_method(wanted.cls, "accepts") is not None
                    ref_A = reference_accepts(idx, wanted, prod.output)
                    if code_A != ref_A:
                        disagreements += 1
                        ctx.violate("C12.e", "%s::accepts(%s<-%s)" % (c.key, nm, prod.output.name), c.module.rel, c.cls.node.lineno,
                                    "%s.%s wants %s; producer %s declares %s: the library's accepts() says %s, the documented compatibility says %s" % (c.cls.name, nm, wanted.short(), prod.cls.name, prod.output.short(), code_A, ref_A))
                # outcome by the extracted table
                got = None
                for rasg, outcome, p in rows:
                    if all(asg.get(k2, v2) == v2 for k2, v2 in rasg.items() if k2 in asg) and all(k2 in asg for k2 in rasg if k2 not in ("V", "WN")):
                        got = outcome
                        break
                fz_ok = W is None or (W is True) == (prod.is_fuzzy is True)
                kind_ok = wanted is None or prod.output is None or asg.get("A", True)
                expect = "accept" if (fz_ok and kind_ok) else None
                if got is None:
                    raise AnalysisError("C12.e matrix: no extracted row matches %s" % show(asg))
                if (got == "accept") != (expect == "accept"):
                    disagreements += 1
                    ctx.violate("C12.e", "%s::pairing(%s<-%s)" % (c.key, nm, prod.cls.name), c.module.rel, c.cls.node.lineno,
                                "%s as input `%s` of %s: extracted outcome `%s`, but compatibility (fuzziness %s, kind %s) says %s" % (prod.cls.name, nm, c.cls.name, got, fz_ok, kind_ok, expect or "reject"))
    ctx.hold("C12.e", "package::producer-consumer-matrix", "mpilot", 0, "%d producer x reference-input pairings evaluated through the extracted decision table, %d disagreement(s)" % (n, disagreements))
    ctx.extra["matrix_pairings"] = n
