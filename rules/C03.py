"""C03 — missing data stays missing and never leaks into valid results."""
import ast

from engine.arrays import Arr, E, Scal, is_input_token
from engine.report import AnalysisError

from . import arrayrules as R
from . import common as K


def run(ctx, idx):
    ctx.assume("numpy axioms A1-A20 (engine/numpy_axioms.md), validated separately against the installed numpy by selftest/axioms.py")
    ctx.assume("inductive hypothesis: every Data input is a MaskedArray (discharged for every producer by C02.d)")
    ctx.rule("C03.a", "At every normal return of every data command D(ret) ⊆ M(ret): the result's mask covers the mask of every input its cells are computed from.")
    ctx.rule("C03.b", "Pc(ret) ⊆ M(ret) (hidden data used cell-wise is re-masked by the same input's mask) and Pg(ret) = ∅ (no whole-array statistic over raw .data or a plain copy).")
    ctx.rule("C03.c", "The returned value is a masked array whose mask is built from input masks (no constant mask on a value that depends on inputs).")
    ctx.rule("C03.d", "insure_fuzzy keeps the mask: on a symbolic masked argument it returns the same object, still masked, with coverage and payload unchanged (summary computed from its body).")
    ctx.rule("C03.e", "Readers: the mask stored on the returned array derives from a comparison of the data with the cleaned missing-value parameter (plus the file's own mask for NetCDF) and is stored on the returned local.")
    ctx.rule("C03.g", "Which cells are missing is decided from the file / the inputs of THIS execution: no data command hands out arrays kept in module-level state or by a cached helper without copying them (decided before the array analyser runs) - in-place work on such an array (fill values stamped under the mask) destroys the sentinel the next reader looks for, and its missing cells come out as numbers.")
    R.no_kept_state(ctx, idx, "C03.g", None, "; the fill value stamped under the mask by one execution replaces the missing-value marker in the kept array, so the next execution finds no cell equal to it and returns the missing cells as valid numbers", copies_suffice=True)
    coverage(ctx, idx, "C03.a", "C03.b", "C03.c")
    # "otherwise present": the one formula with a removable singularity must not leave its 0/0 cells missing
    ctx.rule("C03.h", "A cell is missing ONLY where an input is: the exclusive-or's quotient by (truest - FUZZY_MIN) is selected away where every input is fully false (C06.d's reading) - numpy.ma masks the 0/0 there, and a store through the masked comparison afterwards writes the data but leaves that mask, so cells with no missing input come out missing.")
    from .C06 import xor_quotient_guard as _xqg

    _x = {d_.cls.name: (d_, r_) for d_, r_ in R.results(idx).values()}.get("FuzzyXOr")
    if _x is None:
        raise AnalysisError("C03.h: FuzzyXOr vanished")
    _xqg(ctx, "C03.h", _x[0], _x[1], ": the cell comes out MISSING although no input is missing there")
    ctx.rule("C03.f", "A result's missing cells are its own: no command writes in place through one of its inputs (into its data or its mask buffer), or cells become missing - or stop being missing - in a result that was never computed from the cells concerned.")
    for d_, r_ in R.data_commands(idx):
        R.leaves_inputs_alone(ctx, "C03.f", d_, r_, "the producer's result gains (or loses) missing cells that do not come from its own inputs, and so does everything that shares its mask buffer or reads it afterwards")
    insure_fuzzy_keeps_mask(ctx, idx)
    readers(ctx, idx, "C03.e")
    ctx.count("execute_bodies", len(R.results(idx)))


def coverage(ctx, idx, ra, rb, rc):
    n_cmd = n_ret = 0
    for d, r in R.data_commands(idx):
        n_cmd += 1
        seen_oc = set()
        for kind_, line_, msg_, fk_, node_ in r.findings:
            if kind_ == "out-container" and line_ not in seen_oc:
                seen_oc.add(line_)
                ctx.violate(ra, "%s.execute::out-target-is-masked@%s" % (d.key, K.src(node_)[:40]), d.module.rel, line_, msg_)
        for n, s, v in R.ret_sites(d, r):
            n_ret += 1
            con = R.ret_key(d, n)
            line = R.line_of(s)
            if not isinstance(v, Arr):
                ctx.violate(rc, con, d.module.rel, line, "a data command returns a non-array value (%s)" % type(v).__name__ if not hasattr(v, "tag") else "a data command returns %s, not an array" % v.tag)
                continue
            inputs = frozenset(t for t in v.D if is_input_token(t))
            # a return chosen by a test on an input's own values (a statistic, an extreme) computes its cells "from" that input as
            # well, whatever it then fills them with: the input's missing cells must stay missing in it
            ctl = frozenset().union(*[r.cond_deps.get(id(t_), frozenset()) for t_, p_ in r.return_conds.get(id(s), ())]) if r.return_conds.get(id(s)) else frozenset()
            inputs = inputs | frozenset(t for t in ctl if is_input_token(t) and t in R.input_tokens(d))
            miss = inputs - v.M
            if miss:
                ctx.violate(ra, con, d.module.rel, line,
                            "result cells are computed from %s but the returned mask does not cover its missing cells: a missing input cell comes out as a valid number" % R.tok_text(miss))
            else:
                ctx.hold(ra, con, d.module.rel, line, "D=%s ⊆ M=%s" % (R.tok_text(inputs) or "∅", R.tok_text(v.M) or "∅"), nontrivial=bool(inputs))
            leak = frozenset(t for t in v.Pc if is_input_token(t)) - v.M - miss
            pg = frozenset(t for t in v.Pg if is_input_token(t))
            if leak or pg:
                why = []
                if leak:
                    why.append("hidden data of %s reaches result cells that are not re-masked" % R.tok_text(leak))
                if pg:
                    why.append("a whole-array reduction consumes the hidden data of %s" % R.tok_text(pg))
                ctx.violate(rb, con, d.module.rel, line, "; ".join(why))
            else:
                ctx.hold(rb, con, d.module.rel, line, "Pc=%s ⊆ M, Pg=∅" % (R.tok_text(v.Pc) or "∅"), nontrivial=bool(v.Pc))
            if miss:
                pass  # already reported under C03.a for this return
            elif inputs and v.kind == "masked" and v.constmask and not v.M:
                ctx.violate(rc, con, d.module.rel, line, "the returned mask is a constant although the value depends on %s" % R.tok_text(inputs))
            elif v.kind != "masked" and inputs:
                ctx.violate(rc, con, d.module.rel, line, "the returned value is a %s array: it has no mask at all, so missing cells of %s are lost" % (v.kind, R.tok_text(inputs)))
            else:
                ctx.hold(rc, con, d.module.rel, line, "masked array with a mask derived from inputs", nontrivial=False)
    ctx.floor(ra, "data command classes", n_cmd, 30)
    ctx.floor(ra, "return sites", n_ret, 30)


def insure_fuzzy_keeps_mask(ctx, idx):
    sym = Arr(kind="masked", alias=frozenset({"X"}), M=frozenset({"X"}), D=frozenset({"X"}), shape="same", dtprov=frozenset({"X"}))
    res, out, fi = R.summarize_helper(idx, "mpilot.utils", "insure_fuzzy", [sym, Scal(sym="lo"), Scal(sym="hi")])
    con = "%s::mask-kept" % fi.key
    ok = isinstance(out, Arr) and "X" in out.alias and out.kind == "masked" and "X" in out.M and not (out.Pc - out.M) and not out.Pg
    attr = [w for w in res.writes if w.what.startswith("attribute store")]
    if ok and not attr:
        ctx.hold("C03.d", con, K.rel(fi), fi.node.lineno, "returns its argument, still masked, coverage kept; %d in-place write(s), none to .mask" % len(res.writes))
    else:
        why = "insure_fuzzy does not return its (masked) argument with the mask intact"
        if attr:
            why = "insure_fuzzy assigns `%s`" % attr[0].what
        elif isinstance(out, Arr) and out.kind != "masked":
            why = "insure_fuzzy returns a %s array" % out.kind
        elif isinstance(out, Arr) and "X" not in out.M:
            why = "insure_fuzzy returns a value whose mask no longer covers the argument's mask"
        elif isinstance(out, Arr) and (out.Pc - out.M or out.Pg):
            why = "insure_fuzzy lets hidden data reach valid cells"
        ctx.violate("C03.d", con, K.rel(fi), fi.node.lineno, why)


def readers(ctx, idx, rule):
    n_readers = 0
    for key, (d, r) in R.results(idx).items():
        if not d.is_data() or d.ref_inputs() or d.cls.name != "EEMSRead":
            continue
        n_readers += 1
        miss_params = [nm for nm, p in d.inputs.items() if p.name == "NumberParameter" and "miss" in nm.lower()]
        con = "%s.execute::reader-mask" % d.key
        if not miss_params:
            raise AnalysisError("reader %s has no missing-value parameter" % d.key)
        good = []
        for line, target, val, node, fk in r.maskstores:
            if isinstance(val, Arr) and val.cmp is not None and val.cmp[2] is not None and any(("kw:" + m) in str(val.cmp[2]) for m in miss_params):
                c2 = val.cmp[2]
                if isinstance(c2, tuple) and c2 and c2[0] == "or" and not all(any(("kw:" + m) in str(x_) for m in miss_params) for x_ in c2[1:]):
                    raise AnalysisError("%s: the missing-value mask of %s compares the data with `%s` and with another number: cannot decide whether that number stands for the declared missing value" % (rule, d.cls.name, miss_params[0]))
                good.append((line, target, val))
        rets = R.returns_with_parameter(d, r, miss_params)
        if not good:
            ctx.violate(rule, con, d.module.rel, d.execute.node.lineno,
                        "no mask derived from a comparison of the data with the cleaned `%s` parameter is stored on the array" % miss_params[0])
        elif not all(any(t.alias & v.alias for _, t, _ in good) for v in rets):
            ctx.violate(rule, con, d.module.rel, good[0][0], "the missing-value mask is stored on an object that is not the returned array")
        elif any(val.cmp[1] != "Eq" for _, _, val in good):
            ops = sorted({val.cmp[1] for _, _, val in good} - {"Eq"})
            ctx.violate(rule, con, d.module.rel, good[0][0], "cells are marked missing by a `%s` comparison with `%s`, not by equality: valid cells that merely come close to the missing value are turned into missing cells" % ("/".join(ops), miss_params[0]))
        else:
            ctx.hold(rule, con, d.module.rel, good[0][0], "mask from `data == %s` stored on the returned array" % miss_params[0])
        R.zero_is_a_value(ctx, rule, d, r)
        # a reader whose source delivers its own mask (a NetCDF variable with _FillValue) keeps that mask as well
        for v in rets:
            if "file" in v.D:
                keeps = "file" in v.M
                ctx.ob(rule, "%s.execute::file-mask-kept" % d.key, d.module.rel, d.execute.node.lineno, keeps,
                       "the file's own missing cells stay missing (union with the missing-value mask)" if keeps else
                       "the mask assigned to the returned array replaces the mask the file itself delivers: cells the file marks missing (_FillValue) come out as ordinary numbers whenever a missing value is given")
        for w in r.writes:
            if "self" in w.alias:
                ctx.violate(rule, "%s.execute::mask-on-self" % d.key, d.module.rel, w.line, "the mask is stored through `self` (%s), not on the returned local" % w.what)
    ctx.floor(rule, "reader commands", n_readers, 2)
