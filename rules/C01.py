"""C01 — every command executes exactly once, fed by its finished dependencies."""
import ast

from engine.cfg import flag_test, self_attr
from engine.index import own_nodes
from engine.report import AnalysisError

from . import common as K
from . import coverage


def value_of_call_stores(cfg, call_nodes, memo, selfname):
    """memo-field stores whose stored value is the value of one of `call_nodes` (through local copies)."""
    rd = None
    good = []
    stores = cfg.find("store", lambda n: n.meta.get("attr") == memo and self_attr(n.ast, selfname))
    call_asts = {id(c.ast) for c in call_nodes}
    for s in stores:
        v = s.meta.get("value")
        if v is None:
            continue
        if id(v) in call_asts:
            good.append(s)
            continue
        if isinstance(v, ast.Name):
            if rd is None:
                rd = cfg.reaching_defs()
            def carries(node, name, seen):
                """every definition of `name` reaching `node` is the call's value, or a call handed that same local
                (`result = convert(result, ...)`: still the one value execute returned, converted)"""
                defs = rd.get(node, {}).get(name, frozenset())
                if not defs:
                    return False
                for d in defs:
                    if d == "param" or d.kind != "store":
                        return False
                    dv = d.meta.get("value")
                    if id(dv) in call_asts:
                        continue
                    if isinstance(dv, ast.Call) and any(isinstance(a, ast.Name) and a.id == name for a in dv.args) and id(d) not in seen:
                        if carries(d, name, seen | {id(d)}):
                            continue
                    return False
                return True

            if carries(s, v.id, frozenset()):
                good.append(s)
    return good, stores


def rule_a(ctx, idx, A):
    ctx.rule(
        "C01.a",
        "In Command.run: at the execute call the finished flag is known false; on every normal path from the call to "
        "exit the call's value is stored into the memo field and then the flag is set true; no path sets the flag "
        "without that store (typestate + reaching definitions on the CFG).",
    )
    fi = A.run
    sn = K.self_name(fi)
    cfg = K.cfg_of(idx, fi)
    file = K.rel(fi)
    execs = cfg.find("call", lambda n: K.is_self_call(n.ast, "execute", sn))
    ctx.floor("C01.a", "self.execute(...) call sites in Command.run", len(execs), 1)
    ctx.count("cfg_nodes", len(cfg.nodes))
    from engine.cfg import attr_typestate

    IN = attr_typestate(cfg, {A.flag}, sn)
    for e in execs:
        st = IN.get(e)
        con = "%s::guard-before-execute" % fi.key
        if st is None:
            ctx.hold("C01.a", con, file, e.line, "execute call is unreachable", nontrivial=False)
            continue
        if st.get(A.flag) is False:
            ctx.hold("C01.a", con, file, e.line, "flag %s known false at %s" % (A.flag, e.text()))
        else:
            ctx.violate(
                "C01.a", con, file, e.line,
                "the execute call can be reached with the finished flag `%s` not known false: a finished command would execute again" % A.flag,
            )
    good, allstores = value_of_call_stores(cfg, execs, A.memo, sn)
    computed = [n for n in cfg.find("store", lambda n: n.meta.get("attr") == A.flag and self_attr(n.ast, sn)) if not isinstance(n.meta.get("value"), ast.Constant)]
    # only a flag computed from local booleans is beyond the typestate (`flag = not interrupted`); one computed from the object's
    # own state (`flag = self._result is not None`) is read by the rules below as "not set to True"
    def _local_bool(e):
        names = {x.id for x in ast.walk(e) if isinstance(x, ast.Name)}
        attrs = [x for x in ast.walk(e) if isinstance(x, ast.Attribute)]
        if attrs or not names:
            return False
        for nm in names:
            defs = [n.value for n in own_nodes(fi.node) if isinstance(n, ast.Assign) and any(isinstance(t, ast.Name) and t.id == nm for t in n.targets)]
            if not defs or not all(isinstance(d, ast.Constant) and isinstance(d.value, bool) for d in defs):
                return False
        return True

    computed = [n for n in computed if _local_bool(n.meta.get("value"))]
    if computed:
        raise AnalysisError("C01.a: the finished flag is assigned a computed value (`%s`) in Command.run: the typestate argument cannot decide when it becomes true" % K.src(computed[0].meta.get("value")))
    flag_true = cfg.find(
        "store",
        lambda n: n.meta.get("attr") == A.flag and self_attr(n.ast, sn) and isinstance(n.meta.get("value"), ast.Constant) and n.meta["value"].value is True,
    )
    con = "%s::store-result-then-flag" % fi.key
    sf_any = False
    for e in execs:
        if e not in cfg.reachable():
            continue
        ok1 = cfg.must_pass_through(e, cfg.exit, good)
        sf_ = bool(flag_true) and all(K.success_flag_ok(cfg, fi, f, good) for f in flag_true)  # `if succeeded: flag = True` in a finally block
        sf_any = sf_any or sf_
        ok2 = (all(cfg.must_pass_through(m, cfg.exit, flag_true) for m in good) and bool(good)) or sf_
        ok3 = all(cfg.must_pass_through(cfg.entry, f, good) or K.success_flag_ok(cfg, fi, f, good) for f in flag_true)
        ok4 = bool(flag_true)
        if ok1 and ok2 and ok3 and ok4:
            ctx.hold("C01.a", con, file, e.line, "every normal path after execute stores its value in %s and then sets %s" % (A.memo, A.flag))
        else:
            why = []
            if not ok1:
                why.append("a normal path from the execute call to exit does not store the call's value into `%s`" % A.memo)
            if not ok2:
                why.append("after storing the result a path reaches exit without setting `%s` true" % A.flag)
            if not ok3:
                why.append("`%s` can be set true on a path that did not store execute's value" % A.flag)
            if not ok4:
                why.append("`%s` is never set true" % A.flag)
            ctx.violate("C01.a", con, file, e.line, "; ".join(why))
    if ctx.tier == "thorough" and not sf_any:  # (the enumeration does not follow the value of a local success flag)
        # second, independent decision by explicit path enumeration
        paths = cfg.paths(loop_bound=2)
        ctx.count("paths_enumerated", len(paths))
        bad = None
        for p in paths:
            seen_exec = False
            stored = False
            for n, facts in K.walk_facts(p, {A.flag}, sn):
                if n in execs:
                    if facts.get(A.flag) is not False:
                        bad = p
                    seen_exec = True
                    stored = False
                if n in good:
                    stored = True
                if n in flag_true and not stored:
                    bad = p
            if seen_exec and p[-1][0] is cfg.exit:
                order = [n for n, _ in p if n in good or n in flag_true]
                if not order or order[-1] not in flag_true or not any(n in good for n in order):
                    bad = p
        dom_ok = all(o.ok for o in ctx.obs if o.rule == "C01.a")
        if (bad is None) != dom_ok:
            raise AnalysisError("C01.a: dominator verdict (%s) and path enumeration (%s) disagree" % (dom_ok, bad is None))


def rule_b(ctx, idx, A):
    ctx.rule(
        "C01.b",
        "Stores to the finished flag / memo field occur only in Command.__init__ (constants False/None) and "
        "Command.run (who-may-write over every assignment, augmented assignment, delete and setattr in the package).",
    )
    sites = 0
    allowed = {A.run.key}
    if A.init is not None:
        allowed.add(A.init.key)
    for mod, fi, n in K.scoped_nodes(idx):
        hits = []
        if isinstance(n, ast.Attribute) and isinstance(n.ctx, (ast.Store, ast.Del)) and n.attr in (A.flag, A.memo):
            hits.append((n.attr, n))
        if isinstance(n, ast.Call) and isinstance(n.func, ast.Name) and n.func.id in ("setattr", "delattr") and len(n.args) >= 2:
            a = n.args[1]
            if isinstance(a, ast.Constant) and a.value in (A.flag, A.memo):
                hits.append((a.value, n))
            elif not isinstance(a, ast.Constant) and fi is not None and A.is_command_subclass(idx.enclosing_class(fi) or A.program) :
                pass
        if isinstance(n, ast.Subscript) and isinstance(n.ctx, (ast.Store, ast.Del)) and isinstance(n.slice, ast.Constant) and n.slice.value in (A.flag, A.memo):
            if isinstance(n.value, ast.Attribute) and n.value.attr == "__dict__" or (isinstance(n.value, ast.Call) and isinstance(n.value.func, ast.Name) and n.value.func.id == "vars"):
                hits.append((n.slice.value, n))
        for attr, node in hits:
            if isinstance(node, ast.Attribute) and fi is not None and fi.cls is not None and not A.is_command_subclass(fi.cls) and isinstance(node.value, ast.Name) and node.value.id == K.self_name(fi):
                continue  # an attribute of the same name on another class's own instance (e.g. a program-level flag), not a command's
            sites += 1
            w = K.where(mod, fi)
            con = "%s::store(%s)" % (w, attr)
            if fi is not None and fi.key in allowed:
                if fi is A.init:
                    ctx.hold("C01.b", con, mod.rel, node.lineno, "initialisation in Command.__init__", nontrivial=False)
                else:
                    ctx.hold("C01.b", con, mod.rel, node.lineno, "store inside Command.run")
            else:
                if attr == A.memo and fi is not None and fi.cls is A.command and _release_protocol(idx, A, fi, node):
                    raise AnalysisError("C01.b: Command.%s drops the stored result of a finished command and raises a marker that makes the `result` accessor refuse from then on (a release protocol): "
                                        "whether any consumer can still need the result at that point is outside the who-may-write rule" % fi.name)
                ctx.violate("C01.b", con, mod.rel, node.lineno, "`%s` is written outside Command.__init__/Command.run: %s" % (attr, K.src(node)))
    # __init__ must initialise with the idle constants
    if A.init is not None:
        sn = K.self_name(A.init)
        for n in own_nodes(A.init.node):
            if isinstance(n, ast.Assign):
                for t in n.targets:
                    a = self_attr(t, sn)
                    if a == A.flag:
                        ok = isinstance(n.value, ast.Constant) and n.value.value is False
                        ctx.ob("C01.b", "%s::init(%s)" % (A.init.key, a), K.rel(A.init), n.lineno, ok,
                               "flag initialised to False" if ok else "finished flag is not initialised to the constant False: %s" % K.src(n))
    ctx.floor("C01.b", "store sites of flag/memo", sites, 4)


def rule_c(ctx, idx, A):
    ctx.rule(
        "C01.c",
        "Every reference to `.execute` in the package is the call `self.execute(...)` in Command.run or a "
        "`super(K, self).execute(...)` delegation inside K.execute (who-may-call).",
    )
    sites = 0
    for mod, fi, n in K.scoped_nodes(idx):
        if not (isinstance(n, ast.Attribute) and n.attr == "execute") and not (
            isinstance(n, ast.Constant) and n.value == "execute" and False
        ):
            if isinstance(n, ast.Call) and isinstance(n.func, ast.Name) and n.func.id == "getattr" and len(n.args) >= 2 and isinstance(n.args[1], ast.Constant) and n.args[1].value == "execute":
                ctx.violate("C01.c", "%s::getattr(execute)" % K.where(mod, fi), mod.rel, n.lineno, "execute obtained reflectively: %s" % K.src(n))
            continue
        sites += 1
        w = K.where(mod, fi)
        top = fi
        while top is not None and top.parent is not None:
            top = top.parent
        if fi is A.run and isinstance(n.value, ast.Name) and n.value.id == K.self_name(fi):
            ctx.hold("C01.c", "%s::self.execute" % w, mod.rel, n.lineno, "the memoised call in Command.run")
            continue
        if (
            isinstance(n.value, ast.Call)
            and isinstance(n.value.func, ast.Name)
            and n.value.func.id == "super"
            and top is not None
            and top.name == "execute"
            and top.cls is not None
            and A.is_command_subclass(top.cls)
        ):
            okk = True
            if n.value.args:
                r = idx.resolve(mod, n.value.args[0], fi)
                okk = bool(r and r[0] == "class" and r[1] in idx.mro(top.cls)) and (
                    len(n.value.args) < 2 or (isinstance(n.value.args[1], ast.Name) and n.value.args[1].id == K.self_name(top))
                )
            if okk:
                ctx.hold("C01.c", "%s::super.execute" % w, mod.rel, n.lineno, "same-instance delegation to the base class body")
                continue
        if isinstance(n.value, ast.Call) and isinstance(n.value.func, (ast.Name, ast.Attribute)) and top is not None and top.name == "execute" and top.cls is not None and A.is_command_subclass(top.cls):
            rc = idx.resolve(mod, n.value.func, fi)
            if rc and rc[0] == "class" and A.is_command_subclass(rc[1]):
                ctx.hold("C01.c", "%s::temporary.execute" % w, mod.rel, n.lineno, "the body of another command class evaluated on a temporary instance built on the spot: not a command of the program, nothing to memoise")
                continue
        ctx.violate("C01.c", "%s::execute-reference" % w, mod.rel, n.lineno,
                    "`execute` is referenced outside Command.run and outside a super() delegation: %s — the memo guard is bypassed" % K.src(n))
    ctx.floor("C01.c", "references to .execute", sites, 7)


def rule_d(ctx, idx, A):
    ctx.rule(
        "C01.d",
        "The `result` property returns the memo field on every path and passes through self.run() whenever the flag "
        "is not known true; nothing else reads the memo field; no execute body (or helper it calls on self) evaluates "
        "self.result / self.run().",
    )
    fi = A.result_prop
    sn = K.self_name(fi)
    cfg = K.cfg_of(idx, fi)
    rets = cfg.find("return")
    ctx.floor("C01.d", "return sites of Command.result", len(rets), 1)
    runcalls = set(cfg.find("call", lambda n: K.is_self_call(n.ast, "run", sn)))
    bad = None
    npaths = 0
    for p in cfg.paths(loop_bound=2):
        if p[-1][0] is not cfg.exit:
            continue
        npaths += 1
        ran = False
        for n, facts in K.walk_facts(p, {A.flag}, sn):
            if n in runcalls:
                ran = True
            if n.kind == "return":
                v = n.ast.value
                if v is None or self_attr(v, sn) != A.memo:
                    bad = (p, "returns %s, not the memo field" % (K.src(v) if v is not None else "None"))
                elif not ran and facts.get(A.flag) is not True:
                    bad = (p, "returns the memo field without calling run() while the flag is not known true")
        if not any(n.kind == "return" for n, _ in p):
            bad = (p, "falls off the end without returning the memo field")
    con = "%s::return-memo-after-run" % fi.key
    if bad:
        ctx.violate("C01.d", con, K.rel(fi), fi.node.lineno, bad[1], path=K.path_text(bad[0]))
    else:
        ctx.hold("C01.d", con, K.rel(fi), fi.node.lineno, "%d normal path(s): each returns self.%s after run() or with the flag known true" % (npaths, A.memo))
    # the run() reached through result must be Command.run itself and result must not be overridden
    for ci in idx.subclasses(A.command, strict=True):
        for nm in ("result", "run"):
            if nm in ci.methods:
                ctx.violate("C01.d", "%s::%s.%s-override" % (ci.module.rel, ci.name, nm), ci.module.rel, ci.methods[nm].node.lineno,
                            "%s overrides Command.%s, replacing the memoised protocol" % (ci.name, nm))
    # readers of the memo field
    reads = 0
    for mod, f, n in K.scoped_nodes(idx):
        if isinstance(n, ast.Attribute) and n.attr == A.memo and isinstance(n.ctx, ast.Load):
            reads += 1
            ok = f is A.result_prop or f is A.run
            if not ok and f is not None:
                # the stored object looked at for what it *is* (identity, as part of a cache key or a comparison), not used as a
                # value: nothing is computed from an unfinished command's placeholder - but whether what is keyed on it stays
                # valid is the caller's business, not this who-may-read rule's
                top_ = f
                while getattr(top_, "parent", None) is not None:
                    top_ = top_.parent
                par_ = {}
                for x_ in ast.walk(f.node):
                    for c_ in ast.iter_child_nodes(x_):
                        par_[id(c_)] = x_
                up = par_.get(id(n))
                identity_only = (isinstance(up, ast.Call) and any(n is a_ for a_ in up.args) and isinstance(up.func, ast.Name) and (up.func.id == "id" or up.func.id[:1] == "_")) \
                    or (isinstance(up, ast.Compare) and all(isinstance(o_, (ast.Is, ast.IsNot)) for o_ in up.ops))
                if identity_only and top_.cls is A.program:
                    raise AnalysisError("C01.d: %s looks at `%s` for its identity only (a key or an `is` test), outside the result accessor: cannot decide whether what depends on that stays valid" % (f.qualname, K.src(n)))
            ctx.ob("C01.d", "%s::read(%s)" % (K.where(mod, f), A.memo), mod.rel, n.lineno, ok,
                   "read inside the protocol itself" if ok else "the memo field is read directly (%s): an unfinished command's value can be observed" % K.src(n),
                   nontrivial=not ok)
        if isinstance(n, ast.Call) and isinstance(n.func, ast.Name) and n.func.id == "getattr" and len(n.args) >= 2 and isinstance(n.args[1], ast.Constant) and n.args[1].value == A.memo:
            ctx.violate("C01.d", "%s::getattr(%s)" % (K.where(mod, f), A.memo), mod.rel, n.lineno, "memo field read reflectively")
    ctx.floor("C01.d", "reads of the memo field", reads, 1)
    # no execute evaluates its own result
    n_exec = 0
    for d in K.table(idx):
        ex = d.cls.methods.get("execute")
        if ex is None:
            continue
        n_exec += 1
        esn = K.self_name(ex)
        todo = [ex] + list(ex.nested.values())
        # helpers called on self
        for c in idx.own_calls(ex):
            if isinstance(c.func, ast.Attribute) and isinstance(c.func.value, ast.Name) and c.func.value.id == esn:
                t, _ = idx.call_targets(ex, c)
                todo.extend(x for x in t if x.name not in ("execute",))
        hit = None
        for g in todo:
            gsn = K.self_name(g) if g.cls is not None else esn
            for n in own_nodes(g.node):
                if isinstance(n, ast.Attribute) and isinstance(n.value, ast.Name) and n.value.id == gsn and n.attr in ("result", "run"):
                    hit = n
        con = "%s::self-result" % ex.key
        if hit is not None:
            ctx.violate("C01.d", con, K.rel(ex), hit.lineno,
                        "execute evaluates `%s` on its own instance while unfinished: run() re-enters execute without bound" % K.src(hit))
        else:
            ctx.hold("C01.d", con, K.rel(ex), ex.node.lineno, "no self.result / self.run() inside execute", nontrivial=False)
    ctx.floor("C01.d", "execute bodies scanned", n_exec, 30)


def _memo_keeps_commands(idx, fi, call):
    """`copy.deepcopy(x, memo)` whose memo maps every Command reachable in x to itself: `{id(v): v for v in flatten(<x or its
    values>) if isinstance(v, Command)}` - references then pass through the copy by identity (nothing is cloned)"""
    memo = call.args[1] if len(call.args) > 1 else next((k.value for k in call.keywords if k.arg == "memo"), None)
    if memo is None:
        return False
    memo = K.expand(fi, memo)
    if isinstance(memo, ast.Call) and isinstance(memo.func, (ast.Name, ast.Attribute)):
        # a one-return helper building the memo
        t, how = idx.call_targets(fi, memo)
        if len(t) == 1:
            rets = [n for n in own_nodes(t[0].node) if isinstance(n, ast.Return) and n.value is not None]
            if len(rets) == 1:
                memo, fi = rets[0].value, t[0]
    if not (isinstance(memo, ast.DictComp) and len(memo.generators) == 1):
        raise AnalysisError("C01.e: deepcopy is given a memo (`%s`) the analyser cannot read" % K.src(memo)[:60])
    g = memo.generators[0]
    v = g.target.id if isinstance(g.target, ast.Name) else None
    key_ok = isinstance(memo.key, ast.Call) and isinstance(memo.key.func, ast.Name) and memo.key.func.id == "id" and len(memo.key.args) == 1 and isinstance(memo.key.args[0], ast.Name) and memo.key.args[0].id == v
    val_ok = isinstance(memo.value, ast.Name) and memo.value.id == v
    filt_ok = len(g.ifs) == 1 and isinstance(g.ifs[0], ast.Call) and isinstance(g.ifs[0].func, ast.Name) and g.ifs[0].func.id == "isinstance" and K.src(g.ifs[0].args[0]) == v and (idx.qualname(fi.module, g.ifs[0].args[1], fi) or "").endswith("commands.Command")
    it = g.iter
    deep = isinstance(it, ast.Call) and (idx.qualname(fi.module, it.func, fi) or "").endswith("utils.flatten")
    if key_ok and val_ok and filt_ok and deep:
        return True
    if key_ok and val_ok and filt_ok and not deep:
        return False  # commands inside lists are not in the memo: those are still cloned
    raise AnalysisError("C01.e: deepcopy is given a memo (`%s`) the analyser cannot read" % K.src(memo)[:60])


def rule_e(ctx, idx, A, rule="C01.e", text=None):
    ctx.rule(
        rule,
        "For every command and every input declared Result(...) or List(...Result...), the effective execute takes "
        "`.result` of it (of every element, unsliced and unfiltered) on every path to a normal return "
        "(must-pass-through on the CFG; super().execute(**kwargs) delegation followed)." + (" " + text if text else ""),
    )
    n_cmd = n_ref = 0
    for d in K.table(idx):
        n_cmd += 1
        refs = d.ref_inputs()
        if d.execute is None or d.execute.cls is A.command:
            continue
        # the object whose `.result` is taken must be the referenced command itself: a deep copy of the keyword
        # arguments (or of a reference) clones the dependency together with its program, the clone is what runs, and the
        # program's own command stays unfinished until something else runs it a second time
        clones = []
        if refs:
            kwn = d.execute.node.args.kwarg.arg if d.execute.node.args.kwarg else None
            for f_ in K.helper_closure(idx, d.execute):
                for c_ in own_nodes(f_.node):
                    if isinstance(c_, ast.Call) and (idx.qualname(f_.module, c_.func, f_) or "") in ("copy.deepcopy", "pickle.loads") and c_.args:
                        if _memo_keeps_commands(idx, f_, c_):
                            continue
                        names = K.names_in(c_.args[0])
                        if (kwn and kwn in names) or f_ is not d.execute or any(nm in names for nm in K.derived_names(d.execute, {kwn} if kwn else set())):
                            clones.append(c_)
        for c_ in clones[:1]:
            ctx.violate(rule, "%s::clone-of-references" % d.key, d.module.rel, c_.lineno,
                        "`%s` deep-copies values that hold the referenced commands: `.result` is then taken from clones, so the dependency's code runs on a clone while the program's own command stays unfinished and is executed again later" % K.src(c_)[:60])
        for p, (kind, _) in sorted(refs.items()):
            n_ref += 1
            ok, why, line = coverage.pulls(idx, d.cls, d.execute, p, kind)
            con = "%s::pull(%s)" % (d.key, p)
            if ok:
                ctx.hold(rule, con, d.module.rel, line, why)
            else:
                ctx.violate(rule, con, d.module.rel, line, why)
    ctx.floor(rule, "command classes", n_cmd, 30)
    ctx.floor(rule, "reference inputs", n_ref, 30)


def rule_f(ctx, idx, A):
    ctx.rule(
        "C01.f",
        "Program.run starts every command: an unfiltered loop over self.commands calling run()/result lies on every "
        "path to the normal exit (a leaf-first loop may precede it; on its own it leaves commands whose only consumer "
        "does not read them unexecuted, and mis-recorded consumers hide commands altogether).",
    )
    fi = A.program_run
    res = coverage.start_coverage(idx, A)
    con = "%s::start-coverage" % fi.key
    comp_ = coverage.complementary_starts(A)
    if comp_ is not None and res.kind != "unfiltered":
        ctx.hold("C01.f", con, K.rel(fi), comp_[0], comp_[1])
    elif res.kind == "unfiltered":
        ctx.hold("C01.f", con, K.rel(fi), res.line, "unfiltered loop over the command table starts every command: %s" % res.text)
    elif res.kind == "filtered-ok":
        # exact bookkeeping is not enough: a recorded consumer executes its producer only if it reads that input, which
        # C01.e establishes for the built-in commands but nothing establishes for a user library's commands
        ctx.violate("C01.f", con, K.rel(fi), res.line, "Program.run starts only the commands nobody consumes (%s) and relies on every consumer reading every input it declares: a command referenced only by a consumer that does not read that input on this run (a user-library switch, an optional input) is never executed, and run() returns with it unfinished" % res.text)
    elif res.kind == "bad":
        ctx.violate("C01.f", con, K.rel(fi), res.line, res.text)
    else:
        raise AnalysisError("C01.f: shape of Program.run not recognised: %s" % res.text)
    for extra in res.problems:
        ctx.violate("C01.f", "%s::%s" % (fi.key, extra[0]), K.rel(fi), extra[1], extra[2])


def rule_g(ctx, idx, A):
    ctx.rule(
        "C01.g",
        "ListParameter.clean returns the element-wise clean of every item of the raw list, in order: a comprehension "
        "or loop over the whole value, unsliced and unfiltered, through the declared value_type.",
    )
    ci = idx.cls("mpilot.params", "ListParameter")
    fi = ci.methods.get("clean")
    if fi is None:
        raise AnalysisError("ListParameter.clean vanished")
    ok, why, line = coverage.list_clean_total(idx, fi)
    con = "%s::elementwise" % fi.key
    if ok is None:
        raise AnalysisError("C01.g: %s" % why)
    ctx.ob("C01.g", con, K.rel(fi), line, ok, why)


def _release_protocol(idx, A, fi, node):
    """`self.<memo> = None` in a Command method, under a test that the command is finished, together with `self.<F> = True` for a
    flag F that the result accessor tests first thing, raising when it is set; the finished flag itself is not touched."""
    sn = K.self_name(fi)
    body = [x for x in own_nodes(fi.node)]
    if any(isinstance(x, ast.Attribute) and isinstance(x.ctx, ast.Store) and x.attr == A.flag for x in body):
        return False
    guards = [x for x in body if isinstance(x, ast.If) and K.src(x.test) == "%s.%s" % (sn, A.flag) and any(node is y for st in x.body for y in ast.walk(st))]
    if not guards:
        return False
    marks = [st.targets[0].attr for st in guards[0].body if isinstance(st, ast.Assign) and len(st.targets) == 1 and isinstance(st.targets[0], ast.Attribute)
             and isinstance(st.value, ast.Constant) and st.value.value is True and st.targets[0].attr not in (A.flag, A.memo)]
    acc = A.command.methods.get("result")
    if not marks or acc is None:
        return False
    first = acc.node_orig.body[0] if getattr(acc, "node_orig", None) is not None else acc.node.body[0]
    if isinstance(first, ast.Expr) and isinstance(first.value, ast.Constant):
        rest = (acc.node_orig if getattr(acc, "node_orig", None) is not None else acc.node).body
        first = rest[1] if len(rest) > 1 else first
    return isinstance(first, ast.If) and isinstance(first.test, ast.Attribute) and first.test.attr in marks and first.body and isinstance(first.body[-1], ast.Raise)


def rule_h(ctx, idx, A, rule="C01.h"):
    ctx.rule(
        rule,
        "References are resolved when the graph is evaluated, never while it is loaded: nothing that from_source / add_command "
        "reaches consults the command table by a name other than the one the new command is stored under (a consumer written "
        "before its producer must load exactly like one written after it).",
    )
    bad, seen = coverage.load_time_queries(idx, A)
    for fi, n, key in bad:
        ctx.violate(rule, "%s::load-time-lookup(%s)" % (fi.key, key), K.rel(fi), n.lineno,
                    "`%s` consults the command table by `%s` while the program is being loaded: whether a reference resolves now depends on the textual order of the commands" % (K.src(n)[:70], key))
    if not bad:
        ctx.hold(rule, "%s::no-load-time-lookup" % A.program.methods["add_command"].key, "mpilot/program.py", A.program.methods["add_command"].node.lineno,
                 "%d by-name consultation(s) while loading, all on the new command's own result name" % seen)
    ctx.floor(rule, "by-name consultations of the command table while loading (the duplicate check)", seen, 1)


def rule_i(ctx, idx, A):
    ctx.rule(
        "C01.i",
        "An interrupted evaluation leaves no trace: every attribute Command.run sets to True while it works (the in-progress mark) is "
        "set back to False on every way out of run, normal or exceptional - otherwise the commands an error unwound through stay "
        "marked, and the next run() of the same program rejects an acyclic graph as recursive instead of executing what is left.",
    )
    fi = A.run
    sn = K.self_name(fi)
    cfg = K.cfg_of(idx, fi)
    marks = {}
    for n in cfg.find("store"):
        a = n.meta.get("attr")
        if a and self_attr(n.ast, sn) and a not in (A.flag, A.memo) and isinstance(n.meta.get("value"), ast.Constant) and n.meta["value"].value is True:
            marks.setdefault(a, []).append(n)
    n_marks = 0
    for a, sets in sorted(marks.items()):
        resets = {n for n in cfg.find("store") if n.meta.get("attr") == a and self_attr(n.ast, sn) and isinstance(n.meta.get("value"), ast.Constant) and n.meta["value"].value is False}
        if not resets:
            continue  # not a mark that is taken back at all (a different kind of attribute)
        for s_ in sets:
            n_marks += 1
            con = "%s::mark-taken-back(%s)" % (fi.key, a)
            live = cfg.reachable(s_)
            leaks = [("normally", cfg.exit), ("by an exception", cfg.raise_exit)]
            bad = [how for how, ex in leaks if ex in live and not cfg.must_pass_through(s_, ex, resets)]
            ctx.ob("C01.i", con, K.rel(fi), s_.line, not bad,
                   "`%s` is set back to False on every way out of run" % a if not bad else
                   "`%s = True` (line %d) is not taken back when run is left %s: after a failed or interrupted evaluation the commands on the stack stay marked, and running the program again raises the recursive-model error for an acyclic graph instead of executing the unfinished commands" % (a, s_.line, " and ".join(bad)))
    ctx.count("in_progress_marks", n_marks)


def rule_j(ctx, idx, A):
    ctx.rule(
        "C01.j",
        "Reference discovery terminates and sees every nested reference: utils.flatten loops over its argument, descends exactly into "
        "list / tuple (or other containers that are not text) and yields everything else. A descent test that text satisfies "
        "(`hasattr(x, '__iter__')`, an Iterable / Sequence check without excluding str) never ends on a string element - a one-character "
        "string iterates to itself - so Program.run dies in the dependency scan and no command executes.",
    )
    um = idx.module_of("mpilot.utils")
    fl = next((f for f in idx.funcs if f.module is um and f.name == "flatten" and f.parent is None), None)
    if fl is None:
        raise AnalysisError("C01.j: mpilot.utils.flatten vanished")
    node = getattr(fl, "node_orig", None) or fl.node
    con = "%s::descends-into-containers-only" % fl.key
    rec_calls = [c for c in ast.walk(node) if isinstance(c, ast.Call) and isinstance(c.func, ast.Name) and c.func.id == "flatten"]
    if not rec_calls:
        raise AnalysisError("C01.j: flatten is not recursive any more; how nested lists are opened is outside this rule")
    par = {}
    for x in ast.walk(node):
        for c in ast.iter_child_nodes(x):
            par[id(c)] = x
    TEXTY = {"builtins.str", "six.string_types", "six.text_type", "builtins.bytes", "six.binary_type", "builtins.object", "collections.abc.Iterable", "collections.Iterable", "collections.abc.Sequence",
             "collections.Sequence", "collections.abc.Container", "collections.abc.Collection", "collections.abc.Sized", "collections.abc.Reversible", "typing.Iterable", "typing.Sequence"}
    SAFE = {"builtins.list", "builtins.tuple", "builtins.set", "builtins.frozenset", "collections.deque", "builtins.dict", "collections.OrderedDict"}
    n = 0
    for rc in rec_calls:
        q = rc
        guard = None
        while id(q) in par:
            up = par[id(q)]
            if isinstance(up, ast.If) and any(q is b or any(q is y for y in ast.walk(b)) for b in up.body):
                guard = up.test
                break
            q = up
        if guard is None:
            # early-exit form: `if not isinstance(x, (list, tuple)): yield x; continue` ahead of the descent in the same block
            q = rc
            while id(q) in par and guard is None:
                up = par[id(q)]
                for fld in ("body", "orelse"):
                    blk = getattr(up, fld, None)
                    if isinstance(blk, list) and q in blk:
                        for prev in blk[:blk.index(q)]:
                            if isinstance(prev, ast.If) and not prev.orelse and prev.body and isinstance(prev.body[-1], (ast.Continue, ast.Return, ast.Raise)):
                                guard = ast.copy_location(ast.UnaryOp(op=ast.Not(), operand=prev.test), prev.test)
                q = up
        n += 1
        if guard is None:
            ctx.violate("C01.j", con, K.rel(fl), rc.lineno, "flatten calls itself on every element without a test: a number raises TypeError, a string recurses forever")
            continue
        conj = guard.values if isinstance(guard, ast.BoolOp) and isinstance(guard.op, ast.And) else [guard]
        texty, excluded, unknown = None, False, None
        for t in conj:
            neg = False
            while isinstance(t, ast.UnaryOp) and isinstance(t.op, ast.Not):
                neg = not neg
                t = t.operand
            if isinstance(t, ast.Call) and isinstance(t.func, ast.Name) and t.func.id == "isinstance" and len(t.args) == 2:
                cls_nodes = t.args[1].elts if isinstance(t.args[1], (ast.Tuple, ast.List)) else [t.args[1]]
                quals = {idx.qualname(fl.module, cn, fl) or K.src(cn) for cn in cls_nodes}
                if neg and quals & {"builtins.str", "six.string_types", "six.text_type"}:
                    excluded = True
                elif not neg and quals & TEXTY:
                    texty = K.src(t)
                elif not neg and not (quals <= SAFE):
                    unknown = K.src(t)
            elif isinstance(t, ast.Call) and isinstance(t.func, ast.Name) and t.func.id == "hasattr" and len(t.args) == 2 and isinstance(t.args[1], ast.Constant) and not neg:
                if t.args[1].value in ("__iter__", "__getitem__", "__len__", "__contains__"):
                    texty = K.src(t)
                else:
                    unknown = K.src(t)
            elif not neg and isinstance(t, ast.Call) and isinstance(t.func, ast.Name) and len(t.args) == 1 and not t.keywords:
                # a predicate helper of the module: what it answers for a text value is read off its body
                verdict = _predicate_on_text(idx, fl, t.func.id, TEXTY, SAFE)
                if verdict is False:
                    excluded = True
                elif verdict is None:
                    unknown = K.src(t)
            elif not neg:
                unknown = K.src(t)
        if texty and not excluded and unknown:
            raise AnalysisError("C01.j: flatten descends under `%s` and `%s`; cannot decide whether text satisfies the second" % (texty, unknown))
        if texty and not excluded:
            ctx.violate("C01.j", con, K.rel(fl), guard.lineno, "flatten descends into whatever satisfies `%s`, which a string does: a one-character string iterates to itself, so a text element of a list argument recurses until RecursionError - Program.run dies while looking for references and no command executes" % texty)
        elif unknown:
            raise AnalysisError("C01.j: flatten descends under `%s`; cannot decide whether text (or another self-iterating value) satisfies it" % unknown)
        else:
            ctx.hold("C01.j", con, K.rel(fl), guard.lineno, "flatten descends into non-text containers only (`%s`)" % K.src(guard)[:60])
    ctx.count("flatten_recursive_calls", n)


def _predicate_on_text(idx, fl, name, TEXTY, SAFE):
    """What a one-parameter module-level predicate returns for a str: True / False, None when its body does not say.
    Read statement by statement: `if isinstance(p, T): return <const>` - a str is an instance of T when T names a text
    type, is not when every name in T is a concrete non-text container; anything else before a decision is undecided."""
    fn = next((f for f in idx.funcs if f.module is fl.module and f.name == name and f.parent is None), None)
    if fn is None:
        return None
    node = getattr(fn, "node_orig", None) or fn.node
    if len(node.args.args) != 1:
        return None
    pn = node.args.args[0].arg
    STR = {"builtins.str", "six.string_types", "six.text_type"}

    def quals_of(e):
        if isinstance(e, (ast.Tuple, ast.List)):
            out = set()
            for x in e.elts:
                out |= quals_of(x)
            return out
        if isinstance(e, ast.BinOp) and isinstance(e.op, ast.Add):
            return quals_of(e.left) | quals_of(e.right)
        return {idx.qualname(fn.module, e, fn) or K.src(e)}

    for st in node.body:
        if isinstance(st, ast.Expr) and isinstance(st.value, ast.Constant):
            continue
        if isinstance(st, ast.If) and not st.orelse and len(st.body) == 1 and isinstance(st.body[0], ast.Return) and isinstance(st.body[0].value, ast.Constant) \
                and isinstance(st.test, ast.Call) and isinstance(st.test.func, ast.Name) and st.test.func.id == "isinstance" and len(st.test.args) == 2 \
                and isinstance(st.test.args[0], ast.Name) and st.test.args[0].id == pn:
            qs = quals_of(st.test.args[1])
            if qs & STR:
                return bool(st.body[0].value.value)
            if qs <= SAFE:
                continue
            return None
        return None
    return None


_SOFT = []


def run(ctx, idx):
    del _SOFT[:]
    A = K.anchors(idx)
    ctx.assume("Python semantics of attribute stores, properties and exceptions as modelled by the CFG builder")
    ctx.assume("six.raise_from and sys.exit never return (no-return table)")
    ctx.assume("C14 (only acyclic graphs are accepted) and C20.d (clean is effect-free) close the argument; reported under their own ids")
    ctx.note("anchors: memo field=%s finished flag=%s" % (A.memo, A.flag))
    rule_a(ctx, idx, A)
    rule_b(ctx, idx, A)
    rule_c(ctx, idx, A)
    rule_d(ctx, idx, A)
    rule_e(ctx, idx, A)
    rule_f(ctx, idx, A)
    rule_g(ctx, idx, A)
    rule_h(ctx, idx, A)
    rule_i(ctx, idx, A)
    rule_j(ctx, idx, A)
    ctx.rule("C01.k", "A command resolves its references in the program it was put into, for as long as the command exists: the link is the object itself. Command / Program code does not hold the program (or a command) through weakref.ref / proxy / a Weak* collection - a weak link dies with the last outside reference to the program (reading a result then fails instead of running the dependencies) and is copied as it is by copy.deepcopy, so a cloned program's commands resolve their references in, and execute, the original's commands.")
    n_links = 0
    weak_undecided = None
    for cls_ in [A.command, A.program]:
        par_k = {}
        for x_ in ast.walk(cls_.node):
            for ch_ in ast.iter_child_nodes(x_):
                par_k[id(ch_)] = x_
        for c_ in ast.walk(cls_.node):  # every method, both halves of a property included
            if isinstance(c_, ast.Call):
                q_ = idx.qualname(cls_.module, c_.func, None) or ""
                if q_.startswith("weakref.") and not isinstance(par_k.get(id(c_)), ast.Call):
                    # made only once the command is finished (`if ... and self.<finished flag>:`): a finished command resolves
                    # nothing any more - whether every copy / pickle path re-makes the link is not decided here
                    up_ = c_
                    fin_ = False
                    while id(up_) in par_k:
                        q2_ = par_k[id(up_)]
                        if isinstance(q2_, ast.If) and any(up_ is b_ or any(up_ is y_ for y_ in ast.walk(b_)) for b_ in q2_.body):
                            conj_ = q2_.test.values if isinstance(q2_.test, ast.BoolOp) and isinstance(q2_.test.op, ast.And) else [q2_.test]
                            if any(isinstance(t_, ast.Attribute) and t_.attr == A.flag and isinstance(t_.value, ast.Name) for t_ in conj_):
                                fin_ = True
                        up_ = q2_
                    if fin_:
                        weak_undecided = "C01.k: `%s` (line %d) weakens the link of FINISHED commands only; whether a finished command is ever asked to resolve a reference again, and whether copies re-make the link, is not decided" % (K.src(c_)[:40], c_.lineno)
                        continue
                    n_links += 1
                    ctx.violate("C01.k", "%s::%s::weak-link@%d" % (cls_.module.rel, cls_.name, n_links), cls_.module.rel, c_.lineno, "`%s` holds part of the model graph weakly: the link dies with the last outside reference and is not re-made by copy.deepcopy (a cloned program's commands then resolve references in the original)" % K.src(c_)[:60])
    init_ = A.command.methods.get("__init__")
    if init_ is None:
        raise AnalysisError("C01.k: Command.__init__ vanished")
    sn_ = K.self_name(init_)
    stores_ = [n_ for n_ in own_nodes(init_.node) if isinstance(n_, ast.Assign) and any(isinstance(t_, ast.Attribute) and t_.attr == "program" and isinstance(t_.value, ast.Name) and t_.value.id == sn_ for t_ in n_.targets)]
    ok_ = bool(stores_) and all(isinstance(n_.value, ast.Name) and n_.value.id in {a_.arg for a_ in init_.node.args.args} for n_ in stores_)
    ctx.ob("C01.k", "%s::program-link" % init_.key, K.rel(init_), (stores_[0].lineno if stores_ else init_.node.lineno), ok_,
           "the program handed to the constructor is kept as it is" if ok_ else "Command.__init__ does not keep the program it is given as a plain attribute")
    if weak_undecided:
        _SOFT.append(weak_undecided)
    ctx.rule("C01.l", "What a finished producer holds is delivered to every consumer: DataParameter.clean - the one check that is applied to results of FINISHED commands only (the first consumer sees the producer unfinished and is checked against the declared output type) - accepts every array. A test of the element type or content there lets the first consumer through and refuses the second, and refuses every consumer when the program is run again.")
    from .C20 import accepts_domain

    accepts_domain(ctx, idx, "C01.l", only={"DataParameter"}, consequence="; ResultParameter.clean applies it to finished producers only, so a producer's first consumer is served and the second (or any consumer on a second run()) gets ParameterNotValid for the same result")
    # a command OBJECT given as an argument value (API use) is that object: what the consumer is fed is its finished result.  Replaced
    # by its result name while the argument is stored, it is looked up again at run time in the CONSUMING program - another command of
    # that name there is fed instead, and the object given never runs
    ctx.rule("C01.o", "A command object given as an argument value stays that object: nothing on the way from Program.add_command to the stored Argument replaces it by its `result_name` (the name is resolved again, at run time, in the consuming program: a different command of the same name is fed instead of the one that was given).")
    ac_ = A.program.methods.get("add_command")
    if ac_ is None:
        raise AnalysisError("C01.o: Program.add_command vanished")
    fns_o = [ac_] + [f_ for f_ in K.helper_closure(idx, ac_) if f_ is not ac_ and f_.module is ac_.module]
    called_o = {c_.func.attr for g_ in fns_o for c_ in ast.walk(getattr(g_, "node_orig", None) or g_.node) if isinstance(c_, ast.Call) and isinstance(c_.func, ast.Attribute)}
    for f_ in idx.funcs:
        if getattr(f_, "cls", None) is A.program and f_.name in called_o and f_ not in fns_o and (getattr(f_, "absorbed", False) or f_.name.startswith("_")):
            fns_o.append(f_)
    bad_o = None
    for f_ in fns_o:
        src_o = getattr(f_, "node_orig", None) or f_.node
        tested = {K.src(t_.args[0]) for t_ in ast.walk(src_o) if isinstance(t_, ast.Call) and K.src(t_.func) == "isinstance" and len(t_.args) == 2 and "Command" in K.src(t_.args[1])}
        for x_ in ast.walk(src_o):
            e_ = x_.value if isinstance(x_, ast.Return) else None
            if isinstance(x_, ast.Call) and K.src(x_.func).split(".")[-1] in ("Argument", "ListArgument"):
                for a_ in list(x_.args) + [k_.value for k_ in x_.keywords]:
                    if isinstance(a_, ast.Attribute) and a_.attr == "result_name" and K.src(a_.value) in tested:
                        e_ = a_
            if isinstance(e_, ast.Attribute) and e_.attr == "result_name" and K.src(e_.value) in tested and bad_o is None:
                bad_o = (f_, e_)
    ctx.ob("C01.o", "%s::command-objects-kept" % ac_.key, K.rel(ac_), bad_o[1].lineno if bad_o else ac_.node.lineno, bad_o is None,
           "argument values are stored as given" if bad_o is None else
           "`%s` in %s puts the NAME of a command object in the place of the object while the argument is stored: at run time the name is looked up in the consuming program, so a command of the same name there is fed to the consumer instead of the one that was given - which never runs" % (K.src(bad_o[1]), bad_o[0].qualname))
    ctx.rule("C01.n", "Every command of an acyclic model is executed: no walk of the reference graph in Program.run reports a result reached along two chains as a loop (C02.k's reading - a `visited` collection that is never unwound refuses every diamond, and no command runs at all).")
    from .coverage import false_cycle_reports

    _fc = false_cycle_reports(idx, A)
    if _fc:
        for f_, line_, text_ in _fc[:2]:
            ctx.violate("C01.n", "mpilot/program.py::Program.run::sharing-is-not-a-cycle", K.rel(f_), line_, text_)
    else:
        ctx.hold("C01.n", "mpilot/program.py::Program.run::sharing-is-not-a-cycle", "mpilot/program.py", A.program_run.node.lineno, "no reference walk confuses visited with on-the-current-chain", nontrivial=False)
    ctx.rule("C01.m", "Each command receives the FINISHED result of the commands it references - the values its producer computed: no command writes in place through one of its inputs (C09.a's alias rule, listed here because a consumer that runs after such a write is fed something else than a consumer that ran before it, so what a command receives depends on the textual order of the commands).")
    from . import arrayrules as R_

    n_m = 0
    for d_, r_ in R_.results(idx).values():
        n_m += 1
        R_.leaves_inputs_alone(ctx, "C01.m", d_, r_, "consumers that execute after this command are fed an altered result, consumers that ran before were not: what a command receives depends on the order of the commands")
    ctx.floor("C01.m", "execute bodies", n_m, 30)
    ctx.count("modules", len(idx.modules))
    ctx.count("functions", len(idx.funcs))
    if _SOFT:
        msg_ = _SOFT[0]
        del _SOFT[:]
        raise AnalysisError(msg_)
