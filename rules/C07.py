"""C07 — arithmetic commands: dtype/order independence, specific errors, division -> missing (not the arithmetic itself)."""
import ast

from engine.arrays import Arr, Lst, Scal
from engine.report import AnalysisError

from . import arrayrules as R
from . import common as K
from .C05 import check_validate, check_validate_callers

ARITH = ("Sum", "WeightedSum", "Multiply", "AMinusB", "ADividedByB", "Minimum", "Maximum", "Mean", "WeightedMean", "Copy")


def dtype_rule(ctx, rule, d, r):
    seen = set()
    for kind, line, msg, fk, node in r.findings:
        if kind != "dtype":
            continue
        con = "%s.execute::inplace(%s)" % (d.key, K.src(node)[:60])
        if con in seen:
            continue
        seen.add(con)
        ctx.violate(rule, con, d.module.rel, line, msg)
    n_aug = sum(1 for w in r.writes if w.what.startswith("in-place"))
    if not seen:
        ctx.hold(rule, "%s.execute::inplace-dtype" % d.key, d.module.rel, d.execute.node.lineno,
                 "%d augmented assignment(s); every target dtype is at least as wide as its operand" % n_aug, nontrivial=n_aug > 0)
    return n_aug


def weights_gate(ctx, idx, rule, d, r):
    fi = d.execute
    cfg = K.cfg_of(idx, fi)
    con = "%s.execute::weights-count" % d.key
    raises = [n for n in cfg.find("raise") if (n.meta.get("qual") or "").endswith("MismatchedWeights")]
    if not raises:
        # delegated: a helper of the package is handed the weights and raises - it must do so before ANY of its returns (a check
        # appended behind a single-input early return is skipped for one input)
        for call in cfg.find("call"):
            if not any((k_.arg or "").lower().startswith("weight") for k_ in call.ast.keywords) and not any(isinstance(a_, ast.Name) and "weight" in a_.id.lower() for a_ in call.ast.args):
                continue
            tg, how = idx.call_targets(fi, call.ast)
            if how not in ("resolved", "self", "class") or len(tg) != 1:
                continue
            cf = tg[0]
            ccfg = K.cfg_of(idx, cf)
            crz = [n for n in ccfg.find("raise") if (n.meta.get("qual") or "").endswith("MismatchedWeights")]
            if not crz:
                continue
            dom = [t for t in ccfg.find("test") if any(ccfg.dominates(t, rz) for rz in crz)]
            cmp_ = [t for t in dom if isinstance(t.ast, ast.Compare) and len(t.ast.ops) == 1 and isinstance(t.ast.ops[0], (ast.NotEq, ast.Eq)) and K.src(t.ast).count("len(") == 2]
            first = [t for t in dom if all(ccfg.dominates(t, u) for u in dom)]
            if not cmp_ or not first:
                ctx.violate(rule, con, d.module.rel, call.line, "%s hands its weights to %s, where MismatchedWeights is not raised on a comparison of the two lengths" % (d.cls.name, cf.qualname))
                return
            gate_ = set(cmp_) | {t for t in dom if "weight" in K.src(t.ast).lower()}
            covers = ccfg.must_pass_through(ccfg.entry, ccfg.exit, gate_)
            lab = "true" if isinstance(cmp_[0].ast.ops[0], ast.NotEq) else "false"
            succ = [m for m, l in cmp_[0].succ if l == lab]
            raises_all = bool(succ) and all(ccfg.must_pass_through(m, ccfg.exit, set(crz)) for m in succ)
            uses = cfg.find("aug") + cfg.find("call", lambda c: (c.meta.get("qual") or "") in ("builtins.zip", "builtins.sum"))
            muls = [n for n in cfg.find("sub") if isinstance(n.ast.slice, ast.Constant) and isinstance(n.ast.slice.value, int)]
            late = [u for u in uses + muls if u in cfg.reachable() and not cfg.dominates(call, u)]
            ok = covers and raises_all and not late
            ctx.ob(rule, con, d.module.rel, call.line, ok, "the weight count is checked by %s before it returns on any path, and before any arithmetic" % cf.qualname if ok else
                   ("%s checks the weight count only on some of its paths: a return (the single-input shortcut, say) comes first, so one input with several weights is not refused - the extra weights are silently dropped" % cf.qualname if not covers
                    else "MismatchedWeights is not raised exactly when the lengths differ in %s" % cf.qualname if not raises_all else "`%s` can run before the weight count is checked" % late[0].text()))
            return
        ctx.violate(rule, con, d.module.rel, fi.node.lineno, "%s never raises MismatchedWeights: a wrong number of weights is silently truncated by zip()" % d.cls.name)
        return
    tests = [t for t in cfg.find("test") if any(cfg.dominates(t, rz) for rz in raises) and isinstance(t.ast, ast.Compare)]
    good = None
    for t in tests:
        c = t.ast
        sides = [K.expand(fi, x) for x in [c.left] + list(c.comparators)]
        lens = [s for s in sides if isinstance(s, ast.Call) and isinstance(s.func, ast.Name) and s.func.id == "len"]
        if len(lens) == 2 and len(c.ops) == 1 and isinstance(c.ops[0], (ast.NotEq, ast.Eq)):
            lab = "true" if isinstance(c.ops[0], ast.NotEq) else "false"
            succ = [m for m, l in t.succ if l == lab]
            if succ and all(cfg.must_pass_through(m, cfg.exit, set(raises)) for m in succ):
                good = t
    if good is None:
        ctx.violate(rule, con, d.module.rel, raises[0].line, "MismatchedWeights is not raised exactly when len(weights) != len(arrays)")
        return
    uses = cfg.find("aug") + cfg.find("call", lambda c: (c.meta.get("qual") or "") in ("builtins.zip", "builtins.sum"))
    muls = [n for n in cfg.find("sub") if isinstance(n.ast.slice, ast.Constant) and isinstance(n.ast.slice.value, int)]
    late = [u for u in uses + muls if u in cfg.reachable() and not cfg.dominates(good, u)]
    ctx.ob(rule, con, d.module.rel, good.line, not late, "len(weights) != len(arrays) raises MismatchedWeights before any arithmetic" if not late else "`%s` can run before the weight count is checked" % late[0].text())


def _zero_sum_made_missing(fi, div):
    """`q = x / (t or 1)` followed, before any return, by `if not t:` / `if t == 0:` whose body rebinds q to an all-missing array
    (numpy.ma.masked_array(..., mask=True) / masked_all): for a zero sum every cell is missing, as the masked division made it"""
    from engine.index import own_nodes

    asg = next((n for n in own_nodes(fi.node) if isinstance(n, ast.Assign) and n.value is div and len(n.targets) == 1 and isinstance(n.targets[0], ast.Name)), None)
    if asg is None or not isinstance(div, ast.BinOp):
        return False
    q = asg.targets[0].id
    den = div.right
    if not (isinstance(den, ast.BoolOp) and isinstance(den.op, ast.Or) and isinstance(den.values[0], ast.Name)):
        return False
    t = den.values[0].id
    body = fi.node.body
    if asg not in body:
        return False
    after = body[body.index(asg) + 1:]
    for st in after:
        if isinstance(st, ast.Return):
            return False
        if isinstance(st, ast.If) and not st.orelse:
            tst = st.test
            zero = (isinstance(tst, ast.UnaryOp) and isinstance(tst.op, ast.Not) and isinstance(tst.operand, ast.Name) and tst.operand.id == t) or \
                (isinstance(tst, ast.Compare) and len(tst.ops) == 1 and isinstance(tst.ops[0], ast.Eq) and isinstance(tst.left, ast.Name) and tst.left.id == t and isinstance(tst.comparators[0], ast.Constant) and tst.comparators[0].value == 0)
            if zero:
                for b in st.body:
                    if isinstance(b, ast.Assign) and len(b.targets) == 1 and isinstance(b.targets[0], ast.Name) and b.targets[0].id == q and isinstance(b.value, ast.Call):
                        fn = K.src(b.value.func)
                        if fn.endswith("masked_all") or (fn.split(".")[-1] in ("masked_array", "array", "MaskedArray") and ".ma" in fn and any(k.arg == "mask" and isinstance(k.value, ast.Constant) and k.value.value is True for k in b.value.keywords)):
                            return True
        if any(isinstance(x, ast.Name) and x.id == q and isinstance(x.ctx, ast.Store) for x in ast.walk(st)):
            return False
    return False


def run(ctx, idx):
    ctx.assume("numpy axioms A3/A4: operators promote dtypes and mask zero divisors; augmented operators keep the target dtype and refuse a non-same_kind cast")
    ctx.rule("C07.a", "No dtype-pinned accumulation: an augmented assignment whose target may be integer (dtype of an input) with an operand that may be wider (another input, a python number, true division) is a violation — which input comes first would decide whether the command fails.")
    ctx.rule("C07.b", "Specific errors: the whole input list is validated by validate_array_shapes (EmptyInputs, MixedArrayShapes) before any array operation; weighted commands raise MismatchedWeights exactly when the counts differ, before arithmetic.")
    ctx.rule("C07.c", "Every division in ADividedByB, Mean, WeightedMean has a Masked array operand (A3): a zero divisor becomes a missing cell.")
    ctx.rule("C07.d", "Completeness and symmetry: every input is used, lists are consumed through symmetric aggregators; AMinusB/ADividedByB apply the operator with A on the left and B on the right; Copy returns its input's values in a fresh array.")
    res = {d.cls.name: (d, r) for d, r in R.results(idx).values() if d.module.name.endswith("eems.basic")}
    n_aug = 0
    ctx.rule("C07.e", "An arithmetic command only reads what it is given: it neither writes in place through an input array (a later command on the same field would compute with changed values or missing cells) nor edits a list argument (the same weights passed again would be shorter).")
    ctx.rule("C07.f", "An arithmetic command computes its definition however it is written in the file: its execute accepts **kwargs (every command can be given the optional Metadata argument, and Command.run hands every cleaned argument to execute) - C02.c's reading.")
    for name in ARITH:
        if name not in res:
            raise AnalysisError("arithmetic command %s vanished" % name)
        d, r = res[name]
        own_ = d.cls.methods.get("execute")
        if own_ is not None:
            ctx.ob("C07.f", "%s.execute::accepts-metadata" % d.key, d.module.rel, own_.node.lineno, own_.node.args.kwarg is not None,
                   "**kwargs accepted" if own_.node.args.kwarg is not None else "execute does not accept **kwargs: the same command with `Metadata = [...]` attached fails with TypeError (UnexpectedError) instead of computing its result")
        R.leaves_inputs_alone(ctx, "C07.e", d, r, "the field is no longer what its producer computed, so the next arithmetic command on it does not return its cell-by-cell definition")
        R.leaves_arguments_alone(ctx, "C07.e", d, r)
        n_aug += dtype_rule(ctx, "C07.a", d, r)
        R.uses_all_inputs(ctx, "C07.d", d, r)
        R.symmetric_roles(ctx, "C07.d", d, r)
    ctx.extra["augmented_assignments_in_arithmetic_commands"] = n_aug
    # cell-wise: the result has the shape of the inputs and is missing wherever an input is (the arithmetic definitions
    # are per cell; a contraction, a positional operation or a mask-skipping reduction computes something else)
    # the weights enter every result: a return that never looked at them (a shortcut for one input, say) is not the weighted
    # definition - with the weight 0 the mean is 0/0, a missing cell, not the input
    undecided = []
    for name in ("WeightedSum", "WeightedMean"):
        d, r = res[name]
        wnames = [nm for nm, p_ in d.inputs.items() if p_.is_a(idx, "mpilot.params.ListParameter") and "eight" in nm]
        for n, s_, v in R.ret_sites(d, r):
            if isinstance(v, Arr) and wnames:
                okw = all(("@" + w_) in v.D for w_ in wnames)
                conds_ = r.return_conds.get(id(s_), ())
                deps_ = frozenset().union(*[r.cond_deps.get(id(t_), frozenset()) for t_, p_ in conds_]) if conds_ else frozenset()
                if not okw and all(("@" + w_) in (v.D | deps_) for w_ in wnames):
                    # the weights only decide that this branch is taken: whether what it returns is the definition for exactly
                    # those weights is arithmetic on their values, not something the shape of the code settles
                    undecided.append("C07.d: %s line %d: the weights select this return but do not enter its value; whether the shortcut equals the weighted definition for the selected weights is not decided" % (name, R.line_of(s_)))
                    continue
                ctx.ob("C07.d", R.ret_key(d, n) + "::uses-the-weights", d.module.rel, R.line_of(s_), okw, "the returned value is computed from %s" % ", ".join(wnames) if okw else
                       "this return of %s does not depend on %s at all: for every weight vector the command is defined cell by cell from the weights too (one input with weight 0 gives 0/0, a missing cell - not the input's values)" % (name, ", ".join(wnames)))
    for name in ARITH:
        d, r = res[name]
        for n, s_, v in R.ret_sites(d, r):
            if not isinstance(v, Arr):
                continue
            con = R.ret_key(d, n) + "::cell-wise"
            pos = [f for f in r.findings if f[0] in ("equivariance", "shape")]
            miss = R.input_tokens(d) & v.D - v.M
            if v.shape != "same" or pos:
                ctx.violate("C07.d", con, d.module.rel, pos[0][1] if pos else R.line_of(s_), "the result is not computed cell by cell for every shape: %s" % (pos[0][2] if pos else "abstract shape `%s`" % v.shape))
            elif miss:
                ctx.violate("C07.d", con, d.module.rel, R.line_of(s_), "a cell missing in %s only gets a value computed from the other inputs: the command no longer agrees with its cell-wise definition (e.g. Mean != Sum / n there)" % R.tok_text(miss))
            else:
                ctx.hold("C07.d", con, d.module.rel, R.line_of(s_), "shape of the inputs, missing wherever an input is")
    check_validate(ctx, idx, "C07.b")
    check_validate_callers(ctx, idx, "C07.b")
    # the specific errors can be printed: placeholders and arguments of their messages agree (C13.d's reading, for the three
    # errors this property names - an error that raises KeyError while it is rendered ends the command-line tool in a traceback)
    from .C13 import str_methods_total

    n_str = str_methods_total(ctx, idx, "C07.b", only={"MismatchedWeights", "MixedArrayShapes", "EmptyInputs"}, floor=False)
    ctx.floor("C07.b", "messages of the specific arithmetic errors", n_str, 3)
    for name in ("WeightedSum", "WeightedMean"):
        weights_gate(ctx, idx, "C07.b", *res[name])
    for name in ("ADividedByB", "Mean", "WeightedMean"):
        d, r = res[name]
        divs = [x for x in r.divisions if isinstance(x[1], Arr) or isinstance(x[2], Arr)]
        con = "%s.execute::division" % d.key
        if not divs and name == "Mean" and any(meth == "mean" for node_, sel_, meth, fk_ in r.layer_reduces):
            ctx.hold("C07.c", con, d.module.rel, d.execute.node.lineno, "the mean is taken by a layer-axis mean over the stacked inputs (no division of its own; missing cells decided under C07.d)")
            continue
        if not divs and name == "WeightedMean" and any(meth == "weighted-average" for node_, sel_, meth, fk_ in r.layer_reduces):
            ctx.hold("C07.c", con, d.module.rel, d.execute.node.lineno, "the weighted mean is taken by numpy.ma.average over the stacked inputs, which divides by the weight sum as masked arrays")
            continue
        if not divs:
            ctx.violate("C07.c", con, d.module.rel, d.execute.node.lineno, "%s performs no array division at all" % name)
            continue
        for rec in divs:
            if name == "WeightedMean" and isinstance(rec[2], Scal) and rec[2].sym and "|" in rec[2].sym and "sum(" in rec[2].sym and _zero_sum_made_missing(d.execute, rec[3]):
                ctx.hold("C07.c", con, d.module.rel, rec[0], "the divisor is replaced when the weights sum to zero, and in exactly that case the quotient is replaced by an all-missing array before it is returned")
                continue
            if name == "WeightedMean" and isinstance(rec[2], Scal) and rec[2].sym and "|" in rec[2].sym and "sum(" in rec[2].sym:
                # the divisor is the weight sum on one path and something else on another (`sum(w) or 1`, a conditional default)
                ctx.violate("C07.c", con, d.module.rel, rec[0], "`%s` does not divide by the weight sum itself: the divisor is replaced when the sum is zero, so weights that cancel out return the plain weighted sum as ordinary numbers instead of missing cells (division by zero yields a missing cell)" % K.src(rec[3])[:60])
                continue
            ok = any(isinstance(x, Arr) and x.kind == "masked" for x in rec[1:3]) and not isinstance(rec[3], ast.AugAssign) or (isinstance(rec[3], ast.AugAssign) and isinstance(rec[1], Arr) and rec[1].kind == "masked")
            if not ok:
                # the quotient of the raw data, with every non-finite cell (x/0 -> inf, 0/0 -> nan) masked afterwards and returned as that
                qa = r.div_results.get(id(rec[3]), frozenset())
                if qa and any(qa & fm for fm in r.finite_masked) and all(isinstance(v_, Arr) and v_.kind == "masked" and (v_.alias & qa) for _n, _s, v_ in R.ret_sites(d, r)):
                    ctx.hold("C07.c", con, d.module.rel, rec[0], "raw quotient whose non-finite cells (zero divisors) are masked before it is returned")
                    continue
            floor_ = isinstance(rec[3], (ast.BinOp, ast.AugAssign)) and isinstance(rec[3].op, (ast.FloorDiv, ast.Mod))
            if floor_:
                ctx.violate("C07.c", con, d.module.rel, rec[0], "`%s` is not a true division" % K.src(rec[3]))
            else:
                ctx.ob("C07.c", con, d.module.rel, rec[0], ok, "division on masked operands: zero divisors become missing cells" if ok else "division `%s` has no masked operand: a zero divisor yields inf or an error" % K.src(rec[3]))
    for name, opname in (("AMinusB", "Sub"), ("ADividedByB", "Div")):
        d, r = res[name]
        con = "%s.execute::operand-order" % d.key
        ok = False
        why = "no `A %s B` between the two inputs reaches the result" % ("-" if opname == "Sub" else "/")
        for node, op, lD, rD, fk in r.binops:
            if op == opname and lD == frozenset({"A"}) and rD == frozenset({"B"}):
                ok = True
                why = "A %s B with A on the left" % ("-" if opname == "Sub" else "/")
            elif lD == frozenset({"B"}) and rD == frozenset({"A"}) and op == opname:
                why = "operands are swapped: `%s` computes B %s A" % (K.src(node), "-" if opname == "Sub" else "/")
            elif lD | rD == frozenset({"A", "B"}) and op != opname and not ok:
                why = "`%s` applies %s, not %s" % (K.src(node), op, opname)
        # the matching operation must be what is returned
        rets = [v for _, _, v in R.ret_sites(d, r) if isinstance(v, Arr)]
        ctx.ob("C07.d", con, d.module.rel, d.execute.node.lineno, ok and bool(rets), why)
    # Copy: fresh, same values
    d, r = res["Copy"]
    for n, s, v in R.ret_sites(d, r):
        if isinstance(v, Arr):
            fresh = not any(R.is_input_token(a) for a in v.alias)
            ctx.ob("C07.d", R.ret_key(d, n) + "::fresh-copy", d.module.rel, R.line_of(s), fresh and v.D == frozenset({"InFieldName"}),
                   "returns a fresh array holding the input's values" if fresh else "Copy returns its input object itself: the 'copy' shares storage with the source")
    if undecided:
        raise AnalysisError(undecided[0])
