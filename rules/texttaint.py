"""C15.f: once a value has been turned into command-file text, that text is final.

A small taint analysis over the serialiser (Program.to_string and the functions nested in it, on the source as written).
Taint = "text that already contains a serialised value" (the result of any of the serialiser's own helper functions, and
whatever is built from such text).  Tainted text may be *inserted* (an argument of str.format, an operand of +, an element
of a join); it may not be used as a format template, nor pass through an operation that rewrites text by content (split,
replace, strip, slicing, indentation helpers): a quoted string value may contain line breaks, braces, percent signs and
blanks of its own, and they must come back as they were."""
import ast

TEXT_OPS = {"split", "rsplit", "splitlines", "replace", "strip", "lstrip", "rstrip", "expandtabs", "lower", "upper", "title", "capitalize", "swapcase", "casefold",
            "translate", "center", "ljust", "rjust", "zfill", "partition", "rpartition", "removeprefix", "removesuffix", "format_map"}
TEXT_FUNCS = {"indent", "dedent", "fill", "wrap", "shorten", "sub", "subn"}  # textwrap.* / re.sub(...) applied to the text


class Taint(object):
    def __init__(self, top, src, helpers=None):
        self.top = top
        self.src = src
        self.nested = {n.name: n for n in ast.walk(top) if isinstance(n, ast.FunctionDef) and n is not top}
        for nm, node in (helpers or {}).items():
            self.nested.setdefault(nm, node)  # module-level functions / methods the serialiser was split into
        self.findings = []  # (line, kind, text)
        self.undecided = []  # (line, text)
        self.memo = {}
        self.stack = []
        self.calls = 0

    # ---------------------------------------------------------------- expressions
    def ev(self, e, env):
        if e is None:
            return False
        if isinstance(e, ast.Name):
            return bool(env.get(e.id))
        if isinstance(e, ast.Constant):
            return False
        if isinstance(e, ast.JoinedStr):
            return any(self.ev(v.value, env) for v in e.values if isinstance(v, ast.FormattedValue))
        if isinstance(e, ast.BinOp):
            lt, rt = self.ev(e.left, env), self.ev(e.right, env)
            if isinstance(e.op, ast.Mod) and lt:
                self.findings.append((e.lineno, "template", "`%s`: text that already holds serialised values is the left operand of %%" % self.src(e)[:70]))
            return lt or rt
        if isinstance(e, ast.IfExp):
            self.ev(e.test, env)
            return self.ev(e.body, env) or self.ev(e.orelse, env)
        if isinstance(e, ast.BoolOp):
            return any([self.ev(v, env) for v in e.values])
        if isinstance(e, (ast.List, ast.Tuple, ast.Set)):
            return any([self.ev(v, env) for v in e.elts])
        if isinstance(e, (ast.GeneratorExp, ast.ListComp, ast.SetComp)):
            env2 = dict(env)
            for g in e.generators:
                it = self.ev(g.iter, env2)
                for n in ast.walk(g.target):
                    if isinstance(n, ast.Name):
                        env2[n.id] = it
                for c in g.ifs:
                    self.ev(c, env2)
            return self.ev(e.elt, env2)
        if isinstance(e, ast.Subscript):
            bt = self.ev(e.value, env)
            if bt and isinstance(e.slice, ast.Slice):
                self.findings.append((e.lineno, "rewritten", "`%s`: serialised text is cut by position" % self.src(e)[:70]))
            return bt
        if isinstance(e, ast.Attribute):
            return self.ev(e.value, env) and False
        if isinstance(e, ast.Call):
            return self.call(e, env)
        if isinstance(e, ast.Compare):
            self.ev(e.left, env)
            for c in e.comparators:
                self.ev(c, env)
            return False
        if isinstance(e, ast.UnaryOp):
            self.ev(e.operand, env)
            return False
        if isinstance(e, ast.Starred):
            return self.ev(e.value, env)
        return False

    def call(self, e, env):
        args_t = [self.ev(a, env) for a in e.args] + [self.ev(k.value, env) for k in e.keywords]
        f = e.func
        callee = f.id if isinstance(f, ast.Name) else f.attr if (isinstance(f, ast.Attribute) and isinstance(f.value, ast.Name) and f.value.id in ("self", "cls")) else None
        if callee in self.nested:
            self.calls += 1
            fn = self.nested[callee]
            params = [a.arg for a in fn.args.args]
            if isinstance(f, ast.Attribute) and params and params[0] in ("self", "cls"):
                params = params[1:]
            tainted = frozenset(p for p, t in zip(params, args_t) if t) | frozenset(k.arg for k in e.keywords if k.arg and self.ev(k.value, env))
            self.run_fn(fn, tainted)
            return True  # what a serialiser helper returns is serialised text
        if isinstance(f, ast.Attribute):
            recv_t = self.ev(f.value, env)
            if f.attr == "format":
                if recv_t:
                    self.findings.append((e.lineno, "template", "`%s`: the format template itself contains serialised values - braces in a string value are then read as replacement fields (`{{` collapses to `{`, `{0}` is substituted or raises)" % self.src(e)[:80]))
                return recv_t or any(args_t)
            if f.attr == "join":
                return recv_t or any(args_t)
            if recv_t and f.attr in TEXT_OPS:
                self.findings.append((e.lineno, "rewritten", "`%s`: serialised text is rewritten by content (.%s()) - line breaks, blanks or characters inside a quoted string value are treated like the layout around it" % (self.src(e)[:70], f.attr)))
                return True
            if any(args_t) and f.attr in TEXT_FUNCS:
                pat = e.args[0] if e.args else None
                if f.attr in ("sub", "subn") and isinstance(pat, ast.Constant) and isinstance(pat.value, str) and pat.value.lstrip("(?:").startswith('"') and "|" in pat.value:
                    # a substitution whose pattern first matches a whole quoted string (to copy it) and only then the layout
                    # character it is after: a tokenising pass - whether its string alternative agrees with the lexer is not decided here
                    self.undecided.append((e.lineno, "`%s`: serialised text goes through a regular-expression pass that claims to step over quoted strings" % self.src(e)[:70]))
                    return True
                self.findings.append((e.lineno, "rewritten", "`%s`: serialised text is passed through %s()" % (self.src(e)[:70], f.attr)))
                return True
            return recv_t and f.attr in ("encode", "decode", "__str__", "__add__")
        if isinstance(f, ast.Name) and f.id in ("str", "repr", "format", "text_type"):
            return any(args_t)
        return False

    # ---------------------------------------------------------------- statements
    def run_fn(self, fn, tainted):
        key = (fn.name, tainted)
        if key in self.memo or key in self.stack:
            return
        self.stack.append(key)
        env = {p: True for p in tainted}
        for _ in range(2):
            self.block(fn.body, env)
        self.stack.pop()
        self.memo[key] = True

    def block(self, stmts, env):
        for s in stmts:
            if isinstance(s, ast.FunctionDef):
                continue
            if isinstance(s, ast.Assign):
                t = self.ev(s.value, env)
                for tg in s.targets:
                    for n in ast.walk(tg):
                        if isinstance(n, ast.Name):
                            env[n.id] = t or (env.get(n.id, False) and False)
            elif isinstance(s, ast.AugAssign):
                t = self.ev(s.value, env)
                if isinstance(s.target, ast.Name):
                    env[s.target.id] = env.get(s.target.id, False) or t
            elif isinstance(s, ast.AnnAssign):
                if isinstance(s.target, ast.Name):
                    env[s.target.id] = self.ev(s.value, env)
            elif isinstance(s, (ast.Return, ast.Expr)):
                self.ev(s.value, env)
            elif isinstance(s, ast.If):
                self.ev(s.test, env)
                e1, e2 = dict(env), dict(env)
                self.block(s.body, e1)
                self.block(s.orelse, e2)
                for k in set(e1) | set(e2):
                    env[k] = e1.get(k, False) or e2.get(k, False)
            elif isinstance(s, (ast.For, ast.While)):
                if isinstance(s, ast.For):
                    it = self.ev(s.iter, env)
                    for n in ast.walk(s.target):
                        if isinstance(n, ast.Name):
                            env[n.id] = it
                else:
                    self.ev(s.test, env)
                for _ in range(2):
                    self.block(s.body, env)
                self.block(s.orelse, env)
            elif isinstance(s, ast.With):
                self.block(s.body, env)
            elif isinstance(s, ast.Try):
                self.block(s.body, env)
                for h in s.handlers:
                    self.block(h.body, env)
                self.block(s.orelse, env)
                self.block(s.finalbody, env)


def analyse(fn_node, src, helpers=None):
    t = Taint(fn_node, src, helpers)
    env = {}
    for _ in range(2):
        t.block(fn_node.body, env)
    seen = set()
    out = []
    for f in t.findings:
        if (f[0], f[1]) not in seen:
            seen.add((f[0], f[1]))
            out.append(f)
    if not out and t.undecided:
        from engine.report import AnalysisError
        raise AnalysisError("C15.f: %s" % t.undecided[0][1])
    return out, t.calls
