"""C18 — NetCDF reading and writing: parameter domains, re-entry/truthiness, error constructors, union mask, dimension copy."""
import ast

from engine.arrays import Arr
from engine.index import own_nodes
from engine.report import AnalysisError

from . import arrayrules as R
from . import common as K
from . import iorules
from .C13 import exception_construct


def _kw_aliases(fi):
    kw = fi.node.args.kwarg.arg if fi.node.args.kwarg else None
    out = {}
    for n in own_nodes(fi.node):
        if isinstance(n, ast.Assign) and len(n.targets) == 1 and isinstance(n.targets[0], ast.Name):
            k, _ = iorules._kw_read(n.value, kw)
            if k is not None:
                out.setdefault(n.targets[0].id, set()).add(k)
    return out


def _is_dt(e, names):
    return (isinstance(e, ast.Name) and e.id in names) or (iorules._kw_read(e, None)[0] == "DataType") or (isinstance(e, ast.Subscript) and isinstance(e.slice, ast.Constant) and e.slice.value == "DataType") \
        or (isinstance(e, ast.Call) and isinstance(e.func, ast.Attribute) and e.func.attr == "get" and e.args and isinstance(e.args[0], ast.Constant) and e.args[0].value == "DataType")


def run(ctx, idx):
    ctx.assume("netCDF4 API: Dataset[...] / createVariable / createDimension / ncattrs as documented; numpy axioms A14, A15, A19, A20")
    ctx.rule("C18.a", "Parameters mean what they clean to: kwargs.get defaults and literals compared with cleaned parameters lie in the cleaned domain (a DataType is a type object, so 'Float' / 'Fuzzy' are not); raw names are read through get_argument_value.")
    ctx.rule("C18.b", "No self re-entry and no array truthiness: execute never evaluates self.result; no array value is used in or/and/not/if.")
    ctx.rule("C18.c", "The NetCDF error classes construct (super() names the class itself; raise sites fit the signatures).")
    ctx.rule("C18.d", "Write mask is the union: the value stored into every output variable has M ⊇ all inputs of OutFieldNames; variable type and fill value flow from the same result; the read path stores the missing-value mask on the returned array.")
    ctx.rule("C18.e", "Dimension variables are copied: for each template dimension, creation of the dimension and variable, attribute copy and out[:] = in[:] lie on every path of the loop body.")
    res = R.results(idx)
    rd = res.get("mpilot/libraries/eems/netcdf/io.py::EEMSRead")
    wr = res.get("mpilot/libraries/eems/netcdf/io.py::EEMSWrite")
    if rd is None or wr is None:
        raise AnalysisError("NetCDF EEMSRead / EEMSWrite vanished")
    ctx.rule("C18.k", "The missing value is compared as the number given: no int() of the MissingValue parameter on a live path of the reader (a fractional missing value truncated to an integer marks valid cells holding that integer as missing). `numpy.issubdtype(<x>.mask.dtype, int)` is a dead test - a mask is boolean - so an int() under it is never taken.")
    par18 = {}
    for x_ in ast.walk(rd[0].execute.node):
        for ch_ in ast.iter_child_nodes(x_):
            par18[id(ch_)] = x_
    for c_ in ast.walk(rd[0].execute.node):
        if isinstance(c_, ast.Call) and isinstance(c_.func, ast.Name) and c_.func.id == "int" and c_.args and "MissingValue" in K.src(K.expand(rd[0].execute, c_.args[0])):
            up_ = par18.get(id(c_))
            dead = False
            while up_ is not None:
                if isinstance(up_, (ast.IfExp, ast.If)):
                    ts_ = K.src(up_.test).replace(" ", "")
                    in_true = (c_ is up_.body or any(c_ is y_ for y_ in ast.walk(up_.body))) if isinstance(up_, ast.IfExp) else any(c_ is y_ for b_ in up_.body for y_ in ast.walk(b_))
                    if in_true and ts_.startswith("numpy.issubdtype(") and ".mask.dtype," in ts_:
                        dead = True
                    # ... or the value is known to be whole there: `float(<the same value>).is_integer()` among the conjuncts
                    conj_ = up_.test.values if isinstance(up_.test, ast.BoolOp) and isinstance(up_.test.op, ast.And) else [up_.test]
                    if in_true and any(isinstance(t_, ast.Call) and isinstance(t_.func, ast.Attribute) and t_.func.attr == "is_integer" and isinstance(t_.func.value, ast.Call) and K.src(t_.func.value.func) == "float"
                                       and t_.func.value.args and K.src(K.expand(rd[0].execute, t_.func.value.args[0])) == K.src(K.expand(rd[0].execute, c_.args[0])) for t_ in conj_):
                        dead = True
                up_ = par18.get(id(up_))
            ctx.ob("C18.k", "%s.execute::missing-value-not-narrowed" % rd[0].key, rd[0].module.rel, c_.lineno, dead,
                   "int() of the missing value sits under a test that is never true (the mask's element type) or that the value is whole" if dead else
                   "`%s` truncates the missing value on a live path: MissingValue = 2.5 becomes 2 and every valid cell holding 2 is reported missing (and overwritten with the fill value)" % K.src(c_)[:50])
    ctx.rule("C18.l", "A read marks as missing what the file marks missing and the cells equal to the declared MissingValue - nothing else: the reader applies no value-based masking of its own (masked_invalid, masked_greater ..., fix_invalid). An infinite or NaN cell that was written as data comes back as data, and the Positive / Fuzzy range checks see it.")
    MASKERS = ("masked_invalid", "fix_invalid", "masked_greater", "masked_greater_equal", "masked_less", "masked_less_equal", "masked_inside", "masked_outside", "masked_where", "masked_values",
               "masked_equal", "masked_not_equal", "masked_object")
    n_mk = 0
    for c_ in ast.walk(rd[0].execute.node):
        if isinstance(c_, ast.Call):
            q_ = (idx.qualname(rd[0].execute.module, c_.func, rd[0].execute) or K.src(c_.func))
            if q_.split(".")[-1] in MASKERS:
                n_mk += 1
                on_missing = any("MissingValue" in K.src(K.expand(rd[0].execute, x_) if isinstance(x_, ast.Name) else x_) or "missing" in K.src(x_).lower() for a_ in list(c_.args) + [k_.value for k_ in c_.keywords] for x_ in ast.walk(a_) if isinstance(x_, (ast.Name, ast.Subscript))) and q_.split(".")[-1] in ("masked_equal", "masked_values", "masked_where", "masked_object")
                ctx.ob("C18.l", "%s.execute::masks-only-what-is-missing@%s" % (rd[0].key, q_.split(".")[-1]), rd[0].module.rel, c_.lineno, on_missing,
                       "masks the cells equal to MissingValue" if on_missing else
                       "`%s` marks cells missing by their VALUE: a cell that holds inf (or NaN) as data - written by EEMSWrite as it is - comes back missing, and the range checks of the Positive / Fuzzy types no longer see it" % K.src(c_)[:60])
    if not n_mk:
        ctx.hold("C18.l", "%s.execute::masks-only-what-is-missing" % rd[0].key, rd[0].module.rel, rd[0].execute.node.lineno, "no value-based masking call in the reader", nontrivial=False)
    ctx.rule("C18.j", "A Fuzzy read is limited to [-1, +1]: the reader calls insure_fuzzy(result, ...) for its effect and returns `result`, so the helper must clamp the object it is given, in place (C04.b's summary of the helper: bounds established on the argument itself and the argument returned). A helper that clamps a copy leaves the values inside the accepted 1% pad as stored.")
    from engine.arrays import Scal as _Scal

    _sym = Arr(kind="masked", alias=frozenset({"X"}), M=frozenset({"X"}), D=frozenset({"X"}), shape="same")
    _res, _out, _hf = R.summarize_helper(idx, "mpilot.utils", "insure_fuzzy", [_sym, _Scal(sym="lo"), _Scal(sym="hi")])
    _ign = [n_ for n_ in own_nodes(rd[0].execute.node) if isinstance(n_, ast.Expr) and isinstance(n_.value, ast.Call) and K.src(n_.value.func).split(".")[-1] == "insure_fuzzy"]
    _inplace = isinstance(_out, Arr) and _out.rng == (("s", "lo"), ("s", "hi")) and "X" in _out.alias
    if not _inplace:
        _res2, _out2, _hf2 = R.summarize_helper(idx, "mpilot.utils", "insure_fuzzy", [_sym, _Scal(const=-1), _Scal(const=1)])  # the limits the reader passes
        _inplace = isinstance(_out2, Arr) and _out2.rng == (("c", -1), ("c", 1)) and "X" in _out2.alias
    if _ign:
        ctx.ob("C18.j", "%s.execute::fuzzy-read-is-clamped" % rd[0].key, rd[0].module.rel, _ign[0].lineno, _inplace,
               "insure_fuzzy clamps its argument in place; the reader returns that object" if _inplace else
               "the reader calls `%s` for its effect and ignores what it returns, but insure_fuzzy no longer clamps the array it is given (it works on a copy): a Fuzzy read returns stored values slightly outside [-1, +1] unchanged" % K.src(_ign[0].value)[:50])
    ctx.rule("C18.h", "The NetCDF writer reads every result before it creates its output dataset (lazy evaluation: a variable read from the dataset being rewritten must have been read before it is replaced).")
    iorules.inputs_evaluated_before_open(ctx, idx, "C18.h", wr[0], "a Read of the same dataset that has not run yet opens the new, empty file")
    ctx.rule("C18.i", "Reading returns what the file holds now: neither reader nor writer goes through a result cache (functools.lru_cache and the like) keyed by path and variable name - a dataset rewritten in the same process, or read twice with different type options, would come back as the first reading (modified in place by it).")
    for d_, _r in (rd, wr):
        memo = K.memoised_helpers(idx, d_.execute)
        con_ = "%s.execute::no-result-cache" % d_.key
        ctx.ob("C18.i", con_, d_.module.rel, (memo[0][0].node.lineno if memo else d_.execute.node.lineno), not memo,
               "no cached helper on the path" if not memo else "`%s` is cached with `@%s`: the variable read first is returned again after the file was rewritten, and the array handed out is the cached object itself (rounded, clipped and filled in place by the first reader)" % (memo[0][0].name, memo[0][1]))
    # ---- a
    d, r = rd
    n = iorules.param_domains(ctx, idx, "C18.a", d)
    ctx.floor("C18.a", "defaults / comparisons of cleaned parameters", n, 1)
    iorules.constructor_dtype(ctx, idx, "C18.a", d, r)
    for kind, line, msg, fk, node in r.findings:
        if kind == "dtype-arg":
            ctx.violate("C18.a", "%s.execute::dtype-string" % d.key, d.module.rel, line, msg)
    # the reader's checks by type *name* and the cleaner's reading of that name must agree: when DataTypeParameter.clean accepts
    # other spellings than the table's keys (blanks dropped, another case), a test of the raw argument text against the declared
    # names misses them - the type is applied, its positive / fuzzy check is not
    dtc = idx.cls("mpilot.params", "DataTypeParameter")
    dcl = dtc.methods.get("clean") if dtc is not None else None
    if dcl is None:
        raise AnalysisError("C18.a: DataTypeParameter.clean vanished")
    vname = dcl.node.args.args[1].arg
    rebinds = [st for st in own_nodes(dcl.node) if isinstance(st, ast.Assign) and any(isinstance(t_, ast.Name) and t_.id == vname for t_ in st.targets)
               and not (isinstance(st.value, ast.Call) and isinstance(st.value.func, ast.Attribute) and st.value.func.attr == "clean")]
    keyed_other = [x for x in own_nodes(dcl.node) if isinstance(x, ast.Subscript) and K.src(x.value).endswith(".valid_types") and not (isinstance(x.slice, ast.Name))]
    keyed_other += [x for x in own_nodes(dcl.node) if isinstance(x, ast.Call) and isinstance(x.func, ast.Attribute) and x.func.attr == "get" and K.src(x.func.value).endswith(".valid_types") and x.args and not isinstance(x.args[0], ast.Name)]
    # a table re-keyed under other spellings (`names = {name.replace(" ", ""): t for name, t in self.valid_types.items()}`) and looked up
    for st in own_nodes(dcl.node):
        if isinstance(st, ast.Assign) and len(st.targets) == 1 and isinstance(st.targets[0], ast.Name) and isinstance(st.value, ast.DictComp) \
                and "valid_types" in K.src(st.value.generators[0].iter) and not isinstance(st.value.key, ast.Name):
            tn = st.targets[0].id
            if any((isinstance(x, ast.Subscript) and isinstance(x.value, ast.Name) and x.value.id == tn) or (isinstance(x, ast.Call) and isinstance(x.func, ast.Attribute) and x.func.attr == "get" and isinstance(x.func.value, ast.Name) and x.func.value.id == tn) for x in own_nodes(dcl.node)):
                keyed_other.append(st)
    transforms = bool(rebinds or keyed_other)
    raw_tests = []
    for t_ in ast.walk(d.execute.node):
        if isinstance(t_, ast.Compare) and len(t_.ops) == 1 and isinstance(t_.ops[0], (ast.Eq, ast.NotEq, ast.In, ast.NotIn)):
            l_ = K.expand(d.execute, t_.left)
            if isinstance(l_, ast.Call) and isinstance(l_.func, ast.Attribute) and l_.func.attr == "get_argument_value" and l_.args and isinstance(l_.args[0], ast.Constant) and l_.args[0].value == "DataType":
                raw_tests.append(t_)
    con_n = "%s.execute::type-name-as-the-cleaner-reads-it" % d.key
    if transforms and raw_tests:
        ctx.violate("C18.a", con_n, d.module.rel, raw_tests[0].lineno, "DataTypeParameter.clean accepts spellings that are not keys of the type table (`%s`), but `%s` compares the raw argument text with the declared names: for such a spelling the element type is applied and the positive / fuzzy check is skipped (negative data read as Positive Integer wraps to huge values)" % (K.src((rebinds or keyed_other)[0])[:60], K.src(raw_tests[0])[:70]))
    else:
        ctx.hold("C18.a", con_n, d.module.rel, d.execute.node.lineno, "the cleaner accepts the table's own keys only, or the reader's name tests go through the cleaner's reading", nontrivial=False)
    # the type checks (positive / fuzzy) must exist and be keyed on the raw name
    fi = d.execute
    cfg = K.cfg_of(idx, fi)
    for err, names in (("InvalidPositiveData", ("Positive Integer", "Positive Float")), ("InvalidFuzzyData", ("Fuzzy",))):
        rz = [x for x in cfg.find("raise") if (x.meta.get("qual") or "").endswith("." + err) and x in cfg.reachable()]
        con = "%s.execute::type-check(%s)" % (d.key, err)
        if not rz:
            ctx.violate("C18.a", con, d.module.rel, fi.node.lineno, "%s is never raised: the documented %s check is gone" % (err, "/".join(names)))
            continue
        tests = [t for t in cfg.find("test") if any(cfg.dominates(t, x) for x in rz)]

        def mentions(t):
            e = K.expand(fi, t.ast)
            for c in ast.walk(e):
                if isinstance(c, ast.Constant) and c.value in names:
                    return True
                if isinstance(c, (ast.Name, ast.Attribute)):
                    try:
                        v = idx.const(fi.module, c, fi)
                    except KeyError:
                        continue
                    if isinstance(v, (tuple, list, set, frozenset)) and any(x in names for x in v):
                        return True
                    if v in names:
                        return True
            return False

        keyed = [t for t in tests if mentions(t)]
        raw = [t for t in keyed if "get_argument_value" in K.src(K.expand(fi, t.ast))]
        if not keyed:
            ctx.violate("C18.a", con, d.module.rel, rz[0].line, "%s is not guarded by a test on the %s data type" % (err, "/".join(names)))
        elif not raw:
            ctx.violate("C18.a", con, d.module.rel, keyed[0].line, "`%s` compares a cleaned DataType (a type object) with its name: the %s check can never run" % (keyed[0].text(), err))
        else:
            ctx.hold("C18.a", con, d.module.rel, raw[0].line, "`%s` tests the raw type name" % raw[0].text()[:70])
            if err == "InvalidPositiveData":
                # the sign is tested on the values as read: after the cast to an unsigned type a negative value has already wrapped
                recv = []
                direct_conv = []
                for t in tests:
                    for c in ast.walk(t.ast):
                        if isinstance(c, ast.Call) and isinstance(c.func, ast.Attribute) and c.func.attr in ("min", "max", "any", "all") and isinstance(c.func.value, ast.Name):
                            recv.append((c.func.value.id, c))
                        if isinstance(c, ast.Call) and isinstance(c.func, ast.Attribute) and c.func.attr in ("min", "max", "any", "all") and isinstance(c.func.value, ast.Call):
                            inner = c.func.value
                            if any(k.arg == "dtype" for k in inner.keywords) or (isinstance(inner.func, ast.Attribute) and inner.func.attr == "astype"):
                                recv.append(("<converted>", c))
                                direct_conv.append(("the converted array", c, ast.Assign(targets=[], value=inner)))
                        if isinstance(c, ast.Compare) and isinstance(c.left, ast.Name) and any(isinstance(o, (ast.Lt, ast.LtE, ast.Gt, ast.GtE)) for o in c.ops):
                            recv.append((c.left.id, c))
                conv = list(direct_conv)
                for nm, c in recv:
                    for n_ in own_nodes(fi.node):
                        if isinstance(n_, ast.Assign) and any(isinstance(tg, ast.Name) and tg.id == nm for tg in n_.targets) and isinstance(n_.value, ast.Call):
                            if any(k.arg == "dtype" for k in n_.value.keywords) or (isinstance(n_.value.func, ast.Attribute) and n_.value.func.attr == "astype"):
                                conv.append((nm, c, n_))
                if conv:
                    # a sign test on converted values is sound where the conversion keeps the sign: under a test that admits
                    # only Positive Float (element type float).  Each raise is read with the tests that dominate it.
                    def holds_at(t, x):
                        """x is reached only through the true edge of test t"""
                        seen, work = set(), [cfg.entry]
                        while work:
                            n_ = work.pop()
                            if n_ in seen:
                                continue
                            seen.add(n_)
                            for m_, lab in n_.succ:
                                if n_ is t and lab == "true":
                                    continue
                                work.append(m_)
                        return x not in seen

                    def admitted(x):
                        adm = None
                        for t in tests:
                            if not cfg.dominates(t, x) or not holds_at(t, x):
                                continue
                            for c in ast.walk(K.expand(fi, t.ast)):
                                if isinstance(c, ast.Compare) and len(c.ops) == 1 and isinstance(c.ops[0], (ast.Eq, ast.In)):
                                    try:
                                        v = idx.const(fi.module, c.comparators[0], fi)
                                    except Exception:
                                        continue
                                    vs = {v} if isinstance(v, str) else set(v) if isinstance(v, (tuple, list, set, frozenset)) else set()
                                    if vs & set(names):
                                        adm = (vs & set(names)) if adm is None else adm & vs
                        return adm
                    covered = set()
                    still = []
                    for x in rz:
                        adm = admitted(x)
                        mine = [cv for cv in conv if any(cfg.dominates(t, x) and any(cv[1] is y for y in ast.walk(t.ast)) for t in tests)]
                        if mine and adm is not None and adm <= {"Positive Float"}:
                            covered |= adm
                        elif mine:
                            still.extend(mine)
                        elif adm is not None:
                            covered |= adm
                    if not still and covered >= set(names):
                        conv = []
                    elif not still:
                        ctx.violate("C18.a", "%s.execute::positive-check-on-file-values" % d.key, d.module.rel, rz[0].line, "no sign test is left for %s" % ", ".join(sorted(set(names) - covered)))
                        conv = []
                    else:
                        conv = still
                con2 = "%s.execute::positive-check-on-file-values" % d.key
                if not recv:
                    raise AnalysisError("C18.a: the value tested by the positive-data check was not found")
                ctx.ob("C18.a", con2, d.module.rel, (conv[0][1] if conv else recv[0][1]).lineno, not conv,
                       "the sign test reads the values as they come from the file" if not conv else
                       "the sign test reads `%s`, which has already been converted (`%s`): for Positive Integer the cast to an unsigned type wraps negative values to huge positive ones, so the check can never fire" % (conv[0][0], K.src(conv[0][2].value)[:50]))
    # rounding before an integer cast covers every integral element type of the DataType table (a float -> integer cast truncates)
    vt = d.inputs["DataType"].kw.get("valid_types") if "DataType" in d.inputs else None
    rints = [n for n in own_nodes(fi.node) if isinstance(n, ast.Call) and (idx.qualname(fi.module, n.func, fi) or "") in ("numpy.rint", "numpy.round", "numpy.around", "numpy.round_")]
    con = "%s.execute::rounding-covers-integer-types" % d.key
    if isinstance(vt, dict) and vt:
        def tkind(q):
            q = str(getattr(q, "qual", q))
            nm = q.split(".")[-1]
            if q == "builtins.int" or nm.startswith("int") or nm in ("long", "longlong", "intp", "short", "byte", "signedinteger"):
                return "i"
            if nm.startswith("uint") or nm in ("ulong", "ulonglong", "uintp", "ushort", "ubyte", "unsignedinteger"):
                return "u"
            if q == "builtins.float" or nm.startswith("float") or nm in ("double", "single", "half", "floating"):
                return "f"
            if nm == "integer":
                return "iu"
            if nm in ("number", "generic"):
                return "iuf"
            return "?"

        integral = sorted({nm for nm, q in vt.items() if tkind(q) in ("i", "u")})
        if not rints:
            ctx.violate("C18.a", con, d.module.rel, fi.node.lineno, "floating file data is cast to %s without rounding: the cast truncates (2.6 is read as 2)" % ", ".join(integral))
        else:
            guard = None
            for n in own_nodes(fi.node):
                if isinstance(n, ast.If) and any(rints[0] is x for b in n.body for x in ast.walk(b)):
                    guard = n.test
            dt_names = {a for a, ks in _kw_aliases(fi).items() if "DataType" in ks}

            def holds(e, q):
                """truth of the guard conjunct for element type q; None when the conjunct does not speak about the type"""
                e = K.expand(fi, e) if not (isinstance(e, ast.Name) and e.id in dt_names) else e
                if isinstance(e, ast.BoolOp) and isinstance(e.op, ast.And):
                    vs = [holds(v, q) for v in e.values]
                    if any(v is False for v in vs):
                        return False
                    return True if any(v is True for v in vs) else None
                if isinstance(e, ast.BoolOp) and isinstance(e.op, ast.Or):
                    vs = [holds(v, q) for v in e.values]
                    if any(v is True for v in vs):
                        return True
                    return False if all(v is False for v in vs) else None
                if isinstance(e, ast.Compare) and len(e.ops) == 1 and _is_dt(e.left, dt_names):
                    comp0 = e.comparators[0]
                    if isinstance(comp0, (ast.Name, ast.Attribute)):
                        # a module-level constant holding the tuple of types
                        rr = idx.resolve(fi.module, comp0, fi)
                        if rr and rr[0] == "const" and isinstance(rr[1].consts.get(rr[2]), (ast.Tuple, ast.List, ast.Set)):
                            comp0 = rr[1].consts[rr[2]]
                    if isinstance(e.ops[0], (ast.In, ast.NotIn)) and isinstance(comp0, (ast.Tuple, ast.List, ast.Set)):
                        quals = [idx.qualname(fi.module, x, fi) for x in comp0.elts]
                        res_ = str(getattr(q, "qual", q)) in quals
                        return res_ if isinstance(e.ops[0], ast.In) else not res_
                    if isinstance(e.ops[0], (ast.Is, ast.Eq)):
                        return idx.qualname(fi.module, e.comparators[0], fi) == str(getattr(q, "qual", q))
                if isinstance(e, ast.Call) and (idx.qualname(fi.module, e.func, fi) or "") == "numpy.issubdtype" and len(e.args) == 2 and _is_dt(e.args[0], dt_names):
                    want = tkind(idx.qualname(fi.module, e.args[1], fi) or "?")
                    if want == "?":
                        raise AnalysisError("C18.a: numpy.issubdtype(..., %s) is outside the type table" % K.src(e.args[1]))
                    return tkind(q) in want
                if any(_is_dt(x, dt_names) for x in ast.walk(e)):
                    raise AnalysisError("C18.a: rounding guard `%s` is outside the recognised forms" % K.src(e)[:70])
                return None

            # the guard looks at the element type of the VALUES it is about to round (what `variable[:]` delivered), not at the
            # file variable's storage type: netCDF4 unpacks a packed variable (int16 + scale_factor / add_offset) into float64
            rarg = rints[0].args[0] if rints[0].args and isinstance(rints[0].args[0], ast.Name) else None
            if guard is not None and rarg is not None:
                for x_ in ast.walk(K.expand(fi, guard)):
                    if isinstance(x_, ast.Attribute) and x_.attr == "dtype" and K.src(x_.value) != rarg.id:
                        src_defs = [n_.value for n_ in own_nodes(fi.node) if isinstance(n_, ast.Assign) and any(isinstance(t_, ast.Name) and t_.id == rarg.id for t_ in n_.targets)]
                        if any(isinstance(v_, ast.Subscript) and K.src(K.expand(fi, v_.value)) == K.src(x_.value) for v_ in src_defs):
                            ctx.violate("C18.a", "%s.execute::rounding-decided-by-the-values" % d.key, d.module.rel, rints[0].lineno, "the rounding step is decided by `%s.dtype`, the STORAGE type of the file variable, not by the element type of `%s`, the values read from it: a packed variable (int16 with scale_factor / add_offset) is delivered as float64 but stored as an integer, so its fractional values are not rounded and the integer cast truncates them (2.7 reads as 2)" % (K.src(x_.value)[:40], rarg.id))
                            break
            missing = []
            if guard is not None:
                for nm in integral:
                    if holds(guard, vt[nm]) is False:
                        missing.append(nm)
            ctx.ob("C18.a", con, d.module.rel, rints[0].lineno, not missing, "floating data is rounded before the cast for %s" % ", ".join(integral) if not missing else
                   "the rounding step is skipped for the element type of %s (the guard `%s` is false for it: numpy.issubdtype(numpy.uint, int) is False): floating file values are then truncated by the cast (2.6 reads as 2) while the signed integer type rounds" % (", ".join(missing), K.src(K.expand(fi, guard))[:80]))
    # ---- b
    n_t = 0
    for key in (rd, wr):
        dd, rr = key
        bad = [f for f in rr.findings if f[0] in ("truth", "selfresult", "selfexecute")]
        con = "%s.execute::no-reentry-no-truthiness" % dd.key
        n_t += 1
        if bad:
            ctx.violate("C18.b", con, dd.module.rel, bad[0][1], "; ".join(f[2] for f in bad[:2]))
        else:
            ctx.hold("C18.b", con, dd.module.rel, dd.execute.node.lineno, "no self.result / self.run(), no array in a boolean context")
    # ---- c
    nsup, nct = exception_construct(ctx, idx, "C18.c", only_module="mpilot.libraries.eems.netcdf", floors=False)
    ctx.floor("C18.c", "NetCDF error classes with super().__init__", nsup, 3)
    ctx.floor("C18.c", "NetCDF raise sites", nct, 3)
    # ---- d (read)
    miss = [nm for nm, p in d.inputs.items() if p.name == "NumberParameter" and "miss" in nm.lower()]
    good = [(line, t, v) for line, t, v, node, fk in r.maskstores if isinstance(v, Arr) and v.cmp is not None and any(("kw:" + m) in str(v.cmp[2]) for m in miss)]
    rets = R.returns_with_parameter(d, r, miss)
    ok = bool(good) and all(any(t.alias & v.alias for _, t, _ in good) for v in rets)
    keeps_file_mask = all(isinstance(v, Arr) and v.M is not None for _, _, v in good)
    ops = sorted({v.cmp[1] for _, _, v in good})
    eq = bool(good) and ops == ["Eq"]
    ctx.ob("C18.d", "%s.execute::missing-value-mask" % d.key, d.module.rel, good[0][0] if good else fi.node.lineno, ok and eq,
           "mask = (data == %s) | file mask, stored on the returned array" % miss[0] if ok and eq else (
               "cells are marked missing by a `%s` comparison with `%s`, not by equality: valid cells merely close to the missing value are reported missing" % ("/".join(ops), miss[0]) if ok else
               "the MissingValue mask is not stored on the returned array"))
    R.zero_is_a_value(ctx, "C18.d", d, r)
    for v in rets:
        if "file" in v.D:
            keeps = "file" in v.M
            ctx.ob("C18.d", "%s.execute::file-mask-kept" % d.key, d.module.rel, fi.node.lineno, keeps,
                   "the variable's own missing cells stay missing (union with the missing-value mask)" if keeps else
                   "the mask assigned to the returned array replaces the mask the file delivers: cells the variable marks missing (_FillValue) are returned as ordinary numbers whenever MissingValue is given")
    # ---- f: shapes
    ctx.rule("C18.f", "A grid keeps its shape through the file: the reader returns the variable's own array (no squeeze, reshape, transposition or flattening between the file and the result) and the writer stores the results as they are.")
    for d_, r_, role in ((rd[0], rd[1], "read"), (wr[0], wr[1], "write")):
        pos = [f_ for f_ in r_.findings if f_[0] in ("equivariance", "shape")]
        con_ = "%s.execute::shape-kept" % d_.key
        if role == "write" and pos:
            # block-wise copy: `for b in range(N): s = b * B; target[s:s+B] = source[s:s+B]` - the same rows on both sides, so no cell
            # moves; what has to hold is that the blocks cover every row: N is the row count divided by B ROUNDED UP
            blk = None
            for lp_ in [n_ for n_ in ast.walk(d_.execute.node) if isinstance(n_, ast.For) and isinstance(n_.iter, ast.Call) and K.src(n_.iter.func) == "range" and len(n_.iter.args) == 1]:
                sts_ = [st_ for st_ in lp_.body if isinstance(st_, ast.Assign) and len(st_.targets) == 1 and isinstance(st_.targets[0], ast.Subscript) and isinstance(st_.value, ast.Subscript)
                        and K.src(st_.targets[0].slice) == K.src(st_.value.slice) and isinstance(st_.value.slice, ast.Slice)]
                if sts_ and all(any(f_[1] == x_.lineno for x_ in ast.walk(lp_) if hasattr(x_, "lineno")) for f_ in pos):
                    blk = (lp_, sts_[0])
            if blk is not None:
                n_src = K.src(blk[0].iter.args[0]).replace(" ", "")
                sl_ = blk[1].value.slice
                lo_src = K.src(K.expand(d_.execute, sl_.lower) if isinstance(sl_.lower, ast.Name) else sl_.lower).replace(" ", "") if sl_.lower is not None else ""
                import re as _re
                ceil_ = bool(_re.fullmatch(r"-\(-(.+)//(\w+)\)", n_src)) or bool(_re.fullmatch(r"\((.+)\+(\w+)-1\)//(\w+)", n_src)) or "ceil(" in n_src
                floor_ = (not ceil_) and "//" in n_src
                if ceil_ and lo_src:
                    ctx.hold("C18.f", con_, d_.module.rel, blk[0].lineno, "block-wise copy of the same rows on both sides; the block count is the row count divided by the block size, rounded up")
                    continue
                if floor_:
                    ctx.violate("C18.f", con_, d_.module.rel, blk[0].lineno, "the grid is written in `%s` blocks of rows - the row count divided by the block size rounded DOWN: the rows after the last full block are never written (they keep the fill value and read back as missing)" % K.src(blk[0].iter.args[0])[:60])
                    continue
                raise AnalysisError("C18.f: the grid is written block by block (`range(%s)`); whether the blocks cover every row is outside the forms read here" % K.src(blk[0].iter.args[0])[:40])
        shapes = sorted({v.shape for s_, v, fk in r_.returns if isinstance(v, Arr)}) if role == "read" else []
        if pos:
            ctx.violate("C18.f", con_, d_.module.rel, pos[0][1], "%s: a grid with an axis of length 1 (or of another rank) does not come back from the file with the shape it was written with" % pos[0][2])
        elif role == "read" and shapes != ["same"]:
            ctx.violate("C18.f", con_, d_.module.rel, d_.execute.node.lineno, "the returned array has abstract shape %s, not the file variable's own" % "/".join(shapes or ["none"]))
        else:
            ctx.hold("C18.f", con_, d_.module.rel, d_.execute.node.lineno, "no shape-changing operation on the %s path" % role)
    # ---- g: the file format can hold every element type the reader hands out
    ctx.rule("C18.g", "The output file's data model holds every element type a result can have: the reader's type table delivers 64-bit and unsigned integers (int, numpy.uint), which only the NETCDF4 (and CDF-5) models store; the writer therefore creates the dataset with the default format or one of those.")
    ctx.assume("netCDF4 library: Dataset(filename, mode, clobber, format='NETCDF4', ...); NETCDF4_CLASSIC and the NETCDF3 formats other than NETCDF3_64BIT_DATA have no 64-bit or unsigned integer types")
    dcalls = [n for n in own_nodes(wr[0].execute.node) if isinstance(n, ast.Call) and (idx.qualname(wr[0].execute.module, n.func, wr[0].execute) or K.src(n.func)).split(".")[-1] == "Dataset"]
    wcalls = []
    for c_ in dcalls:
        mode = c_.args[1] if len(c_.args) > 1 else next((k.value for k in c_.keywords if k.arg == "mode"), None)
        if isinstance(mode, ast.Constant) and isinstance(mode.value, str) and mode.value[:1] in ("w", "x"):
            wcalls.append(c_)
    if not wcalls:
        raise AnalysisError("C18.g: the Dataset(..., 'w') call of the NetCDF writer was not found")
    for c_ in wcalls:
        fmt = c_.args[3] if len(c_.args) > 3 else next((k.value for k in c_.keywords if k.arg == "format"), None)
        con_ = "%s.execute::file-format" % wr[0].key
        if fmt is None:
            ctx.hold("C18.g", con_, wr[0].module.rel, c_.lineno, "default format (NETCDF4)")
            continue
        try:
            fv_ = idx.const(wr[0].execute.module, fmt, wr[0].execute)
        except Exception:
            raise AnalysisError("C18.g: the dataset format `%s` is not a constant" % K.src(fmt))
        okf = fv_ in ("NETCDF4", "NETCDF3_64BIT_DATA")
        ctx.ob("C18.g", con_, wr[0].module.rel, c_.lineno, okf, "format %s stores every integer width" % fv_ if okf else
               "the dataset is created as %s, a data model without 64-bit and unsigned integers: a result read with DataType Integer (int64) or Positive Integer (uint64) cannot be written back (createVariable fails), although it was read from a file of the same kind" % fv_)
    # ---- d (write)
    d, r = wr
    fi = d.execute
    lists = [nm for nm, (k, _) in d.ref_inputs().items() if k == "cmdlist"]
    want = frozenset({lists[0] + "#0", lists[0] + "#r"}) if lists else frozenset()
    con = "%s.execute::union-mask" % d.key
    stores = [(line, v, node) for line, v, node in r.ncstores if isinstance(v, Arr) and not v.filearr and (v.D & want or v.Pc & want)]
    if not stores:
        ctx.violate("C18.d", con, d.module.rel, fi.node.lineno, "no masked array is stored into an output variable")
    cvs_ = [n for n in own_nodes(fi.node) if isinstance(n, ast.Call) and isinstance(n.func, ast.Attribute) and n.func.attr == "createVariable" and any(k.arg == "fill_value" for k in n.keywords)]
    var_fills = {K.src(K.expand(fi, k.value)) for n in cvs_ for k in n.keywords if k.arg == "fill_value"}
    for line, v, node in stores:
        missm = want - v.M if v.kind == "masked" else want
        if v.kind == "plain" and v.filledwith and v.filledwith[1] is not None and not (want - v.filledwith[0]) and len(cvs_) == 1 and var_fills == {v.filledwith[1]}:
            # a plain array whose missing cells hold exactly the variable's _FillValue is the same file content as the masked
            # array (netCDF4 writes the fill value for masked cells and masks cells equal to it on reading)
            missm = frozenset()
        ctx.ob("C18.d", con, d.module.rel, line, not missm, "stored value's mask covers every written result (%s)" % R.tok_text(v.M) if not missm else
               "the mask written with each variable does not cover the missing cells of %s: a cell missing in one result is written as valid in the others" % R.tok_text(missm))
    # the union is complete before the first variable is written: the statement storing a variable does not sit in the loop that
    # still accumulates the mask it stores (a running union gives variable i the missing cells of results 1..i only)
    con_u = "%s.execute::union-complete-before-writing" % d.key
    running = None
    for lp_ in [n_ for n_ in own_nodes(fi.node) if isinstance(n_, ast.For)]:
        acc = set()
        for st_ in ast.walk(lp_):
            if isinstance(st_, ast.AugAssign) and isinstance(st_.target, ast.Name) and isinstance(st_.op, ast.BitOr):
                acc.add(st_.target.id)
            if isinstance(st_, ast.Assign) and len(st_.targets) == 1 and isinstance(st_.targets[0], ast.Name) and st_.targets[0].id in K.names_in(st_.value) \
                    and any(isinstance(c_, ast.Call) and K.src(c_.func).split(".")[-1] in ("mask_or", "logical_or", "bitwise_or") for c_ in ast.walk(st_.value)) or \
                    (isinstance(st_, ast.Assign) and len(st_.targets) == 1 and isinstance(st_.targets[0], ast.Name) and isinstance(st_.value, ast.BinOp) and isinstance(st_.value.op, ast.BitOr) and st_.targets[0].id in K.names_in(st_.value)):
                acc.add(st_.targets[0].id)
        if not acc:
            continue
        for st_ in ast.walk(lp_):
            if isinstance(st_, ast.Assign) and any(isinstance(t_, ast.Subscript) and K.src(t_).endswith("[:]") for t_ in st_.targets) and (K.names_in(st_.value) & acc):
                running = (st_, sorted(K.names_in(st_.value) & acc)[0])
    if running is not None:
        ctx.violate("C18.d", con_u, d.module.rel, running[0].lineno, "`%s` stores a variable inside the loop that is still accumulating `%s`: the i-th variable gets the missing cells of the first i results only (the last one alone carries the full union), so a cell missing in a later result is written as valid in the earlier ones and the outcome depends on the order of the fields" % (K.src(running[0])[:60], running[1]))
    else:
        ctx.hold("C18.d", con_u, d.module.rel, fi.node.lineno, "no variable is stored inside a loop that accumulates the mask it stores", nontrivial=False)
    R.leaves_inputs_alone(ctx, "C18.d", d, r, "the union of missing cells is accumulated inside the first result itself, so that result carries the other results' missing cells from then on and any later write of it stores cells as missing that never were")
    cv = [n for n in own_nodes(fi.node) if isinstance(n, ast.Call) and isinstance(n.func, ast.Attribute) and n.func.attr == "createVariable" and any(k.arg == "fill_value" for k in n.keywords)]
    con = "%s.execute::variable-type-and-fill" % d.key
    if not cv:
        ctx.violate("C18.d", con, d.module.rel, fi.node.lineno, "output variables are created without a fill value")
    else:
        c = cv[0]
        loopvar = None
        for n in own_nodes(fi.node):
            if isinstance(n, ast.For) and any(c is x for x in ast.walk(n)) and isinstance(n.target, ast.Name):
                loopvar = n.target.id
        # netCDF4: createVariable(varname, datatype, dimensions=(), ..., fill_value=None) - positional or keyword
        kws = {k.arg: k.value for k in c.keywords if k.arg}
        pos = list(c.args)
        a_nodes = [pos[0] if len(pos) > 0 else kws.get("varname"), pos[1] if len(pos) > 1 else kws.get("datatype")]
        par = {}
        for n in own_nodes(fi.node):
            if isinstance(n, ast.For) and any(c is x for x in ast.walk(n)):
                par = K.zip_parallel(fi, n)
                if par and isinstance(n.target, ast.Tuple):
                    loopvar = n.target.elts[0].id

        def resolved(x):
            import copy

            x = K.expand(fi, x)
            if isinstance(x, ast.Name) and x.id in par:
                return K.src(par[x.id])

            class S_(ast.NodeTransformer):
                def visit_Name(self, nd):
                    if isinstance(nd.ctx, ast.Load) and nd.id in par:
                        return copy.deepcopy(par[nd.id])
                    return nd

            return K.src(S_().visit(copy.deepcopy(x)))

        a = [resolved(x) if x is not None else "" for x in a_nodes]
        fv = resolved(kws["fill_value"])
        ok = loopvar is not None and len(a) >= 2 and a[0] == "%s.result_name" % loopvar and a[1].startswith("%s.result.dtype" % loopvar) and fv == "%s.result.fill_value" % loopvar
        ctx.ob("C18.d", con, d.module.rel, c.lineno, ok, "name, dtype and fill value all come from the result being written" if ok else "name/dtype/fill value do not all come from the same result: createVariable(%s, fill_value=%s)" % (", ".join(a[:2]), fv))
    # ---- e
    cfg = K.cfg_of(idx, fi)
    heads = [h for h in cfg.find("iter") if not h.meta.get("comp") and isinstance(h.meta["target"], ast.Name) and K.src(h.meta["iter"]) in ("dimensions",) or (not h.meta.get("comp") and ".dimensions" in K.src(h.meta["iter"]) and "grid_mapping" not in K.src(h.meta["iter"]))]
    con = "%s.execute::dimension-copy" % d.key
    if not heads:
        raise AnalysisError("C18.e: the loop over the template's dimensions was not found")
    h = heads[0]
    firsts = [m for m, l in h.succ if l == "loop"]
    body = cfg.reachable(firsts, avoid={h})
    need = {
        "createDimension": [n for n in body if n.kind == "call" and isinstance(n.ast.func, ast.Attribute) and n.ast.func.attr == "createDimension"],
        "createVariable": [n for n in body if n.kind == "call" and isinstance(n.ast.func, ast.Attribute) and n.ast.func.attr == "createVariable"],
        "values": [n for n in body if n.kind == "store" and n.meta.get("subscript") and K.src(n.ast).endswith("[:]") and isinstance(n.meta.get("value"), ast.Subscript) and K.src(n.meta["value"]).endswith("[:]")],
    }
    probs = []
    for what, nodes in need.items():
        if not nodes:
            probs.append("%s is missing from the dimension loop" % ("out[:] = in[:]" if what == "values" else what))
        elif not all(cfg.must_pass_through(b, h, set(nodes)) for b in firsts):
            probs.append("%s is skipped on some path of the loop body" % ("the coordinate copy out[:] = in[:]" if what == "values" else what))
    attr_loops = [n for n in body if n.kind == "iter" and not n.meta.get("comp") and "ncattrs()" in K.src(n.meta["iter"])]
    setn = [n for n in body if n.kind == "call" and isinstance(n.ast.func, ast.Attribute) and n.ast.func.attr == "setncattr"]
    if not attr_loops or not setn:
        probs.append("the netCDF attributes of the dimension variable are not copied")
    elif not all(cfg.must_pass_through(b, h, set(attr_loops)) for b in firsts):
        probs.append("the attribute copy is skipped on some path")
    for s in need["values"]:
        src_v = K.src(s.meta["value"])[:-3]
        dst_v = K.src(s.ast)[:-3]
        if src_v == dst_v:
            probs.append("the coordinate copy assigns a variable to itself")
    # the copy reads and writes in the same representation: netCDF4 converts packed values (scale_factor / add_offset) and fill
    # values on both sides by default; switching that off for one side only makes the other side convert the raw numbers again
    autos = {}
    for n_ in own_nodes(fi.node):
        if isinstance(n_, ast.Call) and isinstance(n_.func, ast.Attribute) and n_.func.attr in ("set_auto_maskandscale", "set_auto_scale", "set_auto_mask", "set_always_mask") and n_.args:
            off = isinstance(n_.args[0], ast.Constant) and n_.args[0].value is False
            if off or not isinstance(n_.args[0], ast.Constant):
                autos.setdefault(K.src(n_.func.value), []).append(n_)

    def roots(expr):
        """names an expression is derived from (x[...] / x.createVariable(...) / x.variables[...])"""
        out_, work_ = set(), [expr]
        while work_:
            e_ = work_.pop()
            if isinstance(e_, ast.Name):
                out_.add(e_.id)
                d0 = K.single_defs(fi).get(e_.id)
                if d0 is not None and d0 is not e_ and len(out_) < 12:
                    work_.append(d0)
            elif isinstance(e_, ast.Subscript):
                work_.append(e_.value)
            elif isinstance(e_, ast.Attribute):
                work_.append(e_.value)
            elif isinstance(e_, ast.Call):
                work_.append(e_.func)
        return out_

    for s in need["values"]:
        src_r = roots(s.meta["value"])
        dst_r = roots(s.ast)
        src_off = sorted(k for k in autos if k in src_r)
        dst_off = sorted(k for k in autos if k in dst_r)
        if bool(src_off) != bool(dst_off):
            side, other = ("template", "output") if src_off else ("output", "template")
            probs.append("automatic scaling / masking is switched off for the %s only (`%s`): the %s variable still converts, so packed coordinate values (scale_factor / add_offset) are converted twice or not at all and the copied coordinates differ from the template's" % (side, K.src((autos[(src_off or dst_off)[0]])[0])[:60], other))
    ctx.ob("C18.e", con, d.module.rel, h.line, not probs, "dimension, variable, attributes and coordinate values are copied for every template dimension" if not probs else "; ".join(probs))
    # the loop must iterate the template's dimensions of the requested field and lie on every path to the data write
    ok = "DimensionFieldName" in K.src(fi.node) and any("DimensionFieldName" in K.src(n) and ".dimensions" in K.src(n) for n in own_nodes(fi.node) if isinstance(n, ast.Assign))
    ctx.ob("C18.e", "%s.execute::template-dimensions" % d.key, d.module.rel, h.line, ok and cfg.must_pass_through(cfg.entry, cfg.exit, {h}),
           "dimensions come from the template field and the loop lies on every path" if ok else "the dimensions are not those of the template's DimensionFieldName variable")
