"""C04 — fuzzy results always lie in [-1, +1]."""
import ast

from engine.arrays import Arr, Scal
from engine.report import AnalysisError

from . import arrayrules as R
from . import common as K

# reference set confirmed by hand against docs/ (14 fuzzy producers)
FUZZY_PRODUCERS = {
    "CvtToFuzzy", "CvtToFuzzyZScore", "CvtToFuzzyCat", "CvtToFuzzyCurve", "CvtToFuzzyMeanToMid", "CvtToFuzzyCurveZScore", "CvtToBinary",
    "FuzzyUnion", "FuzzyWeightedUnion", "FuzzySelectedUnion", "FuzzyOr", "FuzzyAnd", "FuzzyXOr", "FuzzyNot",
}
WANT = (("c", -1), ("c", 1))


def run(ctx, idx):
    ctx.assume("numpy: `a[a > hi] = hi` / `a[a < lo] = lo` bound every non-missing, non-NaN cell; comparisons with NaN are false (NaN is outside the claim)")
    ctx.rule("C04.a", "For each class with effective is_fuzzy=True and Data output every normal return value carries range Clamped(-1, 1): it is the value of a clamp with constant bounds -1 and 1 and no arithmetic between the clamp and the return.")
    ctx.rule("C04.b", "insure_fuzzy bounds both sides on every path and returns the clamped object (summary from its body on a symbolic argument).")
    ctx.rule("C04.c", "The set of fuzzy producers equals the reference set of 14 names; each declares is_fuzzy as a literal True.")
    ctx.rule("C04.d", "Every division with an array operand in a fuzzy producer has a Masked operand (A3/A4: zero denominators become missing cells, not infinities); a quotient of two scalars whose divisor is computed from the data is never combined with a whole array (nothing would be masked and nan survives the clamp).")
    found = set()
    n_ret = 0
    undecided = []
    for key, (d, r) in sorted(R.results(idx).items()):
        if d.is_fuzzy is not True or not d.is_data():
            continue
        found.add(d.cls.name)
        for n, s, v in R.ret_sites(d, r):
            n_ret += 1
            con = R.ret_key(d, n)
            if not isinstance(v, Arr):
                ctx.violate("C04.a", con, d.module.rel, R.line_of(s), "fuzzy producer returns a non-array value")
                continue
            if v.rng == WANT:
                ctx.hold("C04.a", con, d.module.rel, R.line_of(s), "returned value is clamped to [-1, 1]")
            else:
                lo, hi = v.rng
                if lo is None and hi is None:
                    why = "the returned value is not the result of a clamp (or arithmetic follows the clamp)"
                elif lo is None or hi is None:
                    why = "only the %s side is bounded" % ("upper" if lo is None else "lower")
                else:
                    why = "clamped to [%s, %s], not [-1, 1]" % (lo[1], hi[1])
                if lo is None and hi is None and isinstance(s, ast.Return):
                    # an unlimited return taken only when the caller gave none of the optional numbers (the bounds then come from
                    # the data's own extremes): whether rounding can carry a value past the ends is a numerical question
                    fi_ = d.execute
                    cfg_ = K.cfg_of(idx, fi_)
                    at = [x for x in cfg_.find("return") if x.stmt is s or x.ast is s]
                    opt = {nm for nm, p_ in d.inputs.items() if not p_.required and p_.is_a(idx, "mpilot.params.NumberParameter")}
                    if at and opt and all(opt <= K.absent_at(cfg_, x) for x in at):
                        undecided.append("C04.a: %s returns at line %s without the clamp, on the path where none of %s was given: the bounds are then the data's own extremes, and whether the arithmetic can still leave [-1, 1] is a numerical question outside this analysis" % (d.cls.name, R.line_of(s), ", ".join(sorted(opt))))
                        continue
                ctx.violate("C04.a", con, d.module.rel, R.line_of(s), "fuzzy result can leave [-1, +1]: %s" % why)
        for rec in r.divisions:
            line, a, b, node, fk = rec[:5]
            con = "%s.execute::division@%s" % (d.key, K.src(node)[:60])
            ops = [x for x in (a, b) if isinstance(x, Arr)]
            if not ops:
                continue
            ok = any(x.kind == "masked" for x in ops)
            if not ok and not isinstance(b, Arr) and isinstance(node, ast.BinOp):
                # plain array / number, the number being what an enclosing `if` has just tested non-zero (`if len(xs): ... / len(xs)`)
                par_d = {}
                for x_ in ast.walk(d.execute.node):
                    for ch_ in ast.iter_child_nodes(x_):
                        par_d[id(ch_)] = x_
                up_, ch_ = par_d.get(id(node)), node
                while up_ is not None and not ok:
                    if isinstance(up_, ast.If) and any(ch_ is b_ for b_ in up_.body) and K.src(up_.test) == K.src(node.right):
                        ok = True
                    ch_, up_ = up_, par_d.get(id(up_))
            ctx.ob("C04.d", con, d.module.rel, line, ok,
                   "division has a masked operand: zero divisors become missing cells" if ok else
                   "array division without a masked operand: a zero divisor yields inf/nan that the clamp cannot repair")
    for key, (d, r) in sorted(R.results(idx).items()):
        if d.is_fuzzy is not True or not d.is_data():
            continue
        nf = [f for f in r.findings if f[0] == "nonfinite"]
        con = "%s.execute::no-scalar-quotient-over-the-array" % d.key
        if nf:
            ctx.violate("C04.d", con, d.module.rel, nf[0][1], nf[0][2])
        else:
            ctx.hold("C04.d", con, d.module.rel, d.execute.node.lineno, "no data-dependent scalar quotient is spread over a whole array", nontrivial=False)
    ctx.floor("C04.a", "return sites of fuzzy producers", n_ret, 14)
    ctx.rule("C04.e", "The clamp is final: no command writes in place through one of its inputs, so a fuzzy result cannot be rescaled or overwritten after its producer clamped it.")
    for key, (d, r) in sorted(R.results(idx).items()):
        if d.is_data() or any(getattr(p, "is_fuzzy", None) for p in d.inputs.values()) or d.ref_inputs():  # every consumer of results, writers and printers included
            R.leaves_inputs_alone(ctx, "C04.e", d, r, "when that input is a fuzzy result, the values its producer clamped to [-1, +1] are replaced after the fact and every later reader sees values outside the range")
    missing = FUZZY_PRODUCERS - found
    extra = found - FUZZY_PRODUCERS
    if missing:
        # a producer that lost the flag or vanished: decide which
        names = {d.cls.name: d for d in K.table(idx)}
        for m in sorted(missing):
            if m in names:
                d = names[m]
                ctx.violate("C04.c", "%s::is_fuzzy" % d.key, d.module.rel, d.cls.node.lineno,
                            "%s is a fuzzy producer by the library's documentation but no longer declares is_fuzzy = True: its result is accepted where non-fuzzy data is required and rejected by fuzzy operators" % m)
            else:
                raise AnalysisError("C04.c: fuzzy producer %s vanished" % m)
    for d in K.table(idx):
        if d.cls.name in FUZZY_PRODUCERS and d.is_fuzzy is True:
            ctx.ob("C04.c", "%s::is_fuzzy" % d.key, d.module.rel, d.cls.node.lineno, d.is_fuzzy_literal, "is_fuzzy is the literal True" if d.is_fuzzy_literal else "is_fuzzy is not a literal boolean", nontrivial=False)
    for e in sorted(extra):
        ctx.note("additional fuzzy producer %s (not in the reference table) — checked under C04.a as well" % e)
    # the thresholds that are compared are the thresholds that are used: the InvalidThresholds test in CvtToFuzzy reads the same
    # definitions of both names as the arithmetic after it (a test made before the data-derived defaults are filled in does not see
    # them: a default equal to the given threshold then divides by zero, and NaN passes both clamp comparisons)
    ctx.rule("C04.f", "CvtToFuzzy's equal-thresholds guard sees the values the ramp is built from: at the test `true == false` both names have the definitions they still have at the division by their difference (reaching definitions on the CFG).")
    cf = idx.cls("mpilot.libraries.eems.fuzzy", "CvtToFuzzy")
    cfe = cf.methods.get("execute") if cf is not None else None
    if cfe is None:
        raise AnalysisError("C04.f: CvtToFuzzy.execute vanished")
    ccfg = K.cfg_of(idx, cfe)
    rz_ = [n for n in ccfg.find("raise") if (n.meta.get("qual") or "").endswith("InvalidThresholds")]
    tests_ = [t for t in ccfg.find("test") if any(ccfg.dominates(t, r_) for r_ in rz_) and isinstance(t.ast, ast.Compare) and len(t.ast.ops) == 1 and isinstance(t.ast.ops[0], (ast.Eq, ast.NotEq))
              and isinstance(t.ast.left, ast.Name) and isinstance(t.ast.comparators[0], ast.Name)]
    con_f = "%s::guard-sees-final-thresholds" % cfe.key
    if not rz_ or not tests_:
        raise AnalysisError("C04.f: no `a == b` test of two names decides InvalidThresholds in CvtToFuzzy.execute")
    rd_ = ccfg.reaching_defs()
    t0 = tests_[-1]
    names_ = [t0.ast.left.id, t0.ast.comparators[0].id]
    stale = None
    for n in ccfg.reachable([m for m, l in t0.succ]):
        if n.ast is None or n.kind not in ("store", "call", "aug", "test", "return"):
            continue
        used = {x.id for x in ast.walk(n.ast) if isinstance(x, ast.Name) and isinstance(x.ctx, ast.Load)} & set(names_)
        for nm in used:
            later = rd_.get(n, {}).get(nm, frozenset())
            here = rd_.get(t0, {}).get(nm, frozenset())
            if later and not (later <= here):
                stale = stale or (n, nm)
    ctx.ob("C04.f", con_f, K.rel(cfe), t0.line, stale is None, "the thresholds compared are the ones used afterwards" if stale is None else
           "`%s` is tested before `%s` gets its final value (it is assigned again before `%s`): when the default taken from the data equals the threshold that was given, the ramp divides by zero - on a plain array the cells become NaN, which passes both clamp comparisons" % (t0.text()[:50], stale[1], stale[0].text()[:40]))
    # C04.g: NaN passes both clamp comparisons - two ways to make one that the clamp cannot repair
    ctx.rule("C04.g", "No NaN is made where the clamp cannot reach it: (1) the mean over the selected layers of FuzzySelectedUnion is a MASKED mean - over no layers (NumberToConsider = 0 passes the count guard) numpy.ma.mean gives missing cells, the mean of the plain data gives NaN in valid ones; (2) the segments of a curve select disjoint cells - one end strict, the other inclusive: with both ends inclusive a zero-length segment (coinciding control points, a z-score curve over a grid without spread) selects the cells on its node and maps them with an infinite slope.")
    su_ = {d_.cls.name: (d_, r_) for d_, r_ in R.results(idx).values()}.get("FuzzySelectedUnion")
    if su_ is None:
        raise AnalysisError("C04.g: FuzzySelectedUnion vanished")
    lr_ = [(n_, sel_, m_) for n_, sel_, m_, fk_ in su_[1].layer_reduces if m_ in ("mean", "average", "sum")]
    plain_ = [n_ for n_, sel_, m_ in lr_ if su_[1].layer_reduce_kind.get(id(n_)) == "plain"]
    # ... unless the reduction sits under a test that the selection holds a layer (`if len(selected):`, the other branch making every
    # cell missing)
    par_g = {}
    for x_ in ast.walk(su_[0].execute.node):
        for ch_ in ast.iter_child_nodes(x_):
            par_g[id(ch_)] = x_

    def _under_nonempty_test(n_):
        base_ = n_.func.value if isinstance(n_, ast.Call) and isinstance(n_.func, ast.Attribute) else (n_.args[0] if isinstance(n_, ast.Call) and n_.args else None)
        up_, ch_ = par_g.get(id(n_)), n_
        while up_ is not None:
            if isinstance(up_, ast.If) and any(ch_ is b_ for b_ in up_.body) and base_ is not None and K.src(up_.test) in ("len(%s)" % K.src(base_), "%s.shape[0]" % K.src(base_), "%s.size" % K.src(base_), "len(%s) > 0" % K.src(base_)):
                return True
            ch_, up_ = up_, par_g.get(id(up_))
        return False
    plain_ = [n_ for n_ in plain_ if not _under_nonempty_test(n_)]
    ctx.ob("C04.g", "%s.execute::masked-layer-mean" % su_[0].key, su_[0].module.rel, (plain_ or [x_[0] for x_ in lr_] or [su_[0].execute.node])[0].lineno, not plain_,
           "the selected layers are averaged as a masked array" if not plain_ else
           "`%s` averages the selected layers as PLAIN data: over an empty selection (NumberToConsider = 0 passes the guard) that is NaN in every valid cell - not missing, as numpy.ma.mean gives - and NaN passes both comparisons of the final clamp" % K.src(plain_[0])[:60])
    n_seg = 0
    for nm_ in ("NormalizeCurve", "NormalizeCurveZScore"):
        cr_ = {d_.cls.name: (d_, r_) for d_, r_ in R.results(idx).values()}.get(nm_)
        if cr_ is None:
            raise AnalysisError("C04.g: %s vanished" % nm_)
        fx_ = cr_[0].execute
        for lp_ in [n_ for n_ in ast.walk(getattr(fx_, "node_orig", None) or fx_.node) if isinstance(n_, (ast.For, ast.While))]:
            for e_ in ast.walk(lp_):
                pair_ = None
                if isinstance(e_, ast.BinOp) and isinstance(e_.op, ast.BitAnd) and isinstance(e_.left, ast.Compare) and isinstance(e_.right, ast.Compare):
                    pair_ = (e_.left, e_.right)
                elif isinstance(e_, ast.Call) and K.src(e_.func).split(".")[-1] == "logical_and" and len(e_.args) >= 2 and all(isinstance(a_, ast.Compare) for a_ in e_.args[:2]):
                    pair_ = (e_.args[0], e_.args[1])
                elif isinstance(e_, ast.Compare) and len(e_.ops) == 2:
                    pair_ = (ast.Compare(left=e_.left, ops=[e_.ops[0]], comparators=[e_.comparators[0]]), ast.Compare(left=e_.comparators[0], ops=[e_.ops[1]], comparators=[e_.comparators[1]]))
                if pair_ is None or not all(len(c_.ops) == 1 and isinstance(c_.ops[0], (ast.Lt, ast.LtE, ast.Gt, ast.GtE)) for c_ in pair_):
                    continue
                n_seg += 1
                strict_ = [isinstance(c_.ops[0], (ast.Lt, ast.Gt)) for c_ in pair_]
                ctx.ob("C04.g", "%s.execute::segments-are-disjoint@%d" % (cr_[0].key, n_seg), cr_[0].module.rel, e_.lineno, any(strict_), "one end of the segment test is strict" if any(strict_) else
                       "`%s` includes BOTH ends of a segment: a zero-length segment (two control points on the same raw value - the z-score curve over a grid without spread, or a node given twice) then selects the cells on its node and maps them with slope inf / nan; the last such segment leaves NaN in the result, which the clamp cannot repair" % K.src(e_)[:70])
    ctx.floor("C04.g", "segment tests of the curve commands", n_seg, 2)
    # C04.b
    sym = Arr(kind="masked", alias=frozenset({"X"}), M=frozenset({"X"}), D=frozenset({"X"}), shape="same")
    res, out, fi = R.summarize_helper(idx, "mpilot.utils", "insure_fuzzy", [sym, Scal(sym="lo"), Scal(sym="hi")])
    con = "%s::both-sides" % fi.key
    want = (("s", "lo"), ("s", "hi"))
    if not (isinstance(out, Arr) and out.rng == want):
        # a helper that orders its limits first (`max(lo, hi)`) has no symbolic summary: read it with the limits every fuzzy
        # producer passes, FUZZY_MIN = -1 and FUZZY_MAX = +1
        res2, out2, _fi2 = R.summarize_helper(idx, "mpilot.utils", "insure_fuzzy", [sym, Scal(const=-1), Scal(const=1)])
        if isinstance(out2, Arr) and out2.rng == (("c", -1), ("c", 1)):
            out, want = out2, (("c", -1), ("c", 1))
    if isinstance(out, Arr) and out.rng == want and "X" in out.alias:
        ctx.hold("C04.b", con, K.rel(fi), fi.node.lineno, "bounds below by its 2nd and above by its 3rd argument and returns the clamped object")
    else:
        rng = out.rng if isinstance(out, Arr) else None
        why = "insure_fuzzy(arr, lo, hi) establishes %s instead of (lo, hi)" % (rng,)
        if isinstance(out, Arr) and out.rng == want and "X" not in out.alias:
            why = "insure_fuzzy clamps a copy and callers that ignore the return value keep the unclamped array"
        ctx.violate("C04.b", con, K.rel(fi), fi.node.lineno, why)
    calls = sum(1 for d, r in R.results(idx).values() for q, n, f in r.calls if q == "mpilot.utils.insure_fuzzy")
    ctx.floor("C04.b", "insure_fuzzy call sites reached from execute bodies", calls, 14)
    if undecided:
        raise AnalysisError(undecided[0])
