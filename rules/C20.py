"""C20 — parameter cleaning is typed, pure and idempotent."""
import ast

from engine import effects
from engine.index import own_nodes
from engine.report import AnalysisError

from . import common as K

_cache = {}


def summaries(idx):
    if id(idx) not in _cache:
        _cache[id(idx)] = effects.summarize(idx)
    return _cache[id(idx)]


def is_mpilot_error(idx, q):
    root = idx.cls("mpilot.exceptions", "MPilotError")
    for ci in idx.classes:
        if ci.qual == q:
            return root in idx.mro(ci)
    return False


def kind_text(k):
    return {"list0": "empty list", "list1": "non-empty list", "tuple0": "empty tuple", "tuple1": "non-empty tuple", "dict0": "empty dict", "dict1": "non-empty dict",
            "command": "Command object", "type": "type object", "ndarray": "numpy array"}.get(k, k)


def total(ctx, idx, rule):
    """every (class, raw kind) either returns or raises an MPilotError subclass"""
    S = summaries(idx)
    n = 0
    for cname, per in sorted(S.items()):
        ci = idx.cls("mpilot.params", cname)
        fi = idx.find_method(ci, "clean")
        bykind = {}
        for k, rec in per.items():
            n += 1
            bad = sorted(q for q in rec["own_raises"] if not is_mpilot_error(idx, q))
            for q in bad:
                bykind.setdefault(q, []).append(k)
        con = "%s::%s.clean::total" % (K.rel(fi), cname)
        if bykind:
            q, ks = sorted(bykind.items())[0]
            line = per[ks[0]]["raise_lines"].get(q, fi.node.lineno)
            ctx.violate(rule, con, K.rel(fi), line, "%s.clean lets %s escape for raw kind(s) %s instead of raising ParameterNotValid" % (
                cname, ", ".join(x.split(".")[-1] for x in sorted(bykind)), ", ".join(kind_text(k) for k in sorted(set(sum(bykind.values(), []))))))
        else:
            ctx.hold(rule, con, K.rel(fi), fi.node.lineno, "%d raw kinds: returns or raises an MPilotError subclass" % len(per))
    ctx.floor(rule, "(parameter class, raw kind) pairs explored", n, 100)
    return S


CONT = ["list0", "list1", "tuple0", "tuple1", "dict0", "dict1"]
# raw kinds each parameter class must reject with ParameterNotValid (documented kinds of mpilot.params)
REJECT = {
    "NumberParameter": CONT + ["command"],
    "BooleanParameter": ["float"] + CONT + ["command"],
    "ResultParameter": ["int", "float", "bool"] + CONT,
    "ListParameter": ["int", "float", "bool", "str", "dict0", "dict1", "command"],
    # an empty tuple may be taken for "no pairs" like the empty list the parser delivers, or refused: both keep the property
    "TupleParameter": ["int", "float", "bool", "str", "list1", "tuple1", "command"],
    "DataParameter": ["int", "float", "bool", "str"] + CONT + ["command"],
    "DataTypeParameter": ["int", "float", "bool"] + CONT + ["command"],
}


def _value_deps(fi, expr, single_only=False):
    """parameter / local names a value depends on; a `.clean(x, program, lineno)` call passes the other two along without its
    result depending on them (they locate errors and resolve references), so only its first argument counts"""
    defs = {}
    for n in own_nodes(fi.node):
        if isinstance(n, ast.Assign):
            for t in n.targets:
                if isinstance(t, ast.Name):
                    defs.setdefault(t.id, []).append(n.value)

    def names(e):
        out = set()
        skip = set()
        for x in ast.walk(e):
            if isinstance(x, ast.Call) and isinstance(x.func, ast.Attribute) and x.func.attr == "clean" and len(x.args) > 1:
                for a in x.args[1:]:
                    skip |= {id(y) for y in ast.walk(a)}
                for k in x.keywords:
                    skip |= {id(y) for y in ast.walk(k.value)}
        for x in ast.walk(e):
            if isinstance(x, ast.Name) and id(x) not in skip:
                out.add(x.id)
        return out

    seen, work = set(), list(names(expr))
    while work:
        n = work.pop()
        if n in seen:
            continue
        seen.add(n)
        if single_only and len(defs.get(n, ())) != 1:
            continue  # a name bound several times stands for itself (which binding reaches here is not followed)
        for v in defs.get(n, ()):
            work.extend(names(v))
    return seen


def kind_table(ctx, idx, rule):
    """every argument has the declared kind: the wrong raw kinds are rejected, with ParameterNotValid, never coerced"""
    S = summaries(idx)
    n = 0
    for cname, kinds in sorted(REJECT.items()):
        if cname not in S:
            raise AnalysisError("parameter class %s vanished" % cname)
        ci = idx.cls("mpilot.params", cname)
        fi = idx.find_method(ci, "clean")
        accepted = []
        wrong_err = []
        for k in kinds:
            rec = S[cname].get(k)
            if rec is None:
                continue
            n += 1
            if rec["returns"]:
                accepted.append(k)
            elif not any(q.endswith("ParameterNotValid") for q in rec["own_raises"]) and rec["own_raises"]:
                wrong_err.append(k)
        con = "%s::%s.clean::rejects-wrong-kinds" % (K.rel(fi), cname)
        if wrong_err and not accepted:
            errs = sorted({q.split(".")[-1] for k in wrong_err for q in S[cname][k]["own_raises"]})
            ctx.violate(rule, con, K.rel(fi), fi.node.lineno, "%s answers a %s with %s, not with ParameterNotValid: the validation pass dies on a foreign error that names neither the offending value nor its line, instead of rejecting the argument" % (
                cname, ", ".join(kind_text(k) for k in wrong_err), "/".join(errs)))
        elif accepted:
            ctx.violate(rule, con, K.rel(fi), fi.node.lineno, "%s accepts a %s (returns %s) instead of raising ParameterNotValid: a mistyped argument is silently coerced and the model runs" % (
                cname, ", ".join(kind_text(k) for k in accepted), "/".join(sorted(set().union(*[S[cname][k]["returns"] for k in accepted])))))
        else:
            ctx.hold(rule, con, K.rel(fi), fi.node.lineno, "rejects %s" % ", ".join(kind_text(k) for k in kinds))
    ctx.floor(rule, "(class, wrong kind) pairs", n, 40)


# (class, raw kind) pairs of the documented domains on which no cleaner has a reason to raise: the value is of the declared
# kind already.  (Paths, results and data-type objects are left out: their cleaners look the value up and may refuse it.)
MUST_ACCEPT = {
    "BooleanParameter": ["bool"],
    "DataParameter": ["ndarray"],
    "ListParameter": ["list0", "list1"],
    "NumberParameter": ["int", "float", "bool", "number"],
    "StringParameter": ["str"],
    "TupleParameter": ["dict0", "dict1"],
}


def accepts_domain(ctx, idx, rule, only=None, consequence=""):
    """a value of the declared kind is accepted on every path: no raise of the cleaner's own is reachable for it"""
    S = summaries(idx)
    n = 0
    for cname, kinds in sorted(MUST_ACCEPT.items()):
        if only is not None and cname not in only:
            continue
        if cname not in S:
            raise AnalysisError("parameter class %s vanished" % cname)
        ci = idx.cls("mpilot.params", cname)
        fi = idx.find_method(ci, "clean")
        bad = []
        for k in kinds:
            rec = S[cname].get(k)
            if rec is None:
                continue
            n += 1
            if rec["own_raises"]:
                bad.append((k, sorted(q.split(".")[-1] for q in rec["own_raises"]), min(rec["raise_lines"].values()) if rec["raise_lines"] else fi.node.lineno))
        con = "%s::%s.clean::accepts-its-domain" % (K.rel(fi), cname)
        if bad:
            ctx.violate(rule, con, K.rel(fi), bad[0][2], "%s.clean can refuse a %s (%s) although that is the declared kind: the refusal depends on something else about the value (its element type, its size, its content)%s" % (
                cname, "/".join(kind_text(k) for k, _e, _l in bad), "/".join(bad[0][1]), consequence))
        else:
            ctx.hold(rule, con, K.rel(fi), fi.node.lineno, "a %s is accepted on every path" % "/".join(kind_text(k) for k in kinds))
    return n


def no_working_dir_means_none(ctx, idx, rule, consequence=""):
    """PathParameter.clean refuses a relative path exactly when there is NO working directory (None).  The empty string is a
    working directory - the current one: it is what os.path.dirname('model.mpt') gives the command-line tool - so the test
    that decides InvalidRelativePath is `working_dir is None`, not the truth value of working_dir."""
    pp = idx.cls("mpilot.params", "PathParameter").methods.get("clean")
    if pp is None:
        raise AnalysisError("%s: PathParameter.clean vanished" % rule)
    c = K.cfg_of(idx, pp)
    rz = [n for n in c.find("raise") if (n.meta.get("qual") or "").endswith("InvalidRelativePath")]
    tests = [t for t in c.find("test") if "working_dir" in K.src(K.expand(pp, t.ast)) and any(r in c.reachable([t]) for r in rz)]
    con = "%s::no-working-directory-is-None" % pp.key
    if not rz or not tests:
        raise AnalysisError("%s: no test of working_dir decides InvalidRelativePath in PathParameter.clean" % rule)
    bad = []
    for t in tests:
        e = K.expand(pp, t.ast)
        while isinstance(e, ast.UnaryOp) and isinstance(e.op, ast.Not):
            e = e.operand
        if isinstance(e, ast.Compare) and len(e.ops) == 1 and isinstance(e.ops[0], (ast.Is, ast.IsNot, ast.Eq, ast.NotEq)) and isinstance(e.comparators[0], ast.Constant) and e.comparators[0].value is None:
            continue
        if isinstance(e, (ast.Attribute, ast.Name)) or (isinstance(e, ast.Call) and K.src(e.func) in ("bool", "len")):
            bad.append(t)
    if bad:
        ctx.violate(rule, con, K.rel(pp), bad[0].line, "`%s` decides InvalidRelativePath by the truth value of the working directory: the empty string - the directory the command-line tool passes for a command file in the current directory - counts as 'no working directory', so a well-formed model with relative file names is rejected%s" % (bad[0].text()[:50], consequence))
    else:
        ctx.hold(rule, con, K.rel(pp), tests[0].line, "InvalidRelativePath is decided by `working_dir is None`")


def tuple_text_to_text(ctx, idx, rule, consequence=""):
    """-> list of "cannot decide" messages"""
    und_h = []
    # ---- h: a tuple cleans to text -> text
    ctx.rule(rule, "A tuple cleans to {text: text}: every non-empty value TupleParameter.clean returns is built with both keys and values converted to text, or is the raw mapping itself under a test that ALL its keys and ALL its values are text already (iterating a mapping yields its keys only: `all(isinstance(x, str) for x in value)` says nothing about the values the parser delivers as numbers).")
    tp = idx.cls("mpilot.params", "TupleParameter")
    tcl = tp.methods.get("clean") if tp is not None else None
    if tcl is None:
        raise AnalysisError(rule + ": TupleParameter.clean vanished")
    vname = tcl.node.args.args[1].arg
    TEXT = ("six.text_type", "str", "text_type", "six.u")
    parh = {}
    for x_ in ast.walk(tcl.node):
        for ch_ in ast.iter_child_nodes(x_):
            parh[id(ch_)] = x_

    def _texted(e_):
        return isinstance(e_, ast.Call) and K.src(e_.func) in TEXT and len(e_.args) == 1

    def _both_sides_text(t_):
        """all(isinstance(k, T) and isinstance(v, T) for k, v in value.items())"""
        if isinstance(t_, ast.Call) and K.src(t_.func) == "all" and len(t_.args) == 1 and isinstance(t_.args[0], (ast.GeneratorExp, ast.ListComp)) and len(t_.args[0].generators) == 2:
            # all(<text test of item> for pair in value.items() for item in pair): keys and values alike
            g1_, g2_ = t_.args[0].generators
            el2_ = t_.args[0].elt
            if not g1_.ifs and not g2_.ifs and K.src(g1_.iter) == "%s.items()" % vname and isinstance(g1_.target, ast.Name) and isinstance(g2_.iter, ast.Name) and g2_.iter.id == g1_.target.id and isinstance(g2_.target, ast.Name):
                it_ = g2_.target.id
                s2_ = K.src(el2_).replace(" ", "")
                if s2_.startswith("isinstance(%s," % it_) and ("text_type" in s2_ or "string_types" in s2_ or s2_.endswith(",str)")):
                    return True
                if s2_.startswith("type(%s)is" % it_) and ("text_type" in s2_ or s2_.endswith("isstr")):
                    return True
            return None
        if not (isinstance(t_, ast.Call) and K.src(t_.func) == "all" and len(t_.args) == 1 and isinstance(t_.args[0], (ast.GeneratorExp, ast.ListComp)) and len(t_.args[0].generators) == 1):
            return None
        g_ = t_.args[0].generators[0]
        el_ = t_.args[0].elt
        tested = {K.src(c_.args[0]) for c_ in ast.walk(el_) if isinstance(c_, ast.Call) and K.src(c_.func) == "isinstance" and len(c_.args) == 2 and ("text_type" in K.src(c_.args[1]) or "string_types" in K.src(c_.args[1]) or K.src(c_.args[1]) in ("str", "(str,)"))}
        if isinstance(g_.target, ast.Tuple) and len(g_.target.elts) == 2 and K.src(g_.iter) == "%s.items()" % vname and not g_.ifs:
            names_ = {K.src(x_) for x_ in g_.target.elts}
            return names_ <= tested and isinstance(el_, (ast.BoolOp, ast.Call)) and not (isinstance(el_, ast.BoolOp) and isinstance(el_.op, ast.Or))
        return False  # walks the mapping itself (its keys), or only one side

    def _ret_ok(e_, node_):
        if isinstance(e_, ast.Dict) and not e_.keys:
            return True, None
        if isinstance(e_, ast.DictComp):
            ok_ = _texted(e_.key) and _texted(e_.value)
            return ok_, None if ok_ else "`%s` does not convert both the key and the value to text" % K.src(e_)[:60]
        if isinstance(e_, ast.Call) and K.src(e_.func) in ("dict", "OrderedDict", "collections.OrderedDict") and len(e_.args) == 1 and isinstance(e_.args[0], (ast.GeneratorExp, ast.ListComp)) \
                and isinstance(e_.args[0].elt, ast.Tuple) and len(e_.args[0].elt.elts) == 2:
            ok_ = all(_texted(x_) for x_ in e_.args[0].elt.elts)
            return ok_, None if ok_ else "`%s` does not convert both the key and the value to text" % K.src(e_)[:60]
        if isinstance(e_, ast.IfExp):
            a_, wa_ = _ret_ok(e_.body, node_)
            b_, wb_ = _ret_ok(e_.orelse, node_)
            if a_ is None or b_ is None:
                return None, wa_ or wb_
            return a_ and b_, wa_ or wb_
        if isinstance(e_, ast.Name) and e_.id == vname:
            # the raw mapping handed back: under which tests?
            up_, ch2_ = parh.get(id(node_)), node_
            verdict = None
            while up_ is not None and up_ is not tcl.node:
                if isinstance(up_, ast.If) and any(ch2_ is b_ for b_ in up_.body):
                    for t_ in (up_.test.values if isinstance(up_.test, ast.BoolOp) and isinstance(up_.test.op, ast.And) else [up_.test]):
                        if isinstance(t_, ast.UnaryOp) and isinstance(t_.op, ast.Not) and K.src(t_.operand) == vname:
                            return True, None  # the empty mapping
                        r_ = _both_sides_text(t_)
                        if r_ is True:
                            return True, None
                        if r_ is False:
                            verdict = "`%s` is returned as it is under `%s`, which tests the keys only (iterating a mapping yields its keys): a value the parser delivered as a number (`[Year: 2020]`) comes back as a number, not as text" % (vname, K.src(t_)[:70])
                ch2_, up_ = up_, parh.get(id(up_))
            return False, verdict or "`%s` is returned as it is without a test that its keys and values are text: numeric values come back as numbers" % vname
        return None, "return value `%s` is outside the recognised forms" % K.src(e_)[:60]

    n_ret = 0
    for r_ in [x_ for x_ in own_nodes(tcl.node) if isinstance(x_, ast.Return) and x_.value is not None]:
        n_ret += 1
        ok_, why_ = _ret_ok(r_.value, r_)
        if ok_ is None:
            und_h.append("%s: %s" % (rule, why_))
            continue
        ctx.ob(rule, "%s::return#%d::text-to-text" % (tcl.key, n_ret), K.rel(tcl), r_.lineno, ok_, "keys and values are converted to text (or the mapping is empty / tested on both sides)" if ok_ else why_ + consequence)
    ctx.floor(rule, "returns of TupleParameter.clean", n_ret, 1)
    return und_h


def run(ctx, idx):
    ctx.assume("operation table of Engine D: int()/float() raise ValueError on str and TypeError on containers/objects; os.path functions raise TypeError on non-str; dict lookup raises KeyError, and TypeError for unhashable keys; six.text_type is total")
    ctx.assume("raw kinds are those the parser or API can deliver: int, float, bool, str, (non-)empty list/tuple/dict, command; plus type for DataType and ndarray for Data (their cleaned kinds)")
    ctx.rule("C20.a", "Total: for every Parameter.clean and every raw kind the escape set ⊆ subclasses of MPilotError (all choice sequences enumerated).")
    ctx.rule("C20.b", "Typed: return kinds ⊆ the documented kind of the class; int stays int and float stays float; the value of a super().clean(value) call is used, not discarded.")
    ctx.rule("C20.c", "Idempotent: for every kind in the documented return set the method has an identity path (returns its argument or a kind-preserving equal copy).")
    ctx.rule("C20.d", "Pure: no store through value or program, no mutating method on them, no global or self store, no file write or print; value.result is read only under the finished guard.")
    ctx.rule("C20.e", "Documented conversions are wired: relative paths return join(program.working_dir, value) and raise InvalidRelativePath without a working directory; data-type names return valid_types[value]; list items go through the declared value_type.")
    S = total(ctx, idx, "C20.a")
    ctx.rule("C20.f", "Kind table: each parameter class rejects the raw kinds outside its documented domain with ParameterNotValid (never coerces them).")
    kind_table(ctx, idx, "C20.f")
    ctx.rule("C20.g", "The declared kind is accepted: for a value that already is of the class's documented kind (a number for Number, an array for Data, a list for List, ...) no raise of the cleaner is reachable - acceptance depends on the kind, not on the element type, size or content.")
    ctx.floor("C20.g", "(class, declared kind) pairs", accepts_domain(ctx, idx, "C20.g"), 10)
    A = K.anchors(idx)
    for cname, per in sorted(S.items()):
        ci = idx.cls("mpilot.params", cname)
        fi = idx.find_method(ci, "clean")
        doc = effects.DOC_KINDS.get(cname)
        # ---- b
        con = "%s::%s.clean::typed" % (K.rel(fi), cname)
        probs = []
        if doc is not None:
            for k, rec in per.items():
                extra = rec["returns"] - doc - {"any"}
                if extra and not (cname == "ListParameter" and extra <= {"list0", "list1"}):
                    probs.append("raw %s cleans to %s, outside the documented %s" % (kind_text(k), "/".join(sorted(extra)), "/".join(sorted(doc))))
        if cname == "NumberParameter":
            for k in ("int", "float"):
                if per[k]["returns"] != {k} or not per[k]["ident"]:
                    probs.append("%s does not stay %s" % (k, k))
        disc = sorted({n for rec in per.values() for n in rec["notes"] if n.startswith("discarded:")})
        if disc:
            probs.append("the result of `%s(value, ...)` is discarded: the path is used uncleaned" % disc[0].split(":", 1)[1])
        if probs:
            ctx.violate("C20.b", con, K.rel(fi), fi.node.lineno, "; ".join(probs[:3]))
        else:
            ctx.hold("C20.b", con, K.rel(fi), fi.node.lineno, "return kinds within %s" % ("any (base class passes values through)" if doc is None else "/".join(sorted(doc))))
        # ---- c
        con = "%s::%s.clean::idempotent" % (K.rel(fi), cname)
        if doc is not None:
            miss = []
            for k in sorted(doc):
                rec = per.get(k)
                if rec is None:
                    continue
                if not (rec["ident"] or rec["equal_copy"] or (cname == "ListParameter" and rec["returns"] <= {"list0", "list1"} and rec["returns"])
                        or (cname == "TupleParameter" and rec["returns"] == {k}) or (cname == "BooleanParameter" and rec["returns"] == {"bool"})
                        or (cname == "StringParameter" and rec["returns"] == {"str"})):
                    miss.append(k)
            ctx.ob("C20.c", con, K.rel(fi), fi.node.lineno, not miss, "cleaned values clean to themselves (identity / equal-copy path for %s)" % "/".join(sorted(doc)) if not miss else
                   "an already cleaned %s value is not returned unchanged: cleaning twice changes or rejects it" % "/".join(kind_text(k) for k in miss))
        # ---- d
        con = "%s::%s.clean::pure" % (K.rel(fi), cname)
        eff = sorted({e for rec in per.values() for e in rec["effects"]})
        own = ci.methods.get("clean")
        # values remembered on the parameter object between calls (parameter objects are shared by every command and program):
        # what is stored under a key may depend only on what the key holds
        memo_bad = None
        if own is not None:
            sn_ = K.self_name(own)
            pnames = [a.arg for a in own.node.args.args[1:3]]
            for st in own_nodes(own.node):
                if isinstance(st, ast.Assign):
                    for t_ in st.targets:
                        if isinstance(t_, ast.Subscript) and isinstance(t_.value, ast.Attribute) and isinstance(t_.value.value, ast.Name) and t_.value.value.id == sn_:
                            dk = _value_deps(own, t_.slice, single_only=True)
                            # what the remembered value can depend on: every parameter the method reads before the store
                            de = set()
                            for x_ in own_nodes(own.node):
                                if isinstance(x_, ast.Attribute) and isinstance(x_.value, ast.Name) and x_.value.id in pnames and getattr(x_, "lineno", 0) <= st.lineno:
                                    de.add(x_.value.id)
                                if isinstance(x_, ast.Name) and x_.id == pnames[0] and isinstance(x_.ctx, ast.Load):
                                    de.add(x_.id)
                            lacking = [p_ for p_ in pnames if p_ in de and p_ not in dk]
                            if lacking:
                                memo_bad = (st, t_, lacking)
        if memo_bad is not None:
            st, t_, lacking = memo_bad
            ctx.violate("C20.d", con, K.rel(fi), st.lineno, "`%s` remembers a cleaned value on the parameter object under a key that leaves out `%s`, which the value depends on: the same parameter object serves every command and program, so a later clean with another %s is handed the remembered value (and skips the checks made when it was computed)" % (K.src(t_), "`, `".join(lacking), "/".join(lacking)))
        elif eff:
            ctx.violate("C20.d", con, K.rel(fi), fi.node.lineno, "clean has effects: %s" % "; ".join(eff[:3]))
        else:
            ctx.hold("C20.d", con, K.rel(fi), fi.node.lineno, "no stores through value/program, no mutating calls, no global/self stores, no I/O", nontrivial=own is not None)
    und_h = tuple_text_to_text(ctx, idx, "C20.h")
    # result touched only under the finished guard (shared with C12.b)
    rp = idx.cls("mpilot.params", "ResultParameter").methods.get("clean")
    c = K.cfg_of(idx, rp)
    for tnode in c.find("load", lambda n: n.meta.get("attr") in ("result", A.memo)):
        guards = [t for t in c.find("test") if isinstance(t.ast, ast.Attribute) and t.ast.attr == A.flag and c.dominates(t, tnode)]
        ok = any(tnode not in c.reachable([m for m, l in g.succ if l == "false"], avoid={g}) for g in guards)
        ctx.ob("C20.d", "%s::result-under-finished-guard" % rp.key, K.rel(rp), tnode.line, ok, "`.result` read only when the producer has finished (no execution is triggered by cleaning)" if ok else
               "cleaning reads `.result` of an unfinished command: validation executes the model")
    # the callers of clean keep the raw argument too: an Argument's value is assigned in its constructor only
    argcls = idx.cls("mpilot.arguments", "Argument")
    fields = set()
    if argcls is not None and "__init__" in argcls.methods:
        sn0 = K.self_name(argcls.methods["__init__"])
        fields = {n.attr for n in own_nodes(argcls.methods["__init__"].node) if isinstance(n, ast.Attribute) and isinstance(n.ctx, ast.Store) and isinstance(n.value, ast.Name) and n.value.id == sn0}
    if "value" not in fields:
        raise AnalysisError("C20.d: Argument no longer keeps the raw value in a field assigned by its constructor")
    n_arg = 0
    for mod, f, n in K.scoped_nodes(idx):
        if f is None or mod.name.startswith("mpilot.parser"):
            continue
        if isinstance(n, ast.Attribute) and isinstance(n.ctx, ast.Store) and n.attr == "value":
            recv = n.value
            selfn = K.self_name(f) if f.cls is not None else None
            if isinstance(recv, ast.Name) and recv.id == selfn:
                continue
            n_arg += 1
            ctx.violate("C20.d", "%s::raw-argument-overwritten" % f.key, mod.rel, n.lineno, "`%s = ...` replaces the raw value of an argument after construction: once a cleaned value is stored there, cleaning has altered the program (serialising it writes cleaned forms such as absolute paths or `<class 'float'>`, and a second clean starts from the cleaned value)" % K.src(n))
    if not n_arg:
        ctx.hold("C20.d", "mpilot/arguments.py::Argument::value-assigned-once", "mpilot/arguments.py", argcls.node.lineno, "no function stores into the `value` of an argument outside the Argument constructors", nontrivial=False)
    # ---- e
    pp = idx.cls("mpilot.params", "PathParameter").methods.get("clean")
    if pp is None:
        raise AnalysisError("PathParameter.clean vanished")
    c = K.cfg_of(idx, pp)
    val = pp.node.args.args[1].arg
    joins = c.find("call", lambda n: n.meta.get("qual") == "os.path.join")
    con = "%s::relative-path" % pp.key
    ok = False
    why = "relative paths are not joined to the working directory"
    # the working name of the path: the raw parameter, or the local the string-cleaned value is bound to
    names = {val}
    for n in own_nodes(pp.node):
        if isinstance(n, ast.Assign) and len(n.targets) == 1 and isinstance(n.targets[0], ast.Name) and isinstance(n.value, ast.Call) and K.is_super_call(n.value, "clean"):
            names.add(n.targets[0].id)
    # copies of the value and the names the joined path is stored under
    changed = True
    while changed:
        changed = False
        for n in own_nodes(pp.node):
            if isinstance(n, ast.Assign) and len(n.targets) == 1 and isinstance(n.targets[0], ast.Name) and n.targets[0].id not in names:
                if (isinstance(n.value, ast.Name) and n.value.id in names) or any(j.ast is n.value for j in joins):
                    names.add(n.targets[0].id)
                    changed = True

    # a local that holds the working directory: bound to program.working_dir, or to that local made absolute / normalised
    wd_names = set()
    changed = True
    while changed:
        changed = False
        for n in own_nodes(pp.node):
            if isinstance(n, ast.Assign) and len(n.targets) == 1 and isinstance(n.targets[0], ast.Name):
                v_ = n.value
                is_wd = (isinstance(v_, ast.Attribute) and v_.attr == "working_dir") or (isinstance(v_, ast.Call) and K.src(v_.func) in ("os.path.abspath", "os.path.normpath", "os.path.realpath", "os.path.expanduser") and len(v_.args) == 1
                                                                                           and ((isinstance(v_.args[0], ast.Name) and v_.args[0].id in wd_names) or (isinstance(v_.args[0], ast.Attribute) and v_.args[0].attr == "working_dir")))
                if is_wd and n.targets[0].id not in wd_names:
                    wd_names.add(n.targets[0].id)
                    changed = True
    for nm_ in list(wd_names):
        # every binding of such a local is one of those forms
        if any(isinstance(n, ast.Assign) and any(isinstance(t_, ast.Name) and t_.id == nm_ for t_ in n.targets) and not (
                (isinstance(n.value, ast.Attribute) and n.value.attr == "working_dir") or (isinstance(n.value, ast.Call) and K.src(n.value.func) in ("os.path.abspath", "os.path.normpath", "os.path.realpath", "os.path.expanduser")))
               for n in own_nodes(pp.node)):
            wd_names.discard(nm_)

    def xsrc(e):
        if isinstance(e, ast.Name) and e.id in wd_names:
            return "program.working_dir"
        return K.src(K.expand(pp, e)) if not (isinstance(e, ast.Name) and e.id in names) else K.src(e)

    for j in joins:
        a = j.ast.args
        if len(a) == 2 and xsrc(a[0]).endswith(".working_dir") and isinstance(a[1], ast.Name) and a[1].id in names:
            ok = True
            why = "join(working_dir, value), directory first"
        elif len(a) == 2 and xsrc(a[1]).endswith(".working_dir"):
            why = "os.path.join(value, working_dir): the arguments are swapped"
    rz = [n for n in c.find("raise") if (n.meta.get("qual") or "").endswith("InvalidRelativePath")]
    if ok and not rz:
        ok = False
        why = "a relative path without a working directory no longer raises InvalidRelativePath"
    if ok:
        t = [t for t in c.find("test") if any(c.dominates(t, r) for r in rz)]
        isabs = [t for t in t if "isabs" in t.text()]
        # the working-directory test decides the raise without having to dominate it (`program is None or program.working_dir is None`)
        wd = [t_ for t_ in c.find("test") if "working_dir" in xsrc(t_.ast) and any(r in c.reachable([t_]) for r in rz) and any(c.dominates(i_, t_) for i_ in isabs)]
        if not isabs or not wd:
            ok = False
            why = "InvalidRelativePath is not raised exactly for a relative path with no working directory"
        elif not all(c.dominates(wd[0], j) for j in joins if any(xsrc(a_).endswith(".working_dir") for a_ in j.ast.args)):
            ok = False
            why = "the join can run with working_dir = None"
        # the joined value must be what is returned / checked for existence
        stores = [s for s in c.find("store") if s.meta.get("name") in names and s.meta.get("value") is not None and any(j.ast is s.meta["value"] for j in joins)]
        rets = [r for r in c.find("return") if isinstance(r.ast.value, ast.Name)]
        rd = c.reaching_defs()
        flows = bool(stores) and bool(rets) and all(any(s in rd.get(r, {}).get(r.ast.value.id, ()) for s in stores) for r in rets)
        if ok and not flows:
            ok = False
            why = "the joined path is not what the method goes on to check and return"
    ctx.ob("C20.e", con, K.rel(pp), pp.node.lineno, ok, why)
    no_working_dir_means_none(ctx, idx, "C20.e")
    ex = c.find("call", lambda n: n.meta.get("qual") == "os.path.exists")
    rz = [n for n in c.find("raise") if (n.meta.get("qual") or "").endswith("PathDoesNotExist")]
    ok = bool(ex) and bool(rz) and any("must_exist" in t.text() for t in c.find("test") if any(c.dominates(t, r) for r in rz))
    ctx.ob("C20.e", "%s::must-exist" % pp.key, K.rel(pp), pp.node.lineno, ok, "must_exist paths are checked with os.path.exists" if ok else "PathDoesNotExist is not raised exactly when must_exist is set and the path is absent")
    dt = idx.cls("mpilot.params", "DataTypeParameter").methods.get("clean")
    val = dt.node.args.args[1].arg
    rets = [n for n in own_nodes(dt.node) if isinstance(n, ast.Return)]
    ok = any(K.src(r.value).replace(" ", "") == "%s.valid_types[%s]" % (K.self_name(dt), val) for r in rets if r.value is not None)
    if not ok:
        # the key may be the value put into the declared spelling first (a helper of the class applied to the value)
        for r in rets:
            v_ = r.value
            if isinstance(v_, ast.Subscript) and K.src(v_.value).replace(" ", "") == "%s.valid_types" % K.self_name(dt) and (val in K.names_in(K.expand(dt, v_.slice)) or val in K.dep_names(dt, v_.slice)):
                ok = True
    if not ok:
        # the table may be re-keyed first (`names = {f(name): t for name, t in self.valid_types.items()}`): same types, names re-spelled
        for r in rets:
            v_ = r.value
            if isinstance(v_, ast.Subscript) and isinstance(v_.value, ast.Name) and (val in K.names_in(K.expand(dt, v_.slice)) or val in K.dep_names(dt, v_.slice)):
                defs_ = [n.value for n in own_nodes(dt.node) if isinstance(n, ast.Assign) and any(isinstance(t, ast.Name) and t.id == v_.value.id for t in n.targets)]
                if len(defs_) == 1 and isinstance(defs_[0], ast.DictComp) and K.src(defs_[0].generators[0].iter).replace(" ", "") == "%s.valid_types.items()" % K.self_name(dt) \
                        and isinstance(defs_[0].generators[0].target, ast.Tuple) and len(defs_[0].generators[0].target.elts) == 2 and isinstance(defs_[0].value, ast.Name) \
                        and K.src(defs_[0].value) == K.src(defs_[0].generators[0].target.elts[1]) and not defs_[0].generators[0].ifs:
                    ok = True
    ctx.ob("C20.e", "%s::name-to-type" % dt.key, K.rel(dt), dt.node.lineno, ok, "names map through valid_types[value]" if ok else "a data-type name is not mapped through valid_types[value]")
    # an already-clean value is returned as it is only when it is one of the table's own types: membership in valid_types.values()
    # (or an identity / equality scan of them), not merely "some class"
    cdt = K.cfg_of(idx, dt)
    sn_dt = K.self_name(dt)
    id_rets = [r for r in cdt.find("return") if isinstance(r.ast.value, ast.Name) and r.ast.value.id == val]
    for i_, r in enumerate(id_rets):
        guards = [t for t in cdt.find("test") if cdt.dominates(t, r) and r in cdt.reachable([m for m, l in t.succ if l == "true"]) and r not in cdt.reachable([m for m, l in t.succ if l == "false"])]
        member = [t for t in guards if ("%s.valid_types" % sn_dt) in K.src(K.expand(dt, t.ast)).replace(" ", "") and (
            (isinstance(t.ast, ast.Compare) and any(isinstance(o_, ast.In) for o_ in t.ast.ops)) or (isinstance(t.ast, ast.Call) and K.src(t.ast.func) == "any"))]
        con_ = "%s::clean-types-are-table-types@%d" % (dt.key, i_ + 1)
        if member:
            ctx.hold("C20.e", con_, K.rel(dt), r.line, "a type object is passed through only when the table holds it (`%s`)" % member[0].text()[:50])
        elif guards:
            ctx.violate("C20.e", con_, K.rel(dt), r.line, "the value is returned as it is under `%s`, which does not look it up among valid_types' values: any class (str, bool, list, a numpy type the table does not hold) passes as an already-clean data type instead of being refused with ParameterNotValid" % guards[-1].text()[:50])
        else:
            ctx.violate("C20.e", con_, K.rel(dt), r.line, "the value is returned as it is without being looked up among valid_types' values")
    # list items: every item is unwrapped and goes through the declared value type, on every return
    from . import coverage as _cov

    lp_ = idx.cls("mpilot.params", "ListParameter").methods.get("clean")
    if lp_ is None:
        raise AnalysisError("ListParameter.clean vanished")
    okl, whyl, linel = _cov.list_clean_total(idx, lp_)
    if okl is None:
        raise AnalysisError("C20.e: %s" % whyl)
    ctx.ob("C20.e", "%s::items-through-value-type" % lp_.key, K.rel(lp_), linel, okl, whyl)
    # number strings: int(text) first, float(text) as the fallback, each applied to the raw text itself
    per = S["NumberParameter"]["str"]
    np_ = idx.find_method(idx.cls("mpilot.params", "NumberParameter"), "clean")
    probs = []
    kinds_seen = set()
    for o in per["outcomes"]:
        if o.kind != "return":
            continue
        tag = o.payload.tag or ""
        kinds_seen |= set(o.payload.kinds)
        if tag == "conv:int:raw":
            continue
        if tag == "conv:float:raw":
            if "int-failed" not in o.notes:
                probs.append("float(text) is returned without int(text) having been tried first: `7` would clean to 7.0")
            continue
        probs.append("a number given as text is not converted by int(text)/float(text) applied to the text itself (returned value: %s%s): integers beyond 2**53 lose digits and `2.0` no longer stays a decimal" % ("/".join(sorted(o.payload.kinds)), ", " + tag if tag else ""))
    if not {"int", "float"} <= kinds_seen and not probs:
        probs.append("text can no longer clean to both an integer and a decimal")
    ctx.ob("C20.e", "%s::number-text" % np_.key, K.rel(np_), np_.node.lineno, not probs, "text -> int(text), else float(text)" if not probs else probs[0])
    # `x in "literal"` is a substring test, not a choice among words ('' and every fragment are accepted)
    pmod_ = idx.module_of("mpilot.params")
    n_sub = 0
    for ci_ in pmod_.classes.values():
        cl_ = ci_.methods.get("clean")
        if cl_ is None:
            continue
        for n in own_nodes(cl_.node):
            if isinstance(n, ast.Compare) and len(n.ops) == 1 and isinstance(n.ops[0], (ast.In, ast.NotIn)) and isinstance(n.comparators[0], ast.Constant) and isinstance(n.comparators[0].value, str):
                n_sub += 1
                ctx.violate("C20.e", "%s::substring-test" % cl_.key, K.rel(cl_), n.lineno, "`%s` tests whether the value is a SUBSTRING of %r (a parenthesised string is not a tuple): the empty string and every fragment of the word are accepted as if they were the word instead of being rejected" % (K.src(n), n.comparators[0].value))
    if not n_sub:
        ctx.hold("C20.e", "mpilot/params.py::cleaners::no-substring-tests", "mpilot/params.py", 1, "no cleaner tests membership in a string literal", nontrivial=False)
    bp = idx.cls("mpilot.params", "BooleanParameter").methods.get("clean")
    # the words recognised: string constants in the method and the keys of module-level tables it consults
    words = {n.value.lower() for n in own_nodes(bp.node) if isinstance(n, ast.Constant) and isinstance(n.value, str)}
    for n in own_nodes(bp.node):
        if isinstance(n, ast.Name) and isinstance(n.ctx, ast.Load):
            try:
                c = idx.const(bp.module, n, bp)
            except KeyError:
                continue
            for x in (c if isinstance(c, (dict, list, tuple, set, frozenset)) else ()):
                if isinstance(x, str):
                    words.add(x.lower())
    def _is_int_call(e):
        e = K.expand(bp, e)
        return isinstance(e, ast.Call) and isinstance(e.func, ast.Name) and e.func.id == "int"

    via_int = any(isinstance(n, ast.Call) and isinstance(n.func, ast.Name) and n.func.id == "bool" and n.args and _is_int_call(n.args[0]) for n in own_nodes(bp.node))
    ok = {"true", "false"} <= words and via_int
    ctx.ob("C20.e", "%s::boolean-forms" % bp.key, K.rel(bp), bp.node.lineno, ok, "true/false/0/1 forms recognised" if ok else "BooleanParameter no longer recognises the true/false/0/1 forms")
    if ok:
        # 'true' must yield True and 'false' False
        for n in own_nodes(bp.node):
            if isinstance(n, ast.If) and isinstance(n.test, ast.Compare) and isinstance(n.test.comparators[0], ast.Constant) and n.test.comparators[0].value in ("true", "false") and ".lower()" in K.src(n.test.left):
                want = n.test.comparators[0].value == "true"
                r = n.body[0] if n.body else None
                good = isinstance(r, ast.Return) and isinstance(r.value, ast.Constant) and r.value.value is want
                ctx.ob("C20.e", "%s::boolean(%s)" % (bp.key, n.test.comparators[0].value), K.rel(bp), n.lineno, good, "'%s' -> %s" % (n.test.comparators[0].value, want) if good else "the string '%s' does not clean to %s" % (n.test.comparators[0].value, want))
    if und_h:
        raise AnalysisError(und_h[0])
