"""C19 — command lookup depends only on the libraries requested."""
import ast

from engine.cfg import self_attr
from engine.index import own_nodes
from engine.report import AnalysisError

from . import common as K


def classify_membership(e, mvar_ok, libname):
    """Classify a boolean expression selecting registry entries for library `libname`.
    Returns 'exact' | 'bare-prefix' | 'substring' | None (unknown)."""
    if isinstance(e, ast.BoolOp) and isinstance(e.op, ast.Or):
        kinds = [classify_membership(v, mvar_ok, libname) for v in e.values]
        if any(k in ("bare-prefix", "substring", "zip-truncated") for k in kinds):
            return [k for k in kinds if k in ("bare-prefix", "substring", "zip-truncated")][0]
        if all(k == "exact" for k in kinds):
            return "exact"
        return None

    def is_lib(x):
        return isinstance(x, ast.Name) and x.id == libname

    def is_lib_dot(x):
        return isinstance(x, ast.BinOp) and isinstance(x.op, ast.Add) and is_lib(x.left) and isinstance(x.right, ast.Constant) and x.right.value == "."

    def is_mod(x):
        return mvar_ok(x)

    def is_mod_dot(x):
        return isinstance(x, ast.BinOp) and isinstance(x.op, ast.Add) and is_mod(x.left) and isinstance(x.right, ast.Constant) and x.right.value == "."

    if isinstance(e, ast.Compare) and len(e.ops) == 1:
        l, r = e.left, e.comparators[0]
        if isinstance(e.ops[0], ast.Eq) and ((is_mod(l) and is_lib(r)) or (is_lib(l) and is_mod(r))):
            return "exact"
        if isinstance(e.ops[0], ast.In) and is_lib(l) and is_mod(r):
            return "substring"
        if isinstance(e.ops[0], ast.Eq) and "split" in ast.unparse(e):
            s = ast.unparse(e).replace(" ", "")
            if ".split('.')[:" in s and "==%s.split('.')" % libname in s:
                return "exact"
    # all(a == b for a, b in zip(module.split("."), lib.split("."))): zip stops at the shorter path, so every ancestor
    # package of the requested library matches too (unless the lengths are compared as well)
    if isinstance(e, ast.Call) and isinstance(e.func, ast.Name) and e.func.id == "all" and e.args and isinstance(e.args[0], (ast.GeneratorExp, ast.ListComp)):
        g0 = e.args[0].generators[0]
        it = g0.iter
        if isinstance(it, ast.Call) and isinstance(it.func, ast.Name) and it.func.id == "zip" and len(it.args) == 2:
            def split_of(x):
                return x.func.value if isinstance(x, ast.Call) and isinstance(x.func, ast.Attribute) and x.func.attr == "split" and x.args and isinstance(x.args[0], ast.Constant) and x.args[0].value == "." else None
            a, b = split_of(it.args[0]), split_of(it.args[1])
            if a is not None and b is not None and ((is_mod(a) and is_lib(b)) or (is_lib(a) and is_mod(b))):
                elt = e.args[0].elt
                if isinstance(elt, ast.Compare) and len(elt.ops) == 1 and isinstance(elt.ops[0], ast.Eq):
                    return "zip-truncated"
    if isinstance(e, ast.BoolOp) and isinstance(e.op, ast.And):
        kinds = [classify_membership(v, mvar_ok, libname) for v in e.values]
        if "zip-truncated" in kinds and any(isinstance(v, ast.Compare) and "len(" in ast.unparse(v) for v in e.values):
            return None  # a length test accompanies the part-wise comparison: not decided here
        if "zip-truncated" in kinds:
            return "zip-truncated"
    if isinstance(e, ast.Call) and isinstance(e.func, ast.Attribute) and e.func.attr == "startswith" and len(e.args) == 1:
        recv, arg = e.func.value, e.args[0]
        if is_mod(recv) and is_lib_dot(arg):
            return "exact"
        if is_mod_dot(recv) and is_lib_dot(arg):
            return "exact"
        if is_mod(recv) and is_lib(arg):
            return "bare-prefix"
        if is_mod(recv) and isinstance(arg, ast.Tuple):
            return None
    return None



def keyed_guard(fn, add_call):
    """Is the registry add guarded by `if not any(<v>.module == M and <name of v.command> == N for v in <registry>)`
    where M is the module the added entry records?  (structural: variable names and helper extraction do not matter)"""
    for n in ast.walk(fn):
        if not (isinstance(n, ast.If) and any(x is add_call for s in n.body for x in ast.walk(s))):
            continue
        t = n.test
        extra = []
        if isinstance(t, ast.BoolOp) and isinstance(t.op, ast.And):
            nots = [x for x in t.values if isinstance(x, ast.UnaryOp) and isinstance(x.op, ast.Not) and isinstance(x.operand, ast.Call) and isinstance(x.operand.func, ast.Name) and x.operand.func.id == "any"]
            if len(nots) == 1:
                extra = [x for x in t.values if x is not nots[0]]
                t = nots[0]
        if not (isinstance(t, ast.UnaryOp) and isinstance(t.op, ast.Not)):
            continue
        c = t.operand
        if not (isinstance(c, ast.Call) and isinstance(c.func, ast.Name) and c.func.id == "any" and c.args and isinstance(c.args[0], (ast.GeneratorExp, ast.ListComp))):
            continue
        g = c.args[0]
        if len(g.generators) != 1 or not isinstance(g.generators[0].target, ast.Name) or g.generators[0].ifs and False:
            continue
        v = g.generators[0].target.id
        if not K.src(g.generators[0].iter).endswith("_commands"):
            continue
        conj = [g.elt] + list(g.generators[0].ifs)
        cmps = []
        for e in conj:
            if isinstance(e, ast.BoolOp) and isinstance(e.op, ast.And):
                cmps.extend(e.values)
            else:
                cmps.append(e)
        mod_side = None
        name_ok = False
        for e in cmps:
            if not (isinstance(e, ast.Compare) and len(e.ops) == 1 and isinstance(e.ops[0], ast.Eq)):
                continue
            a, b = e.left, e.comparators[0]
            for x, y in ((a, b), (b, a)):
                if isinstance(x, ast.Attribute) and x.attr == "module" and isinstance(x.value, ast.Name) and x.value.id == v:
                    mod_side = K.src(y)
                elif ("%s.command" % v) in K.src(x) and v not in K.names_in(y):
                    name_ok = True
        added = add_call.args[0] if add_call.args else None
        rec = K.src(added.args[0]) if isinstance(added, ast.Call) and added.args else None
        if mod_side is not None and name_ok and rec == mod_side:
            if extra:
                # registration made conditional on something else: which classes are left out of the registry?
                ns = fn.args.args[3].arg if len(fn.args.args) > 3 else None
                defs = {t_.id: st.value for st in ast.walk(fn) if isinstance(st, ast.Assign) for t_ in st.targets if isinstance(t_, ast.Name)}
                for x in extra:
                    x0 = defs.get(x.id, x) if isinstance(x, ast.Name) else x
                    if isinstance(x0, ast.Compare) and len(x0.ops) == 1 and isinstance(x0.ops[0], ast.In) and isinstance(x0.left, ast.Constant) and isinstance(x0.comparators[0], ast.Name) and x0.comparators[0].id == ns:
                        return "only classes whose own body defines `%s` are registered (`%s`): a command class that inherits it from a parent command - the same operation under another name or with other inputs - never reaches the registry, so its library does not offer it and the name resolves elsewhere or not at all" % (x0.left.value, K.src(x0))
                raise AnalysisError("C19.c: registration in CommandMeta.__new__ is conditional on `%s`: cannot decide which command classes that leaves out" % K.src(extra[0])[:80])
            return True
    return False

def _extra_condition(init, dupname, extras):
    """`if duplicates and C: raise` - True when C follows from `duplicates` being non-empty (C is `len(X) > 1` with X the very
    collection the names were counted over), False when C is a count of something else (it can be false while names clash),
    None otherwise"""
    counted_over = None
    for n in own_nodes(init.node):
        if isinstance(n, ast.Assign) and any(isinstance(x, ast.Name) and x.id == dupname for x in n.targets):
            for c in ast.walk(n.value):
                if isinstance(c, ast.Call) and K.src(c.func) == "Counter" and c.args and isinstance(c.args[0], (ast.GeneratorExp, ast.ListComp)) and isinstance(c.args[0].generators[0].iter, ast.Name):
                    counted_over = c.args[0].generators[0].iter.id
            # the counter may have been built in a statement of its own
            for nm in K.names_in(n.value):
                for m in own_nodes(init.node):
                    if isinstance(m, ast.Assign) and any(isinstance(x, ast.Name) and x.id == nm for x in m.targets):
                        for c in ast.walk(m.value):
                            if isinstance(c, ast.Call) and K.src(c.func) == "Counter" and c.args and isinstance(c.args[0], (ast.GeneratorExp, ast.ListComp)) and isinstance(c.args[0].generators[0].iter, ast.Name):
                                counted_over = c.args[0].generators[0].iter.id
    if counted_over is None or len(extras) != 1:
        return None
    e = extras[0]
    if isinstance(e, ast.Compare) and len(e.ops) == 1 and isinstance(e.left, ast.Call) and isinstance(e.left.func, ast.Name) and e.left.func.id == "len" and len(e.left.args) == 1 and isinstance(e.left.args[0], ast.Name) and isinstance(e.comparators[0], ast.Constant):
        c = e.comparators[0].value
        at_least_two = (isinstance(e.ops[0], ast.Gt) and c <= 1) or (isinstance(e.ops[0], ast.GtE) and c <= 2) or (isinstance(e.ops[0], ast.NotEq) and c in (0, 1))
        if e.left.args[0].id == counted_over and at_least_two:
            return True
        if e.left.args[0].id != counted_over:
            return False
    return None


def completed_loads_record(idx, prog):
    """Name of a class-level dict on Program that only records libraries load_commands has finished loading: it is written only in
    load_commands, after the package walk and the imports (no loading call is reachable from the store), with the module object
    imported in that call; and it is read only to compare its entry by identity (`is`) with the entry of sys.modules.  None otherwise."""
    lc = prog.methods.get("load_commands")
    if lc is None:
        return None
    cands = [name for name, v in prog.attrs.items() if isinstance(v, ast.Dict) and not v.keys]
    for name in cands:
        def is_rec(x):
            return isinstance(x, ast.Attribute) and x.attr == name and isinstance(x.value, ast.Name) and x.value.id in ("cls", "self", prog.name)
        uses = [(f, n) for f in idx.funcs if hasattr(f, "node") for n in own_nodes(f.node) if is_rec(n)]
        if not uses or any(f is not lc for f, n in uses):
            continue
        cfg = K.cfg_of(idx, lc)
        loaders = [c for c in cfg.find("call") if K.src(c.ast.func).split(".")[-1] in ("import_module", "exec_module", "walk_packages", "iter_modules", "load_commands", "__import__")]
        stores = [s_ for s_ in cfg.find("store") if s_.meta.get("subscript") and is_rec(s_.ast.value)]
        if not stores or any(l_ in cfg.reachable([s_]) for s_ in stores for l_ in loaders):
            continue
        ok = True
        for f, n in uses:
            # every other mention: `cls.R.get(k) is imported` / `cls.R[k] is imported`
            par = None
            for x in own_nodes(lc.node):
                for ch in ast.iter_child_nodes(x):
                    if ch is n:
                        par = x
            if isinstance(par, ast.Subscript) and isinstance(par.ctx, ast.Store):
                continue
            cmp_ok = False
            for x in own_nodes(lc.node):
                if isinstance(x, ast.Compare) and len(x.ops) == 1 and isinstance(x.ops[0], ast.Is) and any(n is y for y in ast.walk(x)):
                    cmp_ok = True
            ok = ok and cmp_ok
        if ok:
            return name
    return None


def loader_reports_what_it_loaded(idx, prog):
    """load_commands returns a list that only ever receives names next to the call that imports / executes / walks that module"""
    lc = prog.methods.get("load_commands")
    if lc is None:
        return False
    rets = [n for n in own_nodes(lc.node) if isinstance(n, ast.Return) and n.value is not None]
    if not rets or not all(isinstance(r.value, ast.Name) for r in rets):
        return False
    name = rets[0].value.id
    if any(r.value.id != name for r in rets):
        return False
    ok = True
    parents = {}
    for n in ast.walk(lc.node):
        for c in ast.iter_child_nodes(n):
            parents[id(c)] = n
    for n in own_nodes(lc.node):
        grows = (isinstance(n, ast.Call) and isinstance(n.func, ast.Attribute) and n.func.attr in ("append", "extend") and isinstance(n.func.value, ast.Name) and n.func.value.id == name) or (isinstance(n, ast.AugAssign) and isinstance(n.target, ast.Name) and n.target.id == name)
        if not grows:
            continue
        # the enclosing statement list must contain a loading call
        blk = n
        while id(blk) in parents and not isinstance(parents[id(blk)], (ast.For, ast.If, ast.FunctionDef, ast.With, ast.Try)):
            blk = parents[id(blk)]
        owner = parents.get(id(blk))
        body = getattr(owner, "body", []) if owner is not None else []
        loads_here = any(isinstance(c, ast.Call) and (K.src(c.func).split(".")[-1] in ("import_module", "exec_module", "load_commands", "__import__", "load_module")) for st in body for c in ast.walk(st))
        ok = ok and loads_here
    return ok


_UNDECIDED = []


def _temporary_registration(idx, f_, node0=None):
    """ids of the nodes of `f_` that belong to a temporary entry in sys.modules: a `try` whose body stores `sys.modules[k] = m`
    and whose `finally` deletes entries of sys.modules again (what a loader does so that a package's __init__ can import
    relatively while it executes).  Whether every entry made is removed on every exit is not decided by these rules."""
    node0 = node0 or getattr(f_, "node_orig", None) or getattr(f_, "node", None)
    ids = set()
    if node0 is None:
        return ids

    def is_sysmod(e):
        return isinstance(e, (ast.Attribute, ast.Name)) and (idx.qualname(f_.module, e, f_) or "") == "sys.modules"

    for t in ast.walk(node0):
        if not (isinstance(t, ast.Try) and t.finalbody):
            continue
        stores = [x for st in t.body for x in ast.walk(st) if isinstance(x, ast.Assign) and any(isinstance(tg, ast.Subscript) and is_sysmod(tg.value) for tg in x.targets)]
        dels = [x for st in t.finalbody for x in ast.walk(st) if isinstance(x, ast.Delete) and any(isinstance(tg, ast.Subscript) and is_sysmod(tg.value) for tg in x.targets)]
        pops = [x for st in t.finalbody for x in ast.walk(st) if isinstance(x, ast.Call) and isinstance(x.func, ast.Attribute) and x.func.attr == "pop" and is_sysmod(x.func.value)]
        if stores and (dels or pops):
            for x in stores + dels + pops:
                ids.add(id(x))
            for st in t.finalbody:
                for x in ast.walk(st):
                    ids.add(id(x))
    return ids


def _holds_loaded_modules(idx, prog, name):
    """every store into the class-level table `name` is `<cls>.<name>[<key>] = m` with m bound from importlib.util.module_from_spec /
    imp.load_module in the same method, and nothing else mutates it"""
    n_store = 0
    for fi in prog.methods.values():
        node0 = getattr(fi, "node_orig", None) or fi.node
        for x in ast.walk(node0):
            if isinstance(x, ast.Attribute) and x.attr == name and isinstance(x.ctx, ast.Store):
                return False
            if isinstance(x, ast.Call) and isinstance(x.func, ast.Attribute) and isinstance(x.func.value, ast.Attribute) and x.func.value.attr == name \
                    and x.func.attr in ("update", "setdefault", "pop", "popitem", "clear", "append", "add", "__setitem__"):
                return False
            if isinstance(x, ast.Assign) and any(isinstance(t, ast.Subscript) and isinstance(t.value, ast.Attribute) and t.value.attr == name for t in x.targets):
                if not isinstance(x.value, ast.Name):
                    return False
                srcs = [a.value for a in ast.walk(node0) if isinstance(a, ast.Assign) and any(isinstance(t, ast.Name) and t.id == x.value.id for t in a.targets)]
                if not srcs or not all(isinstance(v, ast.Call) and (idx.qualname(fi.module, v.func, fi) or K.src(v.func)).split(".")[-1] in ("module_from_spec", "load_module") for v in srcs):
                    return False
                n_store += 1
    return n_store > 0


def _only_read_by_callee(idx, mod, fi, attr_node):
    """`<program>.command_library` appears as a positional argument of a call to a function of the package whose matching
    parameter is only read there: looked up (.get / [] load / in / iteration), never stored into, mutated, returned, kept or passed on"""
    call = None
    kwname = None
    for c in own_nodes(fi.node):
        if isinstance(c, ast.Call) and any(a is attr_node for a in c.args):
            call = c
        if isinstance(c, ast.Call) and any(k.value is attr_node and k.arg for k in c.keywords):
            call = c
            kwname = next(k.arg for k in c.keywords if k.value is attr_node)
    if call is None or not isinstance(call.func, ast.Name):
        return False
    if call.func.id in ("sorted", "list", "tuple", "set", "frozenset", "len", "iter", "any", "all", "min", "max", "enumerate") and (idx.qualname(mod, call.func, fi) or "builtins.").startswith("builtins."):
        return True  # a builtin that walks the table and hands back something new
    r = idx.resolve(mod, call.func, fi)
    callee = r[1] if r is not None and r[0] == "func" else None
    if kwname is not None and callee is not None:
        names_ = [a.arg for a in callee.node.args.args + callee.node.args.kwonlyargs]
        if kwname not in names_:
            return False
        pos = names_.index(kwname) if kwname in [a.arg for a in callee.node.args.args] else 0
    else:
        pos = [i for i, a in enumerate(call.args) if a is attr_node][0]
    if kwname is not None and callee is not None and kwname not in [a.arg for a in callee.node.args.args]:
        return False
    if callee is None or pos >= len(callee.node.args.args):
        return False
    pn = callee.node.args.args[pos].arg
    par = {}
    for x in ast.walk(callee.node):
        for ch in ast.iter_child_nodes(x):
            par[id(ch)] = x
    for x in ast.walk(callee.node):
        if not (isinstance(x, ast.Name) and x.id == pn):
            continue
        if isinstance(x.ctx, ast.Store):
            # p = set(p) / list(p) / frozenset(p): the name now holds a private copy of what was read
            asg = par.get(id(x))
            if isinstance(asg, ast.Assign) and len(asg.targets) == 1 and isinstance(asg.value, ast.Call) and K.src(asg.value.func) in ("set", "list", "tuple", "frozenset", "sorted", "dict") \
                    and len(asg.value.args) == 1 and isinstance(asg.value.args[0], ast.Name) and asg.value.args[0].id == pn:
                continue
            return False
        if isinstance(x.ctx, ast.Del):
            return False
        up = par.get(id(x))
        if isinstance(up, ast.Call) and K.src(up.func) in ("set", "list", "tuple", "frozenset", "sorted", "dict", "len") and x in up.args:
            continue
        # `(p or {})` is still p
        while isinstance(up, ast.BoolOp) and isinstance(up.op, ast.Or):
            x, up = up, par.get(id(up))
        if isinstance(up, ast.Attribute) and up.value is x and up.attr in ("get", "keys", "values", "items", "__contains__") and isinstance(par.get(id(up)), ast.Call):
            continue
        if isinstance(up, ast.Subscript) and up.value is x and isinstance(up.ctx, ast.Load):
            continue
        if isinstance(up, ast.Compare) and x in up.comparators and all(isinstance(o, (ast.In, ast.NotIn, ast.Is, ast.IsNot)) for o in up.ops):
            continue
        if isinstance(up, ast.Compare) and up.left is x and all(isinstance(o, (ast.Is, ast.IsNot)) for o in up.ops):
            continue
        if isinstance(up, (ast.For, ast.comprehension)) and up.iter is x:
            continue
        if isinstance(up, (ast.If, ast.IfExp, ast.While)) and up.test is x:
            continue
        return False
    return True


def library_membership(ctx, idx, rule, init):
    """the predicate selecting registry entries for a requested library: module equality or a dotted-prefix test"""
    # the comprehension filtering Command.get_commands()
    sel = None
    for n in own_nodes(init.node):
        if isinstance(n, (ast.ListComp, ast.GeneratorExp, ast.SetComp, ast.DictComp)):
            g = n.generators[0]
            if "get_commands" in ast.unparse(g.iter) or "._commands" in ast.unparse(g.iter):
                sel = (n, g)
    con = "%s::library-membership" % init.key
    delegated = None
    if sel is None:
        # no comprehension here: the registry accessor itself is given the libraries (`x = Command.get_commands(libraries)`)
        for n in own_nodes(init.node):
            if isinstance(n, ast.Assign) and isinstance(n.value, ast.Call) and "get_commands" in K.src(n.value.func) and (n.value.args or n.value.keywords):
                delegated = n.value
                comp = n.value
    if sel is None and delegated is None:
        raise AnalysisError(rule + ": cannot find the selection over the command registry in Program.__init__")
    if sel is not None:
        comp, g = sel
        tvar = g.target.id if isinstance(g.target, ast.Name) else None
        if not g.ifs and isinstance(g.iter, ast.Call) and (g.iter.args or g.iter.keywords):
            delegated = g.iter
    if delegated is not None:
        # the selection is handed the requested libraries: the filter lives in the callee
        r_ = idx.call_targets(init, delegated)
        callee = r_[0][0] if r_ and r_[0] and len(r_[0]) == 1 else None
        if callee is None:
            raise AnalysisError(rule + ": the registry selection `%s` is given the libraries, but its callee cannot be resolved" % K.src(delegated)[:60])
        node_c = getattr(callee, "node_orig", None) or callee.node
        for x in ast.walk(node_c):
            if isinstance(x, ast.Call) and (idx.qualname(callee.module, x.func, callee) or "") in ("re.compile", "re.match", "re.search", "re.fullmatch") and x.args:
                pat = K.src(K.expand(callee, x.args[0]))
                if ".join(" in pat and "escape" in pat:
                    # every name escaped, alternatives closed by `\.` or the end of the text, matched from the start: module == lib or
                    # module starts with lib + "."
                    tmpl = [c_ for c_ in ast.walk(K.expand(callee, x.args[0])) if isinstance(c_, ast.Constant) and isinstance(c_.value, str) and "{" in c_.value]
                    mcalls = [m_ for m_ in ast.walk(node_c) if isinstance(m_, ast.Call) and isinstance(m_.func, ast.Attribute) and m_.func.attr in ("match", "search", "fullmatch", "findall")]
                    if tmpl and tmpl[0].value.replace(" ", "") in ("(?:{})(?:\\.|\\Z)", "(?:{0})(?:\\.|\\Z)") and mcalls and all(m_.func.attr == "match" for m_ in mcalls):
                        ctx.hold(rule, con, K.rel(callee), x.lineno, "membership by a regular expression built from the escaped library names, anchored at the start and closed by `.` or the end of the name")
                        return comp
                if ".join(" in pat and "escape" not in pat:
                    ctx.violate(rule, con, K.rel(callee), x.lineno, "`%s` builds a regular expression from the requested library names as they are: every `.` of a dotted name matches any character, so requesting `pkg.ext` also selects the commands of a module `pkg_ext` / `pkgXext` that something else loaded" % K.src(x)[:70])
                    return comp
        raise AnalysisError(rule + ": the libraries are filtered inside %s; the form used there is outside the recognised ones" % callee.qualname)
    if not g.ifs:
        ctx.violate(rule, con, K.rel(init), comp.lineno, "registry entries are not filtered by the requested libraries at all: every command class ever defined in the process is visible")
    else:
        cond = g.ifs[0]
        # a conjunct that only drops entries already collected (`and info not in <the list being built>`) does not change the set
        if isinstance(cond, ast.BoolOp) and isinstance(cond.op, ast.And):
            built = {t.id for st in own_nodes(init.node) if isinstance(st, (ast.Assign, ast.AugAssign)) for t in (st.targets if isinstance(st, ast.Assign) else [st.target]) if isinstance(t, ast.Name) and any(comp is x for x in ast.walk(st.value))}
            rest = [c_ for c_ in cond.values if not (isinstance(c_, ast.Compare) and len(c_.ops) == 1 and isinstance(c_.ops[0], ast.NotIn) and isinstance(c_.left, ast.Name) and c_.left.id == tvar and isinstance(c_.comparators[0], ast.Name) and c_.comparators[0].id in built)]
            if len(rest) == 1:
                cond = rest[0]
        verdict = None
        libvar = None
        inner = None
        pre = None
        if isinstance(cond, ast.BoolOp) and isinstance(cond.op, ast.Or):
            # `<module> == "<some name>" or <the test of the requested libraries>`: that module's commands come along whatever was asked for
            fixed = [v_ for v_ in cond.values if isinstance(v_, ast.Compare) and len(v_.ops) == 1 and isinstance(v_.ops[0], (ast.Eq, ast.In)) and isinstance(v_.left, ast.Attribute) and v_.left.attr in ("module", "__module__")
                     and isinstance(v_.comparators[0], (ast.Constant, ast.Tuple, ast.List, ast.Set)) and all(isinstance(c_, ast.Constant) for c_ in ([v_.comparators[0]] if isinstance(v_.comparators[0], ast.Constant) else v_.comparators[0].elts))]
            # `<flag> and <module> == "<name>"` with <flag> = any(lib == "<name>" for lib in libraries) / "<name>" in libraries: that
            # module is admitted exactly when it was requested by name - which the test of the requested libraries admits anyway
            # (exact equality is one of its arms; the form of that test is decided below on what is left)
            def _requested_only(v_):
                if not (isinstance(v_, ast.BoolOp) and isinstance(v_.op, ast.And) and len(v_.values) == 2):
                    return False
                for a_, b_ in (v_.values, v_.values[::-1]):
                    if isinstance(a_, ast.Name) and isinstance(b_, ast.Compare) and len(b_.ops) == 1 and isinstance(b_.ops[0], ast.Eq) and isinstance(b_.left, ast.Attribute) and b_.left.attr in ("module", "__module__") \
                            and isinstance(b_.comparators[0], ast.Constant):
                        cst = b_.comparators[0].value
                        defs_ = [n_.value for n_ in own_nodes(init.node) if isinstance(n_, ast.Assign) and any(isinstance(t_, ast.Name) and t_.id == a_.id for t_ in n_.targets)]
                        if len(defs_) != 1:
                            return False
                        d_ = defs_[0]
                        if isinstance(d_, ast.Compare) and len(d_.ops) == 1 and isinstance(d_.ops[0], ast.In) and isinstance(d_.left, ast.Constant) and d_.left.value == cst and isinstance(d_.comparators[0], ast.Name):
                            return True
                        if isinstance(d_, ast.Call) and K.src(d_.func) == "any" and d_.args and isinstance(d_.args[0], (ast.GeneratorExp, ast.ListComp)) and not d_.args[0].generators[0].ifs \
                                and isinstance(d_.args[0].generators[0].target, ast.Name) and isinstance(d_.args[0].generators[0].iter, ast.Name):
                            el_ = d_.args[0].elt
                            lv_ = d_.args[0].generators[0].target.id
                            if isinstance(el_, ast.Compare) and len(el_.ops) == 1 and isinstance(el_.ops[0], ast.Eq) and {K.src(el_.left), K.src(el_.comparators[0])} == {lv_, repr(cst)}:
                                return True
                return False
            rest_or = [v_ for v_ in cond.values if not _requested_only(v_)]
            if len(rest_or) < len(cond.values) and len(rest_or) == 1:
                cond = rest_or[0]
                fixed = []
            if fixed:
                ctx.violate(rule, con, K.rel(init), fixed[0].lineno, "`%s` selects the commands of a fixed module whether or not it was requested: what a program can use then depends on the classes the running script (or an earlier import) happened to define - `Program(libraries=())` is not empty, and a scratch class named like a library command makes the construction fail as 'duplicated'" % K.src(fixed[0]))
                return comp
        if isinstance(cond, ast.Call) and isinstance(cond.func, ast.Name) and cond.func.id == "any" and cond.args and isinstance(cond.args[0], (ast.GeneratorExp, ast.ListComp)):
            ig = cond.args[0].generators[0]
            if isinstance(ig.target, ast.Name) and isinstance(ig.iter, ast.Name):
                libvar = ig.target.id
                inner = cond.args[0].elt
        elif isinstance(cond, ast.Call) and isinstance(cond.func, ast.Attribute) and cond.func.attr == "startswith" and len(cond.args) == 1 \
                and (isinstance(cond.args[0], ast.Name) or (isinstance(cond.args[0], ast.Call) and K.src(cond.args[0].func) == "tuple" and len(cond.args[0].args) == 1 and isinstance(cond.args[0].args[0], ast.Name))) \
                and isinstance(cond.func.value, ast.Attribute) and cond.func.value.attr in ("module", "__module__"):
            # module.startswith(tuple(libraries)): a bare prefix test against every requested name at once
            pre = ("bare-prefix", cond)
        elif isinstance(cond, ast.Call) and isinstance(cond.func, ast.Attribute) and cond.func.attr == "startswith" and len(cond.args) == 1 and isinstance(cond.args[0], ast.Name) \
                and isinstance(cond.func.value, ast.BinOp) and isinstance(cond.func.value.op, ast.Add) and isinstance(cond.func.value.right, ast.Constant) and cond.func.value.right.value == "." \
                and isinstance(cond.func.value.left, ast.Attribute) and cond.func.value.left.attr in ("module", "__module__"):
            # (module + ".").startswith(prefixes) with prefixes = tuple(lib + "." for lib in libraries): both sides end at a package
            # boundary, so this is `module == lib or module.startswith(lib + ".")` for some requested lib
            defs_p = [n_.value for n_ in own_nodes(init.node) if isinstance(n_, ast.Assign) and any(isinstance(t_, ast.Name) and t_.id == cond.args[0].id for t_ in n_.targets)]
            if len(defs_p) == 1 and isinstance(defs_p[0], ast.Call) and K.src(defs_p[0].func) == "tuple" and len(defs_p[0].args) == 1 and isinstance(defs_p[0].args[0], (ast.GeneratorExp, ast.ListComp)) \
                    and not defs_p[0].args[0].generators[0].ifs and isinstance(defs_p[0].args[0].elt, ast.BinOp) and isinstance(defs_p[0].args[0].elt.op, ast.Add) \
                    and isinstance(defs_p[0].args[0].elt.right, ast.Constant) and defs_p[0].args[0].elt.right.value == "." and isinstance(defs_p[0].args[0].elt.left, ast.Name) \
                    and K.src(defs_p[0].args[0].elt.left) == K.src(defs_p[0].args[0].generators[0].target):
                pre = ("exact", cond)
        elif isinstance(cond, ast.Compare) and isinstance(cond.ops[0], ast.In) and isinstance(cond.comparators[0], ast.Name):
            # info.module in libraries : exact
            l = cond.left
            if isinstance(l, ast.Attribute) and l.attr == "module":
                verdict = "exact"

        def mvar_ok(x):
            return isinstance(x, ast.Attribute) and x.attr in ("module", "__module__") and (
                (isinstance(x.value, ast.Name) and x.value.id == tvar) or (isinstance(x.value, ast.Attribute) and isinstance(x.value.value, ast.Name) and x.value.value.id == tvar))

        if inner is not None:
            verdict = classify_membership(inner, mvar_ok, libvar)
        if pre is not None:
            verdict, inner = pre
        if verdict is None and inner is None:
            # the predicate is written directly, `lib` being a loop variable or parameter of the enclosing code
            cands = {n.id for n in ast.walk(cond) if isinstance(n, ast.Name)} - {tvar}
            for cnd in sorted(cands):
                v = classify_membership(cond, mvar_ok, cnd)
                if v is not None:
                    verdict, inner = v, cond
                    break
        if verdict == "exact":
            ctx.hold(rule, con, K.rel(init), comp.lineno, "membership is exact: %s" % K.src(cond))
        elif verdict in ("bare-prefix", "substring"):
            ctx.violate(rule, con, K.rel(init), comp.lineno,
                        "`%s` is a %s test: requesting library `mylib` also selects the commands of `mylib2` / `mylib_extra`" % (K.src(inner), "bare prefix" if verdict == "bare-prefix" else "substring"))
        elif verdict == "zip-truncated":
            ctx.violate(rule, con, K.rel(init), comp.lineno,
                        "`%s` compares the dotted paths part by part over zip(), which stops at the shorter one: requesting `pkg.sub` also selects the commands defined in `pkg` itself (every ancestor package matches)" % K.src(inner)[:90])
        else:
            raise AnalysisError(rule + ": membership predicate `%s` is outside the recognised forms" % K.src(cond))
    return comp


def run(ctx, idx):
    del _UNDECIDED[:]
    A = K.anchors(idx)
    ctx.rule("C19.a", "The predicate selecting registry entries for a requested library is module equality or a dotted-prefix test (lib + '.'); a bare startswith(lib) or substring test also admits libraries whose names merely share the prefix.")
    ctx.rule("C19.b", "The store of the per-program command lookup is dominated by the duplicate-name test that raises.")
    ctx.rule("C19.c", "The process-wide registry is mutated only by CommandMeta.__new__ (add-only); the lookup is a per-instance attribute assigned in __init__ and read only through find_command_class; no module-level cache.")
    prog = A.program
    init = prog.methods.get("__init__")
    if init is None:
        raise AnalysisError("Program.__init__ vanished")
    sn = K.self_name(init)
    ctx.rule("C19.d", "The request is taken as given: the `libraries` argument of Program.__init__ / from_source reaches the selection unchanged; a default may stand in only for an omitted argument (`is None`), never for a falsy one - `libraries or DEFAULT` turns an explicit empty request into the three EEMS CSV libraries.")
    n_req = 0
    for m_ in (init, prog.methods.get("from_source")):
        if m_ is None:
            continue
        params_ = [a.arg for a in m_.node.args.args if a.arg.startswith("librar")]
        for pn in params_:
            n_req += 1
            node0 = getattr(m_, "node_orig", None) or m_.node
            bad_ = None
            for x_ in ast.walk(node0):
                if isinstance(x_, ast.BoolOp) and isinstance(x_.op, ast.Or) and isinstance(x_.values[0], ast.Name) and x_.values[0].id == pn:
                    bad_ = x_
                if isinstance(x_, (ast.If, ast.IfExp, ast.While)):
                    t_ = x_.test
                    while isinstance(t_, ast.UnaryOp) and isinstance(t_.op, ast.Not):
                        t_ = t_.operand
                    if isinstance(t_, ast.Name) and t_.id == pn:
                        bad_ = x_
                    if isinstance(t_, ast.Call) and isinstance(t_.func, ast.Name) and t_.func.id in ("len", "bool") and t_.args and isinstance(t_.args[0], ast.Name) and t_.args[0].id == pn:
                        bad_ = x_
            ctx.ob("C19.d", "%s::request-taken-as-given(%s)" % (m_.key, pn), K.rel(m_), (bad_ or node0).lineno, bad_ is None,
                   "`%s` is replaced by a default only when it is None, if at all" % pn if bad_ is None else
                   "`%s` replaces a falsy `%s` by a default: a program asked for with no libraries (`()` / `[]`) gets the default libraries' commands instead of none" % (K.src(bad_)[:60], pn))
    ctx.floor("C19.d", "library request parameters", n_req, 2)
    # ... and the names in it are used as given: str.strip / rstrip / lstrip take a SET of characters, not a suffix
    for m_ in [init] + ([prog.methods["load_commands"]] if "load_commands" in prog.methods else []):
        node0 = getattr(m_, "node_orig", None) or m_.node
        for c_ in ast.walk(node0):
            if isinstance(c_, ast.Call) and isinstance(c_.func, ast.Attribute) and c_.func.attr in ("strip", "rstrip", "lstrip") and c_.args and isinstance(c_.args[0], ast.Constant) \
                    and isinstance(c_.args[0].value, str) and len(c_.args[0].value) > 1:
                ctx.violate("C19.d", "%s::library-names-as-given" % m_.key, K.rel(m_), c_.lineno, "`%s` removes every trailing / leading character that is IN %r, not that suffix: `proxy.py` becomes `prox`, `supply.py` `suppl` - when a library of the shortened name exists it is loaded and selected instead of the one requested" % (K.src(c_)[:50], c_.args[0].value))
    ctx.rule("C19.e", "Constructing a program leaves the process's import machinery as it found it: Program.__init__ / from_source and what they call do not extend or reorder sys.path, edit sys.modules / sys.meta_path / sys.path_hooks, call site.addsitedir or change the working directory - a search path added for one program decides which module a later program's library name resolves to.")
    n_fn = 0
    for f_ in K.helper_closure(idx, init) + ([prog.methods["from_source"]] if "from_source" in prog.methods else []):
        node0 = getattr(f_, "node_orig", None) or getattr(f_, "node", None)
        if node0 is None:
            continue
        n_fn += 1
        temp_ = _temporary_registration(idx, f_)
        for x_ in ast.walk(node0):
            hit = None
            if isinstance(x_, ast.Call) and isinstance(x_.func, ast.Attribute) and x_.func.attr in ("append", "insert", "extend", "remove", "pop", "clear", "sort", "reverse", "update", "setdefault", "__setitem__", "popitem"):
                q_ = idx.qualname(f_.module, x_.func.value, f_) or K.src(x_.func.value)
                if q_ in ("sys.path", "sys.modules", "sys.meta_path", "sys.path_hooks", "sys.path_importer_cache"):
                    hit = q_
            if isinstance(x_, ast.Call) and (idx.qualname(f_.module, x_.func, f_) or "") in ("site.addsitedir", "os.chdir", "importlib.invalidate_caches") and (idx.qualname(f_.module, x_.func, f_) or "") != "importlib.invalidate_caches":
                hit = idx.qualname(f_.module, x_.func, f_)
            if isinstance(x_, (ast.Assign, ast.AugAssign, ast.Delete)):
                tg = x_.targets if not isinstance(x_, ast.AugAssign) else [x_.target]
                for t_ in tg:
                    base_ = t_.value if isinstance(t_, ast.Subscript) else t_
                    q_ = idx.qualname(f_.module, base_, f_) if isinstance(base_, (ast.Attribute, ast.Name)) else None
                    if q_ in ("sys.path", "sys.modules", "sys.meta_path", "sys.path_hooks"):
                        hit = q_
            if hit and id(x_) in temp_:
                _UNDECIDED.append("C19.e: %s registers a module in sys.modules while it executes and removes entries again in a `finally` (line %d); whether the import state is left exactly as found on every exit is not decided" % (f_.qualname, x_.lineno))
                continue
            if hit:
                ctx.violate("C19.e", "%s::import-state(%s)" % (f_.key, hit), K.rel(f_), x_.lineno, "`%s` changes `%s`, which belongs to the whole process and is never put back: the libraries a later program can import - and which file a bare module name resolves to - now depend on the programs constructed before it" % (K.src(x_)[:60], hit))
    ctx.floor("C19.e", "functions on the construction path", n_fn, 2)
    comp = library_membership(ctx, idx, "C19.a", init)
    # every requested library is loaded, whatever else was requested with it
    cfg0 = K.cfg_of(idx, init)
    libparam = [a.arg for a in init.node.args.args if "lib" in a.arg.lower()]
    heads0 = [h for h in cfg0.find("iter") if not h.meta.get("comp") and isinstance(h.meta["iter"], ast.Name) and h.meta["iter"].id in libparam]
    loads = cfg0.find("call", lambda n: isinstance(n.ast.func, ast.Attribute) and n.ast.func.attr == "load_commands")
    con = "%s::every-requested-library-loaded" % init.key
    if not loads:
        ctx.violate("C19.a", con, K.rel(init), init.node.lineno, "Program.__init__ never loads the requested libraries")
    else:
        okl = False
        for h in heads0:
            firsts = [m for m, l in h.succ if l == "loop"]
            if firsts and all(cfg0.must_pass_through(b, h, set(loads)) for b in firsts) and cfg0.must_pass_through(cfg0.entry, cfg0.exit, {h}):
                okl = True
            elif firsts and cfg0.must_pass_through(cfg0.entry, cfg0.exit, {h}):
                # a library may be passed over when this very constructor has already loaded it: the test is membership in a local
                # collection that only receives what load_commands reports to have loaded
                lv = h.meta["target"].id if isinstance(h.meta["target"], ast.Name) else None
                skips = [t for t in cfg0.find("test") if isinstance(t.ast, ast.Compare) and len(t.ast.ops) == 1 and isinstance(t.ast.ops[0], (ast.In, ast.NotIn)) and isinstance(t.ast.left, ast.Name) and t.ast.left.id == lv and isinstance(t.ast.comparators[0], ast.Name)]
                for t in skips:
                    rec = t.ast.comparators[0].id
                    stores = [n_ for n_ in own_nodes(init.node) if isinstance(n_, ast.Name) and n_.id == rec and isinstance(n_.ctx, ast.Store)]
                    init_ok = [st for st in own_nodes(init.node) if isinstance(st, ast.Assign) and any(isinstance(t_, ast.Name) and t_.id == rec for t_ in st.targets) and K.src(st.value) in ("set()", "[]", "list()")]
                    feeds = [c_ for c_ in own_nodes(init.node) if isinstance(c_, ast.Call) and isinstance(c_.func, ast.Attribute) and isinstance(c_.func.value, ast.Name) and c_.func.value.id == rec]
                    fed_by_loader = feeds and all(c_.func.attr in ("update", "extend") and len(c_.args) == 1 and isinstance(c_.args[0], ast.Call) and isinstance(c_.args[0].func, ast.Attribute) and c_.args[0].func.attr == "load_commands" for c_ in feeds)
                    stay = [m for m, l in t.succ if l == ("false" if isinstance(t.ast.ops[0], ast.In) else "true")]
                    if len(stores) == 1 and init_ok and fed_by_loader and stay and all(cfg0.must_pass_through(m, h, set(loads)) for m in stay) and loader_reports_what_it_loaded(idx, prog):
                        okl = True
        ctx.ob("C19.a", con, K.rel(init), loads[0].line, okl, "load_commands runs for every element of the requested libraries" if okl else
               "load_commands is skipped for some requested libraries (a condition or `continue` inside the loading loop): whether such a library's commands exist then depends on what else was requested and on what earlier programs or imports already registered")
    # the loader executes what the filter admits: every module below a requested package
    lc = prog.methods.get("load_commands")
    if lc is None:
        raise AnalysisError("Program.load_commands vanished")
    walkers = [(n, idx.qualname(lc.module, n.func, lc) or "") for n in own_nodes(lc.node) if isinstance(n, ast.Call) and (idx.qualname(lc.module, n.func, lc) or "").startswith("pkgutil.")]
    con = "%s::loads-what-the-filter-admits" % lc.key
    if not walkers:
        raise AnalysisError("C19.a: load_commands no longer walks the library package with pkgutil")
    for n, q in walkers:
        rec = q == "pkgutil.walk_packages"
        if not rec:
            # a listing of direct children is complete when the loop recurses into each child
            for lp in [x for x in own_nodes(lc.node) if isinstance(x, ast.For) and any(n is y for y in ast.walk(x.iter))]:
                if any(isinstance(c, ast.Call) and isinstance(c.func, ast.Attribute) and c.func.attr == "load_commands" for st in lp.body for c in ast.walk(st)):
                    rec = True
        ctx.ob("C19.a", con, K.rel(lc), n.lineno, rec, "the whole package tree is walked (walk_packages), matching the `lib.` prefix of the selection" if rec else
               "%s lists only the direct children of the package, while the selection admits every module under `lib.`: commands of a nested sub-package are offered only if some earlier program happened to load them" % q)
    # what is loaded does not depend on what the process imported before: the loader never consults the import cache
    con = "%s::independent-of-import-history" % lc.key
    hist = []
    for f_ in K.helper_closure(idx, lc) + [g_ for g_ in K.helper_closure(idx, init) if g_ is not lc]:
        temp_ = _temporary_registration(idx, f_, f_.node)
        for n in own_nodes(f_.node):
            if isinstance(n, ast.Attribute) and (idx.qualname(f_.module, n, f_) or "") in ("sys.modules", "sys.meta_path", "sys.path_importer_cache"):
                if id(n) in temp_ or any(id(p_) in temp_ for p_ in ast.walk(f_.node) if isinstance(p_, (ast.Assign, ast.Delete)) and any(n is y for y in ast.walk(p_))):
                    continue  # the loader's own temporary entry (C19.e answers for it)
                hist.append((f_, n))
    rec_ = completed_loads_record(idx, prog) if hist else None
    if hist and rec_ is not None and all(f_ is lc for f_, n in hist):
        ctx.hold("C19.a", con, K.rel(lc), hist[0][1].lineno, "sys.modules is consulted only to compare its entry by identity with `%s`, a record written after a complete load of that very module: a skipped library has been walked in this process, and the registry only grows" % rec_)
    elif hist:
        f_, n = hist[0]
        ctx.violate("C19.a", con, K.rel(f_), n.lineno, "`%s` is consulted while loading: a library (package) that some earlier import already put there is treated as loaded although importing a package does not import its command modules, so which commands a program offers depends on what the process imported before" % K.src(n))
    else:
        ctx.hold("C19.a", con, K.rel(lc), lc.node.lineno, "the loader never reads sys.modules: every requested library is walked on every construction", nontrivial=False)
    # ---- b
    cfg = K.cfg_of(idx, init)
    stores = cfg.find("store", lambda n: n.meta.get("attr") == "command_library" and self_attr(n.ast, sn))
    if stores and prog.attrs.get("command_library") is not None:
        v0 = stores[0].meta.get("value")
        if isinstance(v0, ast.Call) and ((K.src(v0.func) in ("dict", "copy.copy", "copy.deepcopy") and v0.args and K.src(v0.args[0]).endswith(".command_library")) or (isinstance(v0.func, ast.Attribute) and v0.func.attr == "copy" and K.src(v0.func.value).endswith(".command_library"))):
            raise AnalysisError("C19.b: the program's lookup starts as a per-instance copy of a class-level `command_library` and is then filled; whether the class-level table is ever written to (by a subclass, or through an instance that skipped the copy) is not decided")
    if not stores:
        shared = prog.attrs.get("command_library")
        muts = [n for n in own_nodes(init.node) if (isinstance(n, ast.Call) and isinstance(n.func, ast.Attribute) and n.func.attr in ("update", "setdefault", "__setitem__") and K.src(n.func.value) == "%s.command_library" % sn)
                or (isinstance(n, ast.Assign) and any(isinstance(t, ast.Subscript) and K.src(t.value) == "%s.command_library" % sn for t in n.targets))]
        if shared is not None and muts:
            ctx.violate("C19.c", "%s::lookup-store" % init.key, K.rel(init), muts[0].lineno, "`%s` fills the class-level `command_library` instead of giving the program a table of its own: every Program in the process adds to - and resolves names in - the same dict, so a program sees the commands of libraries only OTHER programs requested (and `Program(libraries=())` is not empty after any other construction)" % K.src(muts[0])[:60])
            raise AnalysisError("C19.b: the per-program lookup is not assigned in Program.__init__ (see the C19.c violation)")
        raise AnalysisError("C19.b: store of the command lookup not found in Program.__init__")
    raises = [r for r in cfg.find("raise")]
    con = "%s::duplicate-gate" % init.key
    dup_tests = [t for t in cfg.find("test") if any(cfg.dominates(t, r) for r in raises) and not t.meta.get("in_comp")]
    ok = False
    why = "no duplicate-name test raising an error precedes the store of the lookup"
    for t in dup_tests:
        nm = t.ast.id if isinstance(t.ast, ast.Name) else None
        if nm is None and isinstance(t.ast, ast.BoolOp) and isinstance(t.ast.op, ast.And) and any(isinstance(v_, ast.Name) for v_ in t.ast.values):
            cand = [v_.id for v_ in t.ast.values if isinstance(v_, ast.Name)][0]
            dsrc = " ".join(K.src(n.value) for n in own_nodes(init.node) if isinstance(n, ast.Assign) and any(isinstance(x, ast.Name) and x.id == cand for x in n.targets))
            if "Counter(" in dsrc or ".count(" in dsrc:
                _extra_condition(init, cand, [v_ for v_ in t.ast.values if not (isinstance(v_, ast.Name) and v_.id == cand)])
                raise AnalysisError("C19.b: the duplicate test `%s` is combined with a further condition (`%s`) before the raise: cannot decide whether duplicated names always reach it" % (cand, K.src(t.ast)))
        if nm is None:
            continue
        # the tested name must be computed from a Counter / count of command names > 1
        defs = [n for n in own_nodes(init.node) if isinstance(n, ast.Assign) and any(isinstance(x, ast.Name) and x.id == nm for x in n.targets)]
        src = " ".join(K.src(d.value) for d in defs)
        counted = ("Counter(" in src or ".count(" in src) and ("> 1" in src or ">= 2" in src or "!= 1" in src)
        # the names counted must be the keys the lookup is built with
        keyexprs = []
        for dd in defs:
            for c in ast.walk(dd.value):
                if isinstance(c, ast.Call) and K.src(c.func) == "Counter" and c.args and isinstance(c.args[0], (ast.GeneratorExp, ast.ListComp)):
                    g0 = c.args[0]
                    elt_ = g0.elt
                    if isinstance(elt_, ast.Call) and isinstance(elt_.func, ast.Name) and elt_.func.id == "getattr" and len(elt_.args) >= 2 and isinstance(elt_.args[1], ast.Constant) and isinstance(elt_.args[1].value, str):
                        # getattr(x, "name", default): the attribute itself wherever it exists (CommandMeta sets `name` on every command class)
                        elt_ = ast.Attribute(value=elt_.args[0], attr=elt_.args[1].value, ctx=ast.Load())
                    keyexprs.append(K.src(elt_).replace(g0.generators[0].target.id + ".", "$.", 1) if isinstance(g0.generators[0].target, ast.Name) else K.src(elt_))
        svv = stores[0].meta.get("value")
        lookup_key = None
        if isinstance(svv, ast.DictComp) and isinstance(svv.generators[0].target, ast.Name):
            lookup_key = K.src(svv.key).replace(svv.generators[0].target.id + ".", "$.", 1)
        if counted and keyexprs and lookup_key and not any(k == lookup_key for k in keyexprs):
            counted = False
            why = "duplicates are counted by `%s` but the lookup is keyed by `%s`: two classes with the same command name are not detected (and distinct commands can be rejected)" % (keyexprs[0].replace("$", "c"), lookup_key.replace("$", "c"))
            continue
        truthy = [m for m, l in t.succ if l == "true"]
        if counted and truthy and all(cfg.must_pass_through(m, cfg.exit, set(raises)) for m in truthy) and all(cfg.dominates(t, s) for s in stores):
            ok = True
            why = "`if %s: raise` (names counted more than once) dominates the store of the lookup" % nm
        elif counted and truthy and all(cfg.dominates(t, s) for s in stores) and [t2 for t2 in cfg.find("test") if t2 is not t and not t2.meta.get("in_comp") and cfg.dominates(t, t2) and any(cfg.dominates(t2, r_) for r_ in raises)]:
            truthy = [t2 for t2 in cfg.find("test") if t2 is not t and not t2.meta.get("in_comp") and cfg.dominates(t, t2) and any(cfg.dominates(t2, r_) for r_ in raises)]
            verdict_ = _extra_condition(init, nm, [t2.ast for t2 in truthy])
            if verdict_ is True:
                ok = True
                why = "`if %s and <more than one entry counted>: raise` dominates the store of the lookup (the second condition follows from the first)" % nm
                continue
            if verdict_ is False:
                ok = False
                why = "the duplicate test `%s` only raises under the further condition `%s`, which can be false while command names are duplicated (a single library - a package - can define one name twice): the clash then goes unreported and one class silently shadows the other" % (nm, truthy[0].text())
                break
            # `if duplicates and <something else>: raise`: whether the second condition can be false while names are duplicated is
            # not something this rule can read off the code
            raise AnalysisError("C19.b: the duplicate test `%s` is combined with a further condition (`%s`) before the raise: cannot decide whether duplicated names always reach it" % (nm, truthy[0].text()))
        elif not counted and not why.startswith("duplicates are counted"):
            why = "the test `%s` in front of the raise is not computed from a count of command names > 1" % nm
    ctx.ob("C19.b", con, K.rel(init), stores[0].line, ok, why)
    # the lookup is built from the same filtered selection
    sv = stores[0].meta.get("value")
    selname = None
    for n in own_nodes(init.node):
        if isinstance(n, ast.Assign) and n.value is comp and isinstance(n.targets[0], ast.Name):
            selname = n.targets[0].id
        if isinstance(n, ast.AugAssign) and isinstance(n.op, ast.Add) and isinstance(n.target, ast.Name) and any(comp is x for x in ast.walk(n.value)):
            selname = n.target.id  # collected library by library into one list
            # an entry that lies under two requested names (a package and its sub-library, a name given twice) must be collected
            # once, and the registry must be read only after every requested library was loaded
            dedup = any(isinstance(c_, ast.Compare) and len(c_.ops) == 1 and isinstance(c_.ops[0], ast.NotIn) and isinstance(c_.comparators[0], ast.Name) and c_.comparators[0].id == selname for c_ in ast.walk(comp.generators[0].ifs[0])) if comp.generators[0].ifs else False
            in_loading_loop = any(isinstance(lp, ast.For) and any(n is x for x in ast.walk(lp)) and any(isinstance(c_, ast.Call) and isinstance(c_.func, ast.Attribute) and c_.func.attr == "load_commands" for c_ in ast.walk(lp)) for lp in own_nodes(init.node))
            if not dedup:
                ctx.violate("C19.b", "%s::collected-once" % init.key, K.rel(init), n.lineno, "the selection is accumulated library by library (`%s += [...]`) without dropping entries already collected: a command whose module lies under two requested names (a package and its sub-library, a library named twice) is collected twice and then reported as a duplicated command name" % selname)
            elif in_loading_loop:
                ctx.violate("C19.b", "%s::collected-once" % init.key, K.rel(init), n.lineno, "the registry is read inside the loop that loads the libraries: commands that a later library registers under an earlier library's prefix are missed on the first construction and found on the second")
            else:
                ctx.hold("C19.b", "%s::collected-once" % init.key, K.rel(init), n.lineno, "accumulated per library after loading, entries already collected are dropped")
    # every admitted command is COUNTED: between the selection and the duplicate count nothing takes entries out of it again (a
    # second filter that drops "overridden" or "older" entries resolves a clash silently instead of refusing it)
    if selname is not None:
        again = [n for n in own_nodes(init.node) if isinstance(n, ast.Assign) and n.value is not comp and any(isinstance(t_, ast.Name) and t_.id == selname for t_ in n.targets) and selname in K.names_in(n.value)]
        drops = [n for n in own_nodes(init.node) if (isinstance(n, ast.Call) and isinstance(n.func, ast.Attribute) and n.func.attr in ("remove", "pop", "clear") and K.src(n.func.value) == selname)
                 or (isinstance(n, ast.Delete) and any(isinstance(t_, ast.Subscript) and K.src(t_.value) == selname for t_ in n.targets))]
        thin = [n for n in again if any(isinstance(x_, (ast.ListComp, ast.GeneratorExp, ast.SetComp)) and any(g_.ifs for g_ in x_.generators) for x_ in ast.walk(n.value))
                or any(isinstance(x_, ast.Call) and K.src(x_.func) in ("filter", "set", "dict") for x_ in ast.walk(n.value))]
        b_ = (thin + drops)[:1]
        ctx.ob("C19.b", "%s::every-admitted-command-is-counted" % init.key, K.rel(init), b_[0].lineno if b_ else init.node.lineno, not b_,
               "the selection goes to the duplicate count as collected" if not b_ else
               "`%s` takes entries out of the selection before the duplicate names are counted: two requested libraries that define the same command name no longer make the construction fail - one of them is picked silently (and which classes count as `the same` depends on what was imported before)" % K.src(b_[0])[:70])
    ok = sv is not None and selname is not None and selname in K.names_in(sv)
    ctx.ob("C19.b", "%s::lookup-from-selection" % init.key, K.rel(init), stores[0].line, ok,
           "lookup built from the filtered selection `%s`" % selname if ok else "the command lookup is not built from the library-filtered selection")
    # ---- f: who reads the process-wide registry
    ctx.rule("C19.f", "The process-wide registry is read in one place: Program.__init__, filtered by the requested libraries. Any other reader in the package (the EEMS 2.0 conversion, a cleaner, a serialiser) sees every command class the process has ever defined, so what it does depends on what earlier programs loaded.")
    n_rd = 0
    for mod, fi, n in K.scoped_nodes(idx):
        if "/tests/" in mod.rel or mod.name == "mpilot.commands":
            continue
        is_read = (isinstance(n, ast.Call) and isinstance(n.func, ast.Attribute) and n.func.attr == "get_commands") or (isinstance(n, ast.Attribute) and n.attr == "_commands" and isinstance(n.ctx, ast.Load))
        if not is_read:
            continue
        n_rd += 1
        okr = fi is init or (fi is not None and getattr(fi, "cls", None) is prog and fi in K.helper_closure(idx, init))
        ctx.ob("C19.f", "%s::registry-read" % K.where(mod, fi), mod.rel, n.lineno, okr, "read by Program.__init__ (and filtered there)" if okr else
               "`%s` reads the process-wide command registry outside Program.__init__: it sees the commands of every library any earlier program loaded, not the ones this program requested - the same file then loads differently depending on what ran before" % K.src(n)[:50])
    ctx.floor("C19.f", "reads of the process-wide registry", n_rd, 1)
    # ---- c
    meta = idx.cls("mpilot.commands", "CommandMeta")
    new = meta.methods.get("__new__")
    n_mut = 0
    for mod, fi, n in K.scoped_nodes(idx):
        hit = None
        if isinstance(n, ast.Call) and isinstance(n.func, ast.Attribute) and n.func.attr in ("add", "remove", "discard", "clear", "pop", "update", "difference_update", "intersection_update", "symmetric_difference_update") and isinstance(n.func.value, ast.Attribute) and n.func.value.attr == "_commands":
            hit = n.func.attr
        if isinstance(n, (ast.Assign, ast.AugAssign, ast.Delete)):
            tg = n.targets if not isinstance(n, ast.AugAssign) else [n.target]
            for t in tg:
                if isinstance(t, ast.Attribute) and t.attr == "_commands":
                    hit = "assign"
                if isinstance(t, ast.Name) and t.id == "_commands" and fi is None:
                    hit = "classbody"
        if hit is None:
            continue
        n_mut += 1
        con = "%s::registry-%s" % (K.where(mod, fi), hit)
        if hit == "classbody":
            ok = isinstance(n.value, ast.Call) and K.src(n.value) == "set()" or isinstance(n.value, ast.Set)
            ctx.ob("C19.c", con, mod.rel, n.lineno, ok, "registry created empty in the metaclass body", nontrivial=False)
        elif fi is new and hit == "add":
            # keyed by module and name: the add is guarded by a not-any(module == and name ==) test
            keyed = keyed_guard(new.node, n)
            if isinstance(keyed, str):
                ctx.violate("C19.c", con, mod.rel, n.lineno, keyed)
            else:
                ctx.ob("C19.c", con, mod.rel, n.lineno, keyed, "add-only, keyed by (module, command name)" if keyed else "registry add is not keyed by module and command name")
        elif fi is new and hit == "assign" and isinstance(n, ast.Assign) and K.src(n.value).endswith("._commands"):
            ctx.hold("C19.c", con, mod.rel, n.lineno, "class attribute aliases the single registry", nontrivial=False)
        else:
            ctx.violate("C19.c", con, mod.rel, n.lineno, "the process-wide command registry is mutated outside CommandMeta.__new__ or not add-only: %s" % K.src(n))
    ctx.floor("C19.c", "registry mutation/creation sites", n_mut, 2)
    # command_library only assigned in __init__, read only by find_command_class; no module-level caches in program.py
    for mod, fi, n in K.scoped_nodes(idx):
        if isinstance(n, ast.Attribute) and n.attr == "command_library":
            w = K.where(mod, fi)
            if isinstance(n.ctx, ast.Store):
                ok = fi is init
                ctx.ob("C19.c", "%s::lookup-store" % w, mod.rel, n.lineno, ok, "per-instance lookup assigned in __init__" if ok else "the command lookup is reassigned outside Program.__init__")
            else:
                ok = fi is not None and fi.name in ("find_command_class",) and fi.cls is prog
                if not ok and fi is not None and _only_read_by_callee(idx, mod, fi, n):
                    ctx.hold("C19.c", "%s::lookup-read" % w, mod.rel, n.lineno, "the program's own lookup is handed to a function that only reads it (no store, no mutating method, not kept)", nontrivial=False)
                    continue
                ctx.ob("C19.c", "%s::lookup-read" % w, mod.rel, n.lineno, ok, "read through find_command_class" if ok else "the command lookup is read outside find_command_class: %s" % K.src(n), nontrivial=not ok)
    pm = prog.module
    for name, v in pm.consts.items():
        if isinstance(v, (ast.Dict, ast.List, ast.Set)) or (isinstance(v, ast.Call) and K.src(v.func) in ("dict", "list", "set", "OrderedDict", "defaultdict")):
            # a cache of something else (parsed sources, say) is none of this property's business: it counts when a function on the
            # lookup path - Program.__init__, find_command_class, add_command and what they call - touches it
            users = [f_ for f_ in idx.funcs if f_.module is pm and any(isinstance(x_, ast.Name) and x_.id == name for x_ in ast.walk(getattr(f_, "node_orig", None) or f_.node))]
            roots_ = [f_ for f_ in (init, idx.find_method(prog, "find_command_class"), idx.find_method(prog, "add_command")) if f_ is not None]
            path_ = set()
            for r_ in roots_:
                path_ |= {id(x_) for x_ in K.helper_closure(idx, r_)} | {id(r_)}
            on_path = [f_ for f_ in users if id(f_) in path_]
            if users and not on_path:
                ctx.hold("C19.c", "%s::module-cache(%s)" % (pm.rel, name), pm.rel, v.lineno, "module-level `%s` is used by %s only, none of which takes part in the command lookup" % (name, ", ".join(sorted(f_.qualname for f_ in users))[:80]), nontrivial=False)
                continue
            ctx.violate("C19.c", "%s::module-cache(%s)" % (pm.rel, name), pm.rel, v.lineno, "module-level mutable `%s` in program.py can cache lookups across programs" % name)
    for c in [prog]:
        for name, v in c.attrs.items():
            if isinstance(v, (ast.Dict, ast.List, ast.Set)) and name == completed_loads_record(idx, prog):
                ctx.hold("C19.c", "%s::class-cache(%s)" % (pm.rel, name), pm.rel, v.lineno, "`%s` only records libraries whose load has completed (see C19.a); it holds no commands and no lookups" % name)
            elif isinstance(v, (ast.Dict, ast.List, ast.Set)) and _holds_loaded_modules(idx, prog, name):
                _UNDECIDED.append("C19.c: `%s` on Program keeps modules loaded from a file under a computed name (the interpreter's module cache, re-made); whether that name separates every pair of requests is not decided" % name)
            elif isinstance(v, (ast.Dict, ast.List, ast.Set)):
                ctx.violate("C19.c", "%s::class-cache(%s)" % (pm.rel, name), pm.rel, v.lineno, "class-level mutable `%s` on Program is shared by every program in the process" % name)
    # find_command_class returns a lookup in the per-instance table only
    fcc = prog.methods.get("find_command_class")
    if fcc is None:
        raise AnalysisError("find_command_class vanished")
    rets = [n for n in own_nodes(fcc.node) if isinstance(n, ast.Return)]
    ok = len(rets) == 1 and K.src(rets[0].value).startswith("%s.command_library" % K.self_name(fcc))
    ctx.ob("C19.c", "%s::per-instance" % fcc.key, K.rel(fcc), fcc.node.lineno, ok, "resolves names in the per-instance lookup only" if ok else "find_command_class consults something other than the per-instance lookup: %s" % (K.src(rets[0].value) if rets else "no return"))
    if _UNDECIDED:
        msg = _UNDECIDED[0]
        del _UNDECIDED[:]
        raise AnalysisError(msg)
