"""C17 — CSV reading and writing: parameter domains, dtype/mask flow, line arithmetic, order, lossless write path."""
import ast

from engine.arrays import Arr
from engine.index import own_nodes
from engine.report import AnalysisError

from . import arrayrules as R
from . import common as K
from . import iorules


def counter_form(ctx, idx, d, fi, cfg, nexts, con):
    """the row loop keeps its own line counter: returns the row-subscript CFG nodes after recording the obligations, or None"""
    heads = []
    for h in cfg.find("iter"):
        if h.meta.get("comp") or not isinstance(h.meta["target"], ast.Name):
            continue
        it = K.expand(fi, h.meta["iter"])
        q = idx.qualname(fi.module, it.func, fi) if isinstance(it, ast.Call) and isinstance(it.func, (ast.Name, ast.Attribute)) else None
        if q == "csv.reader" or (isinstance(h.meta["iter"], ast.Name) and any(isinstance(n_, ast.Assign) and any(isinstance(t_, ast.Name) and t_.id == h.meta["iter"].id for t_ in n_.targets) and isinstance(n_.value, ast.Call) and (idx.qualname(fi.module, n_.value.func, fi) or "") == "csv.reader" for n_ in own_nodes(fi.node))):
            heads.append(h)
    if not heads:
        return None
    h = heads[0]
    rowvar = h.meta["target"].id
    firsts = [m for m, l in h.succ if l == "loop"]
    body = cfg.reachable(firsts, avoid={h})
    augs = [n for n in body if n.kind == "aug" and isinstance(n.ast.target, ast.Name) and isinstance(n.ast.op, ast.Add) and isinstance(n.ast.value, ast.Constant) and n.ast.value.value == 1]
    rz = [n for n in body if n.kind == "raise" and (n.meta.get("qual") or "").endswith("InvalidDataFile")]
    if not augs or not rz:
        return None
    a = augs[0]
    var = a.ast.target.id
    inits = [n_.value for n_ in own_nodes(fi.node) if isinstance(n_, ast.Assign) and any(isinstance(t_, ast.Name) and t_.id == var for t_ in n_.targets)]
    if len(inits) != 1 or not isinstance(inits[0], ast.Constant) or not isinstance(inits[0].value, int):
        return None
    c0 = inits[0].value
    consumed = len([n for n in nexts if cfg.dominates(n, h)])
    every = all(cfg.must_pass_through(b, h, {a}) for b in firsts)
    before = all(cfg.dominates(a, r_) for r_ in rz)
    # the expression reported: the counter itself or counter +/- constant, inside the raise
    k = None
    for r_ in rz:
        for x in ast.walk(r_.ast):
            if isinstance(x, ast.BinOp) and isinstance(x.op, (ast.Add, ast.Sub)) and isinstance(x.left, ast.Name) and x.left.id == var and isinstance(x.right, ast.Constant):
                k = x.right.value if isinstance(x.op, ast.Add) else -x.right.value
        if k is None and any(isinstance(x, ast.Name) and x.id == var for x in ast.walk(r_.ast)):
            k = 0
    if k is None:
        ctx.violate("C17.c", con, d.module.rel, rz[0].line, "the invalid-value error no longer reports a line derived from the row counter")
    elif not every:
        ctx.violate("C17.c", con, d.module.rel, a.line, "the line counter `%s` is not advanced for every row (a blank row skips it): the reported line is too small by the number of blank lines before it" % var)
    else:
        want = consumed - c0 + (0 if before else 1)
        ctx.ob("C17.c", con, d.module.rel, rz[0].line, k == want, "line = %s %+d with %s starting at %d, advanced once per row (%d header row(s) consumed)" % (var, k, var, c0, consumed) if k == want else
               "the reported line is %s %+d but the file line of that row is %s %+d (%s starts at %d, %d header row consumed)" % (var, k, var, want, var, c0, consumed))
    subs = [n for n in cfg.find("sub") if isinstance(n.ast.value, ast.Name) and n.ast.value.id == rowvar]
    guards = [t for t in cfg.find("test") if isinstance(K.expand(fi, t.ast), ast.Name) and K.expand(fi, t.ast).id == rowvar or (isinstance(t.ast, ast.UnaryOp) and isinstance(t.ast.operand, ast.Name) and t.ast.operand.id == rowvar)]
    ok = bool(subs) and bool(guards) and all(any(cfg.dominates(g, s_) for g in guards) for s_ in subs)
    if not ok and subs:
        ok = _empty_row_reaches(cfg, fi, h, rowvar, set(subs)) is None
    if subs and _empty_row_reaches(cfg, fi, h, rowvar, set(subs), model="blanks") is None:
        ctx.violate("C17.c", "%s.execute::separator-only-rows" % d.key, d.module.rel, subs[0].line, "a line made of separators only (`,,`: a row of empty cells) never reaches `%s[...]`: it is skipped like a blank line instead of being reported as an invalid (empty) cell with its line, and the rows after it move up" % rowvar)
    ctx.ob("C17.c", "%s.execute::blank-rows" % d.key, d.module.rel, subs[0].line if subs else h.line, ok, "blank rows are skipped before the row is indexed" if ok else "a blank line reaches `%s[...]` and fails with IndexError instead of being skipped" % rowvar)
    return subs


def reader_source(ctx, idx, d, rule="C17.f"):
    """What the CSV reader parses is the file as it is now, line terminators included."""
    fi = d.execute
    con = "%s.execute::reads-the-file" % d.key
    uses = K.state_uses(idx, fi)
    cfg = K.cfg_of(idx, fi)
    opens = cfg.find("call", lambda n: n.meta.get("qual") in ("builtins.open", "io.open", "codecs.open"))
    if uses and K.state_is_content_checked(idx, fi, uses):
        raise AnalysisError("%s: the reader keeps module-level state `%s` but compares it with the text it has just read before reusing it (a content-validated cache): cannot decide whether the validation is complete" % (rule, uses[0][2][1]))
    if uses:
        f_, n_, (m_, nm_) = uses[0]
        ctx.violate(rule, con, d.module.rel, n_.lineno, "the rows come through module-level state `%s.%s` kept between executions: a file changed since it was first read (rewritten by EEMSWrite, edited) is read back with its old content" % (m_, nm_))
    elif not opens:
        raise AnalysisError("%s: no open() call found in the CSV reader" % rule)
    else:
        rets = cfg.find("return")
        skipping = [r_ for r_ in rets if r_ in cfg.reachable([cfg.entry], avoid=set(opens))]
        ctx.ob(rule, con, d.module.rel, opens[0].line, not skipping, "the file is opened on every path to a return, and no state outlives the call" if not skipping else
               "a return at line %s can be reached without opening the file: the values then come from somewhere else than the file's current content" % skipping[0].line)
    # the line source handed to csv.reader keeps the terminators: csv needs them to rebuild a quoted cell that spans lines, and
    # str.splitlines() also splits on \x0b \x0c \x1c-\x1e \x85 \u2028 \u2029, which the csv writer never quotes
    readers = [n for n in own_nodes(fi.node) if isinstance(n, ast.Call) and (idx.qualname(fi.module, n.func, fi) or "") in ("csv.reader", "csv.DictReader") and n.args]
    if not readers:
        raise AnalysisError("%s: no csv.reader call found in the CSV reader" % rule)
    for rd_ in readers:
        src_e = K.expand(fi, rd_.args[0])
        bad = None
        in_filter = {id(y) for c_ in ast.walk(src_e) if isinstance(c_, (ast.GeneratorExp, ast.ListComp)) for g_ in c_.generators for t_ in g_.ifs for y in ast.walk(t_)}
        for x in ast.walk(src_e):
            if id(x) in in_filter:
                continue  # a test that drops whole lines (blank ones) does not change the lines that are kept
            if isinstance(x, ast.Call) and isinstance(x.func, ast.Attribute):
                if x.func.attr == "splitlines":
                    keep = (x.args and isinstance(x.args[0], ast.Constant) and x.args[0].value is True) or any(k.arg == "keepends" and isinstance(k.value, ast.Constant) and k.value.value is True for k in x.keywords)
                    if not keep:
                        bad = x
                elif x.func.attr in ("split", "rsplit", "strip", "rstrip", "partition"):
                    bad = x
        ctx.ob(rule, "%s.execute::line-source" % d.key, d.module.rel, rd_.lineno, bad is None, "csv.reader is fed `%s`: the file's own lines with their terminators" % K.src(src_e)[:50] if bad is None else
               "csv.reader is fed `%s`: `%s` drops the line terminators (and splits on more characters than the writer treats as line ends), so a quoted cell spanning lines is glued together wrongly and a cell containing such a character breaks the row apart" % (K.src(src_e)[:50], K.src(bad)[-30:]))


def _empty_row_reaches(cfg, fi, head, rowvar, subs, model="empty"):
    """Can a subscript of `rowvar` be reached from the loop head when the row is the empty list (model "empty"), or a row of two
    empty cells `["", ""]` (model "blanks": a line of separators only)?  Tests on the row are decided for that row (truthiness, len
    comparisons, any/all, comparison with []); every other test is taken both ways."""
    n_ = 0 if model == "empty" else 2

    def decide(e):
        e = K.expand(fi, e)
        if isinstance(e, ast.UnaryOp) and isinstance(e.op, ast.Not):
            r = decide(e.operand)
            return None if r is None else not r
        if isinstance(e, ast.Name) and e.id == rowvar:
            return n_ > 0
        if isinstance(e, ast.Call) and isinstance(e.func, ast.Name) and len(e.args) == 1 and isinstance(e.args[0], ast.Name) and e.args[0].id == rowvar:
            return {"any": False, "all": n_ == 0, "bool": n_ > 0, "len": None}.get(e.func.id)
        if isinstance(e, ast.Compare) and len(e.ops) == 1:
            l, r, op = e.left, e.comparators[0], e.ops[0]
            def islen(x):
                return isinstance(x, ast.Call) and isinstance(x.func, ast.Name) and x.func.id == "len" and len(x.args) == 1 and isinstance(x.args[0], ast.Name) and x.args[0].id == rowvar
            if islen(l) and isinstance(r, ast.Constant) and isinstance(r.value, int):
                return {ast.Gt: n_ > r.value, ast.GtE: n_ >= r.value, ast.Lt: n_ < r.value, ast.LtE: n_ <= r.value, ast.Eq: n_ == r.value, ast.NotEq: n_ != r.value}.get(type(op))
            if islen(r) and isinstance(l, ast.Constant) and isinstance(l.value, int):
                return {ast.Gt: l.value > n_, ast.GtE: l.value >= n_, ast.Lt: l.value < n_, ast.LtE: l.value <= n_, ast.Eq: l.value == n_, ast.NotEq: l.value != n_}.get(type(op))
            if isinstance(l, ast.Name) and l.id == rowvar and isinstance(r, (ast.List, ast.Tuple)) and not r.elts:
                return (n_ == 0) if isinstance(op, ast.Eq) else (n_ != 0) if isinstance(op, ast.NotEq) else None
        return None

    seen, work = set(), [m for m, lab in head.succ if lab == "loop"]
    while work:
        n = work.pop()
        if n in seen or n is head:
            continue
        seen.add(n)
        if n in subs:
            return n
        verdict = decide(n.ast) if n.kind == "test" else None
        for m, lab in n.succ:
            if lab == "exc":
                continue
            if verdict is not None and lab in ("true", "false") and (lab == "true") != verdict:
                continue
            work.append(m)
    return None



def _fixed_dialects(idx, fi, name, depth=0):
    """every binding of local `name` is a fixed csv dialect (csv.excel, csv.excel_tab, ..., a class of the module derived from one
    with constant attributes) or an element of a local collection of such: the set of their names; None when anything else is bound"""
    out = set()

    def dialect_of(e):
        q = idx.qualname(fi.module, e, fi) or ""
        if q in ("csv.excel", "csv.excel_tab", "csv.unix_dialect"):
            return {q}
        r = idx.resolve(fi.module, e, fi) if isinstance(e, (ast.Name, ast.Attribute)) else None
        if r is not None and r[0] == "class":
            ci = r[1]
            bases = [idx.qualname(ci.module, b, None) or K.src(b) for b in ci.node.bases]
            if bases and all(b in ("csv.excel", "csv.excel_tab", "csv.unix_dialect", "csv.Dialect") for b in bases) and all(isinstance(v, ast.Constant) for v in ci.attrs.values()):
                return {ci.qual}
        return None

    def collection_of(e, d=0):
        if isinstance(e, (ast.Tuple, ast.List)):
            got = set()
            for x in e.elts:
                dx = dialect_of(x)
                if dx is None:
                    return None
                got |= dx
            return got
        if isinstance(e, (ast.ListComp, ast.GeneratorExp)) and len(e.generators) == 1 and isinstance(e.elt, ast.Name) and isinstance(e.generators[0].target, ast.Name) and e.elt.id == e.generators[0].target.id:
            return collection_of(e.generators[0].iter, d + 1)
        if isinstance(e, ast.Name) and d < 3:
            defs = [n.value for n in own_nodes(fi.node) if isinstance(n, ast.Assign) and any(isinstance(t, ast.Name) and t.id == e.id for t in n.targets)]
            if len(defs) == 1:
                return collection_of(defs[0], d + 1)
        return None

    stores = [t for t in ast.walk(fi.node) if isinstance(t, ast.Name) and t.id == name and isinstance(t.ctx, ast.Store)]
    defs = [n for n in ast.walk(fi.node) if isinstance(n, ast.Assign) and len(n.targets) == 1 and isinstance(n.targets[0], ast.Name) and n.targets[0].id == name]
    comps = [g for n in ast.walk(fi.node) if isinstance(n, (ast.ListComp, ast.GeneratorExp, ast.SetComp)) for g in n.generators if isinstance(g.target, ast.Name) and g.target.id == name]
    if not stores or len(stores) != len(defs) + len(comps):
        return None
    for g in comps:
        dv = collection_of(g.iter)
        if dv is None:
            return None
        out |= dv
    for n in defs:
        v = n.value
        dv = dialect_of(v)
        if dv is None and isinstance(v, ast.Subscript):
            dv = collection_of(v.value)
        if dv is None:
            return None
        out |= dv
    return out


def run(ctx, idx):
    ctx.assume("csv.reader yields one list per physical row for unquoted numeric data; blank lines yield empty lists")
    ctx.rule("C17.a", "Parameters mean what they clean to: every kwargs.get default and every literal compared with a cleaned parameter lies in the cleaned domain of its declared type (a DataType cleans to a type object).")
    ctx.rule("C17.b", "The requested element type and missing value reach the array: the returned array's constructor dtype flows from the DataType parameter; the mask assigned flows from data == MissingVal and is stored on the returned array.")
    ctx.rule("C17.c", "Error line arithmetic: the reported line is index + (header rows consumed) + 1 - enumerate_start; blank rows are skipped by a guard that dominates the row subscript.")
    ctx.rule("C17.d", "Order: the header and the columns derive from the same sequence without reordering.")
    ctx.rule("C17.e", "Lossless write path: no rounding, precision formatting or narrowing cast between the result arrays and writer.writerows.")
    res = R.results(idx)
    rd = res.get("mpilot/libraries/eems/csv/io.py::EEMSRead")
    wr = res.get("mpilot/libraries/eems/csv/io.py::EEMSWrite")
    if rd is None or wr is None:
        raise AnalysisError("CSV EEMSRead / EEMSWrite vanished")
    ctx.rule("C17.g", "The writer reads every result before it opens its output: evaluation is lazy, so a column read from the very file being written (a table updated in place) must have been read before that file is truncated.")
    iorules.inputs_evaluated_before_open(ctx, idx, "C17.g", wr[0], "a Read of the same file that has not run yet finds an empty table (EmptyDataFile for a valid file), and the file is left holding the header only")
    ctx.rule("C17.h", "Reading returns what the file holds now: the CSV reader and writer use no result cache keyed by path / column (a table rewritten in the same process would come back as its first reading).")
    for d_, _r in (rd, wr):
        memo = K.memoised_helpers(idx, d_.execute)
        ctx.ob("C17.h", "%s.execute::no-result-cache" % d_.key, d_.module.rel, (memo[0][0].node.lineno if memo else d_.execute.node.lineno), not memo,
               "no cached helper on the path" if not memo else "`%s` is cached with `@%s`: a column read once is returned again after the file changed" % (memo[0][0].name, memo[0][1]))
    ctx.rule("C17.j", "The column read is the one whose header IS the requested field name: the header row is searched with the name as given - no case folding or trimming of either side (two headers that differ only by case are distinct result names; folding returns the first of them for both).")
    fi_r = rd[0].execute
    lookups = [n_ for n_ in ast.walk(fi_r.node) if isinstance(n_, ast.Call) and isinstance(n_.func, ast.Attribute) and n_.func.attr == "index" and len(n_.args) == 1]
    FOLD = ("lower", "upper", "casefold", "strip", "lstrip", "rstrip", "title", "capitalize", "replace", "swapcase")
    for n_ in lookups:
        both = K.src(K.expand(fi_r, n_.func.value)) + " " + K.src(K.expand(fi_r, n_.args[0]))
        if "InFieldName" not in both and "field" not in both.lower():
            continue
        folded = [m_ for m_ in FOLD if ("." + m_ + "(") in both]
        ctx.ob("C17.j", "%s.execute::header-lookup" % rd[0].key, rd[0].module.rel, n_.lineno, not folded,
               "the header row is searched for the field name as given" if not folded else
               "`%s` compares %s forms of the header names and the field name: of two columns whose names differ only in that respect (`elev` / `Elev`) the first one is returned for both, with its values and its missing cells - and where it is only a fallback of the exact search, a field name that is NOT a header of the file is answered with another column instead of being reported as missing with the file line" % (K.src(n_)[:60], "/".join(folded)))
    ctx.rule("C17.i", "The table format is fixed: csv.reader / csv.writer are given the line source (and constant format options) only - no dialect sniffed from the data, no delimiter computed at run time. A guessed delimiter turns a one-column table of decimals into two columns at the decimal point.")
    n_csv = 0
    undecided_ = []
    for d_, _r in (rd, wr):
        fi_ = d_.execute
        for n_ in ast.walk(fi_.node):
            if not isinstance(n_, ast.Call):
                continue
            q_ = idx.qualname(fi_.module, n_.func, fi_) or K.src(n_.func)
            if q_ in ("csv.Sniffer",) or q_.endswith(".sniff") or q_.endswith("Sniffer"):
                ctx.violate("C17.i", "%s.execute::fixed-format" % d_.key, d_.module.rel, n_.lineno, "`%s`: the separator and quoting are guessed from the file's first lines - a single column of decimals (no comma anywhere) makes the decimal point, a digit or the minus sign the most consistent 'delimiter', and every value is silently cut at it" % K.src(n_)[:60])
                n_csv += 1
            if q_ in ("csv.reader", "csv.writer", "csv.DictReader", "csv.DictWriter"):
                n_csv += 1
                extra = list(n_.args[1:]) + [k.value for k in n_.keywords if k.arg in ("dialect", "delimiter", "quotechar", "escapechar", "quoting", "skipinitialspace", "doublequote")]
                varying = [x_ for x_ in extra if not isinstance(x_, ast.Constant) and not (isinstance(x_, ast.Attribute) and (idx.qualname(fi_.module, x_, fi_) or "").startswith("csv."))]
                if len(varying) == 1 and isinstance(varying[0], ast.Name):
                    # a quoting rule picked from csv's own constants by a test
                    qdefs = [a_.value for a_ in ast.walk(fi_.node) if isinstance(a_, ast.Assign) and len(a_.targets) == 1 and isinstance(a_.targets[0], ast.Name) and a_.targets[0].id == varying[0].id]
                    qset = set()
                    for v_ in qdefs:
                        for alt_ in ([v_.body, v_.orelse] if isinstance(v_, ast.IfExp) else [v_]):
                            q2_ = idx.qualname(fi_.module, alt_, fi_) if isinstance(alt_, (ast.Attribute, ast.Name)) else None
                            qset.add(q2_ if q2_ and q2_.startswith("csv.QUOTE_") else None)
                    if qdefs and None not in qset:
                        if qset == {"csv.QUOTE_MINIMAL"}:
                            varying = []
                        else:
                            undecided_.append("C17.i: `%s` is one of %s, chosen at run time; whether a table the writer produced is always read with the writer's quoting is not decided" % (varying[0].id, sorted(qset)))
                            continue
                if len(varying) == 1 and isinstance(varying[0], ast.Name):
                    choice = _fixed_dialects(idx, fi_, varying[0].id)
                    if choice is not None and len(choice) == 1 and next(iter(choice)) in ("csv.excel",):
                        varying = []
                    elif choice is not None:
                        # one of several fixed formats, picked by a test at run time: the format is not guessed from the data's
                        # characters, but whether the test ever picks another format for a file the writer produced is not decided here
                        undecided_.append("C17.i: `%s` is one of the fixed formats %s, chosen at run time; whether a table the writer produced is always read with the writer's format is not decided" % (varying[0].id, sorted(choice)))
                        continue
                ctx.ob("C17.i", "%s.execute::fixed-format@%s" % (d_.key, q_.split(".")[-1]), d_.module.rel, n_.lineno, not varying,
                       "constant format options" if not varying else "`%s` is given a format (`%s`) decided at run time: the same file may be split differently from what the writer produced" % (K.src(n_)[:50], K.src(varying[0])[:40]))
    ctx.floor("C17.i", "csv reader / writer constructions", n_csv, 2)
    # reader and writer speak the same dialect: whatever format options one is given the other is given too (quoting above all:
    # the writer quotes header names and cells that hold a comma or a quote, and only a reader that processes quotes undoes that)
    opts_ = {}
    for d_, _r in (rd, wr):
        fi_ = d_.execute
        for n_ in ast.walk(fi_.node):
            if isinstance(n_, ast.Call) and (idx.qualname(fi_.module, n_.func, fi_) or K.src(n_.func)) in ("csv.reader", "csv.writer", "csv.DictReader", "csv.DictWriter"):
                o_ = {k.arg: K.src(k.value) for k in n_.keywords if k.arg in ("dialect", "delimiter", "quotechar", "escapechar", "quoting", "skipinitialspace", "doublequote", "lineterminator", "strict")}
                if len(n_.args) > 1:
                    o_["dialect"] = K.src(n_.args[1])
                o_.pop("lineterminator", None) if o_.get("lineterminator") in ("'\\r\\n'", "'\\n'") else None
                opts_.setdefault("reader" if d_ is rd[0] else "writer", []).append((n_, o_))
    if opts_.get("reader") and opts_.get("writer"):
        w_opts = opts_["writer"][0][1]
        for n_, o_ in opts_["reader"]:
            diff_ = sorted(k_ for k_ in set(o_) | set(w_opts) if o_.get(k_) != w_opts.get(k_) and k_ != "lineterminator")
            if any(not isinstance(v_, str) for v_ in o_.values()):
                continue
            con_ = "%s.execute::reader-and-writer-agree" % rd[0].key
            if diff_ and not undecided_:
                ctx.violate("C17.i", con_, rd[0].module.rel, n_.lineno, "the reader is given %s while the writer is given %s: what the writer quotes (a header name or cell holding a comma or a double quote) is not read back as one field - the column is reported missing, or every later field of the row shifts" % (
                    ", ".join("%s=%s" % (k_, o_.get(k_, "<default>")) for k_ in diff_), ", ".join("%s=%s" % (k_, w_opts.get(k_, "<default>")) for k_ in diff_)))
            elif not diff_:
                ctx.hold("C17.i", con_, rd[0].module.rel, n_.lineno, "reader and writer are given the same format options (%s)" % (", ".join(sorted(o_)) or "none: the csv defaults"))
    deferred_ = undecided_[0] if undecided_ else None
    d, r = rd
    n = iorules.param_domains(ctx, idx, "C17.a", d)
    ctx.floor("C17.a", "defaults / comparisons of cleaned parameters", n, 1)
    iorules.constructor_dtype(ctx, idx, "C17.b", d, r)
    # mask from MissingVal on the returned array (shares C03.e's facts)
    miss = [nm for nm, p in d.inputs.items() if p.name == "NumberParameter" and "miss" in nm.lower()]
    good = [(line, t, v) for line, t, v, node, fk in r.maskstores if isinstance(v, Arr) and v.cmp is not None and any(("kw:" + m) in str(v.cmp[2]) for m in miss)]
    rets = R.returns_with_parameter(d, r, miss)
    ok = bool(good) and all(any(t.alias & v.alias for _, t, _ in good) for v in rets)
    eq = all(v.cmp[1] == "Eq" for _, _, v in good) if good else False
    ops = sorted({v.cmp[1] for _, _, v in good})
    ctx.ob("C17.b", "%s.execute::mask-from-missing-value" % d.key, d.module.rel, good[0][0] if good else d.execute.node.lineno, ok and eq,
           "mask = (data == %s) stored on the returned array" % miss[0] if ok and eq else (
               "cells are marked missing by a `%s` comparison with `%s`, not by equality: values merely close to the missing value are masked too" % ("/".join(ops), miss[0]) if ok and not eq else
               "the cells equal to `%s` are not the ones marked missing on the returned array" % (miss[0] if miss else "MissingVal")))
    R.zero_is_a_value(ctx, "C17.b", d, r)
    ctx.rule("C17.f", "Reading parses the file as it is now: the reader opens the file on every path to a return and keeps no state between executions; csv.reader is fed the file's own lines, terminators included.")
    reader_source(ctx, idx, d)
    # ---- c
    fi = d.execute
    cfg = K.cfg_of(idx, fi)
    nexts = cfg.find("call", lambda n: n.meta.get("qual") == "builtins.next")
    heads = [h for h in cfg.find("iter") if not h.meta.get("comp") and isinstance(h.meta["iter"], ast.Call) and isinstance(h.meta["iter"].func, ast.Name) and h.meta["iter"].func.id == "enumerate"]
    con = "%s.execute::error-line" % d.key
    if not heads:
        # an explicit line counter instead of enumerate(): `n = c0` before the loop over the reader, `n += 1` once per row
        done = counter_form(ctx, idx, d, fi, cfg, nexts, con)
        if done is None:
            raise AnalysisError("C17.c: neither an enumerate loop nor a line-counter loop over the rows was found")
        heads = None
    subs = done if heads is None else []
    if heads is not None:
        h = heads[0]
        en = h.meta["iter"]
        start = 0
        if len(en.args) > 1 and isinstance(en.args[1], ast.Constant):
            start = en.args[1].value
        for k in en.keywords:
            if k.arg == "start" and isinstance(k.value, ast.Constant):
                start = k.value.value
        consumed = len([n for n in nexts if cfg.dominates(n, h)])
        ivar = h.meta["target"].elts[0].id if isinstance(h.meta["target"], ast.Tuple) else None
        rowvar = h.meta["target"].elts[1].id if isinstance(h.meta["target"], ast.Tuple) else None
        exprs = []
        for n in own_nodes(fi.node):
            if isinstance(n, ast.BinOp) and isinstance(n.op, (ast.Add, ast.Sub)) and isinstance(n.left, ast.Name) and n.left.id == ivar and isinstance(n.right, ast.Constant):
                exprs.append((n, n.right.value if isinstance(n.op, ast.Add) else -n.right.value))
            elif isinstance(n, ast.Name) and n.id == ivar and isinstance(n.ctx, ast.Load):
                pass
        want = consumed + 1 - start
        en_arg = en.args[0] if en.args else None
        filtered_src = None
        if isinstance(en_arg, (ast.GeneratorExp, ast.ListComp)) and en_arg.generators[0].ifs:
            filtered_src = en_arg
        if isinstance(en_arg, ast.Name):
            for n in own_nodes(fi.node):
                if isinstance(n, ast.Assign) and any(isinstance(t, ast.Name) and t.id == en_arg.id for t in n.targets):
                    if isinstance(n.value, (ast.GeneratorExp, ast.ListComp)) and n.value.generators[0].ifs:
                        filtered_src = n.value
                    elif isinstance(n.value, ast.Call) and isinstance(n.value.func, ast.Name) and n.value.func.id == "filter":
                        filtered_src = n.value
        bare = [n for n in own_nodes(fi.node) if isinstance(n, ast.Call) and isinstance(n.func, ast.Attribute) and n.func.attr == "format" and any(isinstance(a, ast.Name) and a.id == ivar for a in n.args)]
        if bare:
            exprs.append((bare[0], 0))
        if filtered_src is not None and exprs:
            ctx.violate("C17.c", con, d.module.rel, h.line, "rows are numbered after blank rows have been filtered out (`%s`): the reported line is too small by the number of blank lines before it" % K.src(filtered_src)[:60])
        elif not exprs:
            ctx.violate("C17.c", con, d.module.rel, h.line, "the invalid-value error no longer reports a line derived from the row index")
        else:
            node, k = exprs[0]
            ctx.ob("C17.c", con, d.module.rel, node.lineno, k == want, "line = %s + %d (%d header row(s) consumed, enumerate starts at %d)" % (ivar, k, consumed, start) if k == want else
                   "the reported line is %s %+d but the file line of row %s is %s %+d (%d header row consumed, enumerate starts at %d)" % (ivar, k, ivar, ivar, want, consumed, start))
        subs = [n for n in cfg.find("sub") if isinstance(n.ast.value, ast.Name) and n.ast.value.id == rowvar]
        guards = [t for t in cfg.find("test") if isinstance(t.ast, ast.Name) and t.ast.id == rowvar]
        ok = bool(subs) and bool(guards) and all(any(cfg.dominates(g, s) and s not in cfg.reachable([m for m, l in g.succ if l == "false"], avoid={g, h}) for g in guards) for s in subs)
        if filtered_src is not None and bool(subs):
            ok = True  # blank rows are removed by the filtering iterable itself
        if not ok and subs:
            ok = _empty_row_reaches(cfg, fi, h, rowvar, set(subs)) is None
        if subs and _empty_row_reaches(cfg, fi, h, rowvar, set(subs), model="blanks") is None:
            ctx.violate("C17.c", "%s.execute::separator-only-rows" % d.key, d.module.rel, subs[0].line, "a line made of separators only (`,,`: a row of empty cells) never reaches `%s[...]`: it is skipped like a blank line instead of being reported as an invalid (empty) cell with its line, and the rows after it move up" % rowvar)
        ctx.ob("C17.c", "%s.execute::blank-rows" % d.key, d.module.rel, subs[0].line if subs else h.line, ok, "blank rows are skipped before the row is indexed" if ok else "a blank line reaches `%s[...]` and fails with IndexError instead of being skipped" % rowvar)
    # every numeric spelling is read: the cell text goes through float() (int('2.0') / int('1e3') are ValueErrors)
    parents = {}
    for n in ast.walk(fi.node):
        for c in ast.iter_child_nodes(n):
            parents[id(c)] = n
    n_parse = 0
    for sn_ in subs:
        p_ = sn_.ast
        call = None
        while id(p_) in parents:
            q = parents[id(p_)]
            if isinstance(q, ast.Call) and p_ in q.args:
                call = q
                if not (isinstance(q.func, ast.Attribute) and q.func.attr in ("strip", "replace", "lstrip", "rstrip")):
                    break
            elif isinstance(q, ast.Attribute):
                pass
            else:
                break
            p_ = q
        if call is None:
            continue
        n_parse += 1
        fexp = K.expand(fi, call.func)
        qn = idx.qualname(fi.module, fexp, fi) if isinstance(fexp, (ast.Name, ast.Attribute)) else None
        okp = qn in ("builtins.float", "numpy.float64", "numpy.double")
        ctx.ob("C17.c", "%s.execute::cell-parse" % d.key, d.module.rel, call.lineno, okp, "cells are parsed with float()" if okp else
               "cells are parsed with `%s`, not float(): for an integer element type a numeric cell written `2.0` or `1e3` (as EEMSWrite itself writes integer columns next to float ones) is rejected as an invalid value" % K.src(fexp)[:60])
    ctx.floor("C17.c", "cell parsing calls", n_parse, 1)
    # a cell that is not a number is REPORTED: the handler of the parse's ValueError leaves by raising on every path - one that
    # appends a stand-in (the missing value for an empty cell) and goes on turns a malformed table into data
    n_hdl = 0
    for tr_ in [n for n in ast.walk(fi.node) if isinstance(n, ast.Try)]:
        if not any(isinstance(c_, ast.Call) and K.src(c_.func) in ("float", "int", "numpy.float64") for b_ in tr_.body for c_ in ast.walk(b_)):
            continue
        for h_ in tr_.handlers:
            hs_ = K.src(h_.type) if h_.type is not None else ""
            if not (h_.type is None or "ValueError" in hs_ or hs_ in ("Exception", "BaseException")):
                continue
            n_hdl += 1

            def _always_raises(stmts):
                for st in stmts:
                    if isinstance(st, ast.Raise):
                        return True
                    if isinstance(st, ast.If) and st.orelse and _always_raises(st.body) and _always_raises(st.orelse):
                        return True
                    if isinstance(st, (ast.Continue, ast.Break, ast.Return)):
                        return False
                    if isinstance(st, ast.If) and any(isinstance(x_, (ast.Continue, ast.Break, ast.Return)) for b_ in st.body + st.orelse for x_ in ast.walk(b_)):
                        return False
                return False
            okh = _always_raises(h_.body)
            esc_ = next((x_ for st in h_.body for x_ in ast.walk(st) if isinstance(x_, (ast.Continue, ast.Break, ast.Return))), None)
            ctx.ob("C17.c", "%s.execute::bad-cell-is-reported" % d.key, d.module.rel, h_.lineno, okh, "a cell that does not parse as a number raises InvalidDataFile on every path of the handler" if okh else
                   "the handler of the cell parse can leave without raising (`%s` at line %d): a cell that is not a number - an empty one, say - is replaced by a stand-in and the row goes on as data, instead of being reported with its file line" % (
                       K.src(esc_)[:30] if esc_ is not None else "falls through", esc_.lineno if esc_ is not None else h_.lineno))
    ctx.floor("C17.c", "handlers of the cell parse", n_hdl, 1)
    # ---- d, e (writer)
    d, r = wr
    fi = d.execute
    kw = fi.node.args.kwarg.arg
    seqs = {}
    comps = [n for n in own_nodes(fi.node) if isinstance(n, (ast.ListComp, ast.GeneratorExp)) and len(n.generators) == 1]
    header = [c for c in comps if isinstance(c.elt, ast.Attribute) and c.elt.attr == "result_name"]
    cols = [c for c in comps if isinstance(c.elt, ast.Attribute) and c.elt.attr == "result"]
    con = "%s.execute::same-order" % d.key
    if not header and not cols:
        # second form: the (name, values) pairs are built in ONE unfiltered walk of the commands and both the header and the columns are
        # projections of that list: [(c.result_name, c.result) for c in cmds]; [n for n, _ in pairs]; [v for _, v in pairs]
        for pc in comps:
            g_ = pc.generators[0]
            if not (isinstance(pc.elt, ast.Tuple) and isinstance(g_.target, ast.Name) and not g_.ifs):
                continue
            kinds = [x_.attr if (isinstance(x_, ast.Attribute) and isinstance(x_.value, ast.Name) and x_.value.id == g_.target.id) else None for x_ in pc.elt.elts]
            if kinds.count("result_name") != 1 or kinds.count("result") != 1:
                continue
            holder = [st_ for st_ in own_nodes(fi.node) if isinstance(st_, ast.Assign) and st_.value is pc and len(st_.targets) == 1 and isinstance(st_.targets[0], ast.Name)]
            if len(holder) != 1:
                continue
            pname = holder[0].targets[0].id
            if sum(1 for st_ in own_nodes(fi.node) if isinstance(st_, ast.Name) and st_.id == pname and isinstance(st_.ctx, ast.Store)) != 1:
                continue
            for c in comps:
                gg = c.generators[0]
                if isinstance(gg.iter, ast.Name) and gg.iter.id == pname and isinstance(gg.target, ast.Tuple) and len(gg.target.elts) == len(kinds) \
                        and all(isinstance(x_, ast.Name) for x_ in gg.target.elts) and isinstance(c.elt, ast.Name):
                    tn = [x_.id for x_ in gg.target.elts]
                    if tn.count(c.elt.id) == 1:
                        k_ = kinds[tn.index(c.elt.id)]
                        if k_ == "result_name":
                            header.append(c)
                        elif k_ == "result":
                            cols.append(c)
    if not header and cols:
        # the row handed to the first writerow is built from the commands but is not their result names
        wr0 = sorted([n for n in own_nodes(fi.node) if isinstance(n, ast.Call) and isinstance(n.func, ast.Attribute) and n.func.attr == "writerow"], key=lambda n: n.lineno)
        if wr0 and wr0[0].args:
            hx = K.expand(fi, wr0[0].args[0]) if isinstance(wr0[0].args[0], ast.Name) else wr0[0].args[0]
            if isinstance(hx, (ast.ListComp, ast.GeneratorExp)) and len(hx.generators) == 1 and K.src(hx.generators[0].iter) == K.src(cols[0].generators[0].iter) and "result_name" in K.src(hx.elt):
                ctx.violate("C17.d", "%s.execute::header-written" % d.key, d.module.rel, hx.lineno, "the header row is `%s`, not the result names themselves: a column is then labelled with something else than the name its field is read back by (two fields can share a label; the written file does not read back)" % K.src(hx.elt)[:70])
                header = [hx]
    if not header or not cols:
        raise AnalysisError("C17.d: header / column comprehensions not found in the CSV writer")
    hs, cs = K.src(header[0].generators[0].iter), K.src(cols[0].generators[0].iter)
    ok = hs == cs and not header[0].generators[0].ifs and not cols[0].generators[0].ifs
    reorder = [n for n in own_nodes(fi.node) if isinstance(n, ast.Call) and isinstance(n.func, ast.Name) and n.func.id in ("sorted", "reversed", "set")]
    sort_m = [n for n in own_nodes(fi.node) if isinstance(n, ast.Call) and isinstance(n.func, ast.Attribute) and n.func.attr in ("sort", "reverse")]
    ctx.ob("C17.d", con, d.module.rel, header[0].lineno, ok and not reorder and not sort_m, "header and columns both walk `%s` in order" % hs if ok and not reorder and not sort_m else
           "the header walks `%s` but the columns walk `%s`%s: names and data columns can be mismatched" % (hs, cs, " and a reordering call is present" if reorder or sort_m else ""))
    wrow = sorted([n for n in own_nodes(fi.node) if isinstance(n, ast.Call) and isinstance(n.func, ast.Attribute) and n.func.attr == "writerow"], key=lambda n: n.lineno)
    ok = bool(wrow) and any(wrow[0].args and (wrow[0].args[0] is hh or (isinstance(wrow[0].args[0], ast.Name) and K.expand(fi, wrow[0].args[0]) is not None and K.src(K.expand(fi, wrow[0].args[0])) == K.src(hh))) for hh in header)
    ctx.ob("C17.d", "%s.execute::header-written" % d.key, d.module.rel, wrow[0].lineno if wrow else fi.node.lineno, ok, "the header row is the result names, written through the csv writer" if ok else "the header row is not the list of result names handed to the csv writer's writerow: names are then not CSV-quoted (a name containing a comma or a quote shifts every later column) or not written at all")
    lossy = []
    for n in ast.walk(fi.node):  # helpers defined inside execute included (a per-cell conversion function)
        if isinstance(n, ast.Call):
            q = idx.qualname(fi.module, n.func, fi) or K.src(n.func)
            nm = q.split(".")[-1]
            if nm == "savetxt":
                # numpy.savetxt(..., fmt=...): "%s" / "%r" print the shortest text that reads back to the same double, the default
                # "%.18e" and any precision of 17 significant digits or more are exact as well; anything shorter rounds
                fmt_ = next((k.value for k in n.keywords if k.arg == "fmt"), n.args[2] if len(n.args) > 2 else None)
                exact = fmt_ is None
                if isinstance(fmt_, ast.Constant) and isinstance(fmt_.value, str):
                    import re as _re
                    m_ = _re.fullmatch(r"%(?:\.(\d+))?([srgeEfG])", fmt_.value)
                    exact = bool(m_) and (m_.group(2) in "sr" or (m_.group(1) is not None and ((m_.group(2) in "gG" and int(m_.group(1)) >= 17) or (m_.group(2) in "eE" and int(m_.group(1)) >= 16))))
                if not exact:
                    lossy.append((n, "savetxt with a rounding format"))
                elif n.args and len(n.args) > 1 and isinstance(n.args[1], ast.Name) and "astype(str)" in " ".join(K.src(st) for st in own_nodes(fi.node) if isinstance(st, ast.Assign)):
                    pass
                continue
            if nm in ("round", "around", "rint", "astype", "floor", "ceil", "trunc", "float32", "float16", "int", "int32", "int64", "format_float_positional", "format_float_scientific", "array2string"):
                if nm == "astype" and n.args and K.src(n.args[0]) in ("str", "object", "numpy.str_"):
                    continue  # a rendering of each cell as text (str() of a double is its shortest exact text), not a numeric cast
                lossy.append((n, nm))
            if isinstance(n.func, ast.Attribute) and n.func.attr == "format" and isinstance(n.func.value, ast.Constant) and any(x in str(n.func.value.value) for x in (":.", ":e", ":f", ":g", ":d")):
                lossy.append((n, "format spec"))
        if isinstance(n, ast.JoinedStr) and any(isinstance(v, ast.FormattedValue) and v.format_spec is not None for v in n.values):
            lossy.append((n, "format spec"))
        if isinstance(n, ast.BinOp) and isinstance(n.op, ast.Mod) and isinstance(n.left, ast.Constant) and isinstance(n.left.value, str):
            lossy.append((n, "% formatting"))
    # a conversion tested for the exact round trip where it is made: `float(int(v)).hex() == v.hex()` (all 64 bits, the sign of
    # zero included; `float(int(v)) == v` would not do, -0.0 == 0) in the condition of the `if` whose body returns the converted value
    def _exact_round_trip(call):
        if not (isinstance(call.func, ast.Name) and call.func.id == "int" and len(call.args) == 1 and isinstance(call.args[0], ast.Name)):
            return False
        v_ = call.args[0].id
        for if_ in [x for x in ast.walk(fi.node) if isinstance(x, ast.If)]:
            if not any(call is y for st in if_.body for y in ast.walk(st)):
                continue
            conj = if_.test.values if isinstance(if_.test, ast.BoolOp) and isinstance(if_.test.op, ast.And) else [if_.test]
            for t_ in conj:
                if isinstance(t_, ast.Compare) and len(t_.ops) == 1 and isinstance(t_.ops[0], ast.Eq):
                    sides = {K.src(t_.left), K.src(t_.comparators[0])}
                    if sides == {"float(int(%s)).hex()" % v_, "%s.hex()" % v_}:
                        return True
        return False

    guarded_ = {id(n_) for n_, _w in lossy if isinstance(n_, ast.Call) and _exact_round_trip(n_)}
    # (the same conversion inside the round-trip test itself is part of the test, not of what is written)
    lossy = [(n_, w_) for n_, w_ in lossy if id(n_) not in guarded_ and not (guarded_ and isinstance(n_, ast.Call) and K.src(n_) in {K.src(g_) for g_, _ in lossy if id(g_) in guarded_})]
    con = "%s.execute::lossless" % d.key
    wrows = [n for n in own_nodes(fi.node) if isinstance(n, ast.Call) and isinstance(n.func, ast.Attribute) and n.func.attr == "writerows"]
    if not wrows:
        # one writerow per cell row inside a loop over the rows of the transposed stack
        for lp in [n for n in own_nodes(fi.node) if isinstance(n, ast.For)]:
            inner = [c for c in ast.walk(lp) if isinstance(c, ast.Call) and isinstance(c.func, ast.Attribute) and c.func.attr == "writerow"]
            if inner and ("shape[0]" in K.src(lp.iter) or "out_arr" in K.src(lp.iter) or "range(" in K.src(lp.iter)):
                wrows = inner
    if not wrows:
        # the whole table handed to numpy.savetxt in one go
        wrows = [n for n in own_nodes(fi.node) if isinstance(n, ast.Call) and (idx.qualname(fi.module, n.func, fi) or "") == "numpy.savetxt"]
    if lossy:
        ctx.violate("C17.e", con, d.module.rel, lossy[0][0].lineno, "`%s` (%s) sits between the result arrays and the file: written values are no longer the computed doubles" % (K.src(lossy[0][0])[:60], lossy[0][1]))
    elif not wrows:
        ctx.violate("C17.e", con, d.module.rel, fi.node.lineno, "the data rows are never written")
    else:
        ctx.hold("C17.e", con, d.module.rel, wrows[0].lineno, "array cells go to csv.writer unrounded and unformatted")
    # rows come from transposing the stacked arrays: one row per cell, one column per result
    how = None
    line = fi.node.lineno
    for n in own_nodes(fi.node):
        t = K.src(n).replace(" ", "")
        if isinstance(n, ast.Call) and isinstance(n.func, ast.Attribute) and n.func.attr in ("transpose", "swapaxes"):
            a = [K.src(x).replace(" ", "") for x in n.args]
            if n.func.attr == "transpose" and (not a or a in (["[1,0]"], ["(1,0)"], ["1", "0"])) or n.func.attr == "swapaxes" and a in (["0", "1"], ["1", "0"]):
                how, line = "stack of columns transposed (%s)" % K.src(n.func)[-20:], n.lineno
        elif isinstance(n, ast.Attribute) and n.attr == "T" and isinstance(n.ctx, ast.Load):
            how, line = "stack of columns transposed (.T)", n.lineno
        elif isinstance(n, ast.Call) and (idx.qualname(fi.module, n.func, fi) or "") in ("numpy.transpose", "numpy.ma.transpose") and len(n.args) == 1:
            how, line = "stack of columns transposed (numpy.transpose)", n.lineno
        elif isinstance(n, ast.Call) and (idx.qualname(fi.module, n.func, fi) or "").split(".")[-1] in ("column_stack",):
            how, line = "columns joined side by side (column_stack)", n.lineno
        elif isinstance(n, ast.Call) and (idx.qualname(fi.module, n.func, fi) or "").split(".")[-1] == "stack" and any(k.arg == "axis" and K.src(k.value) in ("1", "-1") for k in n.keywords):
            how, line = "columns stacked along axis 1", n.lineno
        elif isinstance(n, ast.Call) and isinstance(n.func, ast.Name) and n.func.id == "zip" and len(n.args) == 1 and isinstance(n.args[0], ast.Starred):
            how, line = "rows taken with zip(*columns)", n.lineno
        elif isinstance(n, ast.Assign) and len(n.targets) == 1 and isinstance(n.targets[0], ast.Subscript) and isinstance(n.targets[0].slice, ast.Tuple) and len(n.targets[0].slice.elts) == 2 \
                and isinstance(n.targets[0].slice.elts[0], ast.Slice) and n.targets[0].slice.elts[0].lower is None and n.targets[0].slice.elts[0].upper is None and isinstance(n.targets[0].slice.elts[1], ast.Name):
            how, line = "table filled column by column (out[:, j] = column)", n.lineno
    # every cell gets its row: nothing between the stack and the file takes rows (or cells) out
    REMOVERS = {"compress_rows", "compress_cols", "compress_rowcols", "compressed", "mask_rows", "delete", "unique", "dropna", "compress", "extract", "trim_zeros"}
    for n in ast.walk(fi.node):
        if isinstance(n, ast.Call):
            nm_ = (idx.qualname(fi.module, n.func, fi) or K.src(n.func)).split(".")[-1]
            if nm_ in REMOVERS:
                ctx.violate("C17.d", "%s.execute::every-cell-has-its-row" % d.key, d.module.rel, n.lineno, "`%s` takes rows out of the table before it is written: a row in which one field is missing disappears for every field, the rows after it move up, and a column read back has fewer values than the result that was written" % K.src(n)[:60])
                break
    else:
        ctx.hold("C17.d", "%s.execute::every-cell-has-its-row" % d.key, d.module.rel, line, "nothing removes rows between the stacked results and writerows", nontrivial=False)
    if how is None:
        stacked_rows = any(isinstance(n, ast.Call) and isinstance(n.func, ast.Attribute) and n.func.attr == "writerows" and n.args and ("arrays" in K.names_in(n.args[0]) or (idx.qualname(fi.module, getattr(n.args[0], "func", ast.Name(id="?", ctx=ast.Load())), fi) or "").endswith(".array")) for n in own_nodes(fi.node))
        if stacked_rows:
            ctx.violate("C17.d", "%s.execute::rows-are-cells" % d.key, d.module.rel, line, "the results are written as they are stacked, one row per result instead of one row per cell")
        else:
            ctx.violate("C17.d", "%s.execute::rows-are-cells" % d.key, d.module.rel, line, "the stacked results are not transposed to one row per cell")
    else:
        ctx.hold("C17.d", "%s.execute::rows-are-cells" % d.key, d.module.rel, line, how)
    from .C07 import dtype_rule
    dtype_rule(ctx, "C17.e", d, r)
    if deferred_ is not None:
        raise AnalysisError(deferred_)
