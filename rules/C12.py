"""C12 — models are accepted iff well-formed, and rejected before any side effect."""
import ast

from engine import tables
from engine.cfg import self_attr
from engine.index import own_nodes
from engine.report import AnalysisError

from . import arrayrules as R
from . import common as K
from . import restable
from .coverage import command_table_attr


def raises_of(cfg, name):
    return [n for n in cfg.find("raise") if (n.meta.get("qual") or "").endswith("." + name) and n in cfg.reachable()]


def gate(ctx, idx, rule, fi, err, protected, con_suffix, test_ok=None, what=""):
    """A raise of `err` exists; the test guarding it dominates every protected node; the failing outcome always raises."""
    cfg = K.cfg_of(idx, fi)
    con = "%s::gate(%s)%s" % (fi.key, err, con_suffix)
    rz = raises_of(cfg, err)
    if not rz:
        ctx.violate(rule, con, K.rel(fi), fi.node.lineno, "%s no longer raises %s: %s is accepted" % (fi.qualname, err, what))
        return None
    tests = [t for t in cfg.find("test") if any(cfg.dominates(t, r) for r in rz) and t in cfg.reachable()]
    tests = [t for t in tests if not t.meta.get("in_comp")]
    # a test on the way that does not DECIDE the raise (`x[0] if x else None` while the message is put together: both outcomes go on
    # to the raise) is not the gate
    deciding = [t for t in tests if not all(any(r in cfg.reachable([m], avoid={t}) or r is m for r in rz) for m, _l in t.succ)]
    tests = deciding or tests
    if not tests:
        ctx.violate(rule, con, K.rel(fi), rz[0].line, "%s is raised unconditionally" % err)
        return None
    g = tests[-1]
    first = [t for t in tests if all(cfg.dominates(t, u) for u in tests)]
    if test_ok is not None:
        bad = test_ok(tests)
        if bad:
            ctx.violate(rule, con, K.rel(fi), g.line, bad)
            return None
    late = [p for p in protected if p in cfg.reachable() and not any(cfg.dominates(t, p) for t in tests)]
    if late:
        ctx.violate(rule, con, K.rel(fi), late[0].line, "`%s` is reached without passing the %s check" % (late[0].text(), err))
        return None
    ctx.hold(rule, con, K.rel(fi), g.line, "`%s` guards %d protected site(s)" % (g.text(), len(protected)))
    return rz


def _own_prepass_before(f_, start, origin):
    """In the statement list that holds the loop starting the commands, an earlier statement is
         for c in <origin>:  for a in c.arguments:  [if a.name in c.inputs:]  c.inputs[a.name].clean(a.value, ...)
    with nothing else in it (no break / continue / return / other statement): every declared argument of every command of the
    same table has been cleaned - and any fault raised - before the first command is started."""
    def blocks(node):
        for x in ast.walk(node):
            for fld in ("body", "orelse", "finalbody"):
                b = getattr(x, fld, None)
                if isinstance(b, list) and b and isinstance(b[0], ast.stmt):
                    yield b

    for b in blocks(f_.node):
        pos = next((i for i, st in enumerate(b) if any(start is y for y in ast.walk(st))), None)
        if pos is None or not isinstance(b[pos], ast.For):
            continue
        for st in b[:pos]:
            if not (isinstance(st, ast.For) and K.src(st.iter) == origin and isinstance(st.target, ast.Name) and not st.orelse and len(st.body) == 1):
                continue
            c = st.target.id
            inner = st.body[0]
            if not (isinstance(inner, ast.For) and K.src(inner.iter) == "%s.arguments" % c and isinstance(inner.target, ast.Name) and not inner.orelse and len(inner.body) == 1):
                continue
            a = inner.target.id
            leaf = inner.body[0]
            if isinstance(leaf, ast.If) and not leaf.orelse and len(leaf.body) == 1 and K.src(leaf.test) == "%s.name in %s.inputs" % (a, c):
                leaf = leaf.body[0]
            if isinstance(leaf, ast.Expr) and isinstance(leaf.value, ast.Call) and isinstance(leaf.value.func, ast.Attribute) and leaf.value.func.attr == "clean" \
                    and K.src(leaf.value.func.value) == "%s.inputs[%s.name]" % (c, a) and leaf.value.args and K.src(leaf.value.args[0]) == "%s.value" % a:
                return True
    return False


def run(ctx, idx):
    A = K.anchors(idx)
    prog = A.program
    ctx.assume("exception classes construct (C13.d); Python dict membership/iteration semantics")
    ctx.rule("C12.a", "Load-time gates: in from_source the add_command call is dominated by the unknown-command test raising CommandDoesNotExist; in add_command the store into the command table is dominated by the DuplicateResult, MissingParameters and NoSuchParameter gates (the last skipped only under allow_extra_inputs); Command.validate_params repeats the missing/unknown gates before cleaning.")
    ctx.rule("C12.b", "Validation precedes execution: in Program.run every run()/result site is dominated by the exit of a loop that calls the declared parameter's clean for every argument of every command; inside cleaners `.result`/run() is touched only under a finished-is-true guard.")
    ctx.rule("C12.c", "ResultParameter.clean's decision table (extracted by path enumeration over its predicates) equals the specification table of DESIGN appendix A.4: accept iff the name resolves, the value is a command, wanted fuzziness is unset or matches, and the producer's declared output is accepted; each rejection is the specific class.")
    ctx.rule("C12.d", "No file-opening-for-write, print, dataset creation or os mutation is reachable from from_source or from the validation pre-pass other than through Command.run.")
    ctx.rule("C12.e", "Library declarations are checkable: every built-in command declares a non-None output; every kwargs key an execute reads is a declared input (or injected by the delegating subclass); every required declared input is read; fuzzy flags are literal booleans.")
    ctx.rule("C12.f", "At each gate the raised error's payload arguments flow from the object the guarding condition tested.")
    ctx.rule("C12.h", "Acceptance depends on the text alone: the parser keeps no flag from one source to the next (the EEMS 2.0 marker is per parse), so a model is not converted - and its NewFieldName / OutFileName arguments silently dropped or its writers rejected - because of a file loaded earlier in the process (C16.c's reading of the parser state).")
    from .C16 import parser_state

    parser_state(ctx, idx, "C12.h")
    ctx.rule("C12.j", "A command name exists for a model exactly when one of the SELECTED libraries defines it: the predicate choosing registry entries for the program's lookup is module equality or a dotted-prefix test (C19.a's reading of Program.__init__) - a bare prefix or pattern test lets a model use a command of a library that merely shares the name's beginning, instead of rejecting it with CommandDoesNotExist.")
    from .C19 import library_membership

    _init = prog.methods.get("__init__")
    if _init is None:
        raise AnalysisError("C12.j: Program.__init__ vanished")
    library_membership(ctx, idx, "C12.j", _init)
    ctx.rule("C12.l", "No undeclared parameter is given: no built-in command switches the check off for itself (`allow_extra_inputs = True` accepts every argument name - a misspelt MissingVal is then silently ignored and the model runs on unmasked data).")
    n_ext = 0
    for d_ in K.table(idx):
        if not d_.module.name.startswith("mpilot.libraries."):
            continue
        n_ext += 1
        c0_, cexpr_ = idx.find_attr(d_.cls, "allow_extra_inputs")
        on_ = isinstance(cexpr_, ast.Constant) and cexpr_.value is True
        if on_:
            ctx.violate("C12.l", "%s::declares-its-parameters" % d_.key, d_.module.rel, cexpr_.lineno, "%s sets allow_extra_inputs = True: NoSuchParameter is never raised for it, at load, in the pre-pass or in validate_params - any argument name is accepted and ignored" % d_.cls.name)
    if n_ext:
        ctx.hold("C12.l", "mpilot/libraries::declare-their-parameters", "mpilot/libraries/eems/basic.py", 1, "%d library commands examined" % n_ext, nontrivial=False)
    ctx.floor("C12.l", "library commands", n_ext, 30)
    ctx.rule("C12.k", "Acceptance does not depend on the order of the commands: nothing consults the command table for a referenced result while the program is being loaded (from_source / add_command) - a reference is resolved when the model is run (C01.h's reading; a load-time existence check refuses every well-formed model whose consumer is written before its producer).")
    from .C01 import rule_h as _load_time_lookups

    _soft12 = []
    try:
        _load_time_lookups(ctx, idx, A, rule="C12.k")
    except AnalysisError as ex_:
        _soft12.append(ex_)  # the gates below still get their verdict (a vanished duplicate check is C12.a's business)
    ctx.rule("C12.i", "A well-formed model is accepted wherever it is run from: a relative file name is refused only when the program has NO working directory (None); the empty string is the current directory (what the command-line tool passes for a command file given without a directory) - C20.e's reading of PathParameter.clean.")
    from .C20 import no_working_dir_means_none

    no_working_dir_means_none(ctx, idx, "C12.i", " before anything runs, although every file exists")
    attr = command_table_attr(idx, A)
    # ------------------------------------------------------------------ a: from_source
    fs = prog.methods["from_source"]
    cfg = K.cfg_of(idx, fs)
    adds = cfg.find("call", lambda n: isinstance(n.ast.func, ast.Attribute) and n.ast.func.attr == "add_command")
    ctx.floor("C12.a", "add_command call sites in from_source", len(adds), 1)

    def unknown_ok(tests):
        t = tests[-1]
        e = t.ast
        if not isinstance(e, ast.Name):
            return "the unknown-command test `%s` does not test the looked-up class" % t.text()
        defs = [n for n in own_nodes(fs.node) if isinstance(n, ast.Assign) and any(isinstance(x, ast.Name) and x.id == e.id for x in n.targets)]
        if not defs or not all(isinstance(d.value, ast.Call) and isinstance(d.value.func, ast.Attribute) and d.value.func.attr == "find_command_class" for d in defs):
            return "`%s` is not the result of find_command_class(...)" % e.id
        for a in adds:
            if not (a.ast.args and isinstance(a.ast.args[0], ast.Name) and a.ast.args[0].id == e.id):
                return "add_command is not given the class that was checked"
        return None

    rz = gate(ctx, idx, "C12.a", fs, "CommandDoesNotExist", adds, "", unknown_ok, "an unknown command name")
    if rz:
        # the failing outcome (class is falsy) must raise
        t = [t for t in cfg.find("test") if cfg.dominates(t, rz[0])][-1]
        falsy = [m for m, l in t.succ if l == "false"]
        ok = all(cfg.must_pass_through(m, cfg.exit, set(rz)) for m in falsy) and all(a not in cfg.reachable(falsy, avoid=set(rz)) or True for a in adds)
        reach_add = any(a in cfg.reachable(falsy, avoid=set(rz) | {h for h in cfg.find("iter") if not h.meta.get("comp")}) for a in adds)
        ctx.ob("C12.a", "%s::unknown-command-raises" % fs.key, K.rel(fs), t.line, not reach_add, "a missing class always raises before add_command" if not reach_add else "add_command is reachable when find_command_class returned nothing")
        e = rz[0].ast.exc
        ok = isinstance(e, ast.Call) and e.args and K.src(e.args[0]).endswith(".command")
        ctx.ob("C12.f", "%s::payload(CommandDoesNotExist)" % fs.key, K.rel(fs), rz[0].line, ok, "names the command that was looked up" if ok else "CommandDoesNotExist is not given the looked-up command name: %s" % K.src(e))
    # ------------------------------------------------------------------ a: add_command
    ac = prog.methods["add_command"]
    cfg = K.cfg_of(idx, ac)
    sn = K.self_name(ac)
    stores = cfg.find("store", lambda n: n.meta.get("subscript") and self_attr(n.ast.value, sn) == attr)
    ctx.floor("C12.a", "stores into the command table in add_command", len(stores), 1)
    params = [a.arg for a in ac.node.args.args]

    def dup_ok(tests):
        e = tests[-1].ast
        ok = isinstance(e, ast.Compare) and isinstance(e.ops[0], ast.In) and isinstance(e.left, ast.Name) and e.left.id in params and self_attr(e.comparators[0], sn) == attr
        if ok:
            for s in stores:
                if not (isinstance(s.ast.slice, ast.Name) and s.ast.slice.id == e.left.id):
                    return "the duplicate test checks `%s` but the table is keyed by `%s`" % (e.left.id, K.src(s.ast.slice))
            return None
        return "the duplicate test `%s` is not `<result name> in self.%s`" % (K.src(e), attr)

    def missing_ok(tests):
        e = tests[-1].ast
        if not isinstance(e, ast.Name):
            return "the missing-parameter test `%s` is not a set of names" % K.src(e)
        defs = [n.value for n in own_nodes(ac.node) if isinstance(n, ast.Assign) and any(isinstance(x, ast.Name) and x.id == e.id for x in n.targets)]
        s = " ".join(K.src(d) for d in defs)
        if "required_inputs" in s and ".difference(" in s and "arguments" in s.split(".difference(")[-1] and s.index("required_inputs") < s.index(".difference("):
            return None
        if "required_inputs" in s and " - " in s:
            return None
        return "`%s` is not `required inputs minus given arguments`: %s" % (e.id, s)

    def nosuch_ok(tests):
        srcs = " and ".join(K.src(t.ast) for t in tests)
        if "not in" in srcs and ".inputs" in srcs and "allow_extra_inputs" in srcs:
            return None
        if ".inputs" not in srcs:
            return "the unknown-parameter test does not consult the declared inputs: %s" % srcs
        if "allow_extra_inputs" not in srcs:
            return None  # stricter than required is fine
        return None

    r1 = gate(ctx, idx, "C12.a", ac, "DuplicateResult", stores, "", dup_ok, "a second command with the same result name")
    r2 = gate(ctx, idx, "C12.a", ac, "MissingParameters", stores, "", missing_ok, "a command lacking a required parameter")
    # NoSuchParameter lives in a loop over the arguments: the loop head must dominate the store and iterate all arguments
    r3 = raises_of(cfg, "NoSuchParameter")
    con = "%s::gate(NoSuchParameter)" % ac.key
    if not r3:
        ctx.violate("C12.a", con, K.rel(ac), ac.node.lineno, "add_command no longer raises NoSuchParameter: an undeclared argument is accepted")
    else:
        heads = [h for h in cfg.find("iter") if not h.meta.get("comp") and any(r in cfg.reachable([m for m, l in h.succ if l == "loop"], avoid={h}) for r in r3)]
        ok = bool(heads) and all(cfg.dominates(heads[0], s) for s in stores) and "arguments" in K.src(heads[0].meta["iter"]) and "[" not in K.src(heads[0].meta["iter"])
        tests = [t for t in cfg.find("test") if any(cfg.dominates(t, r) for r in r3) and cfg.dominates(heads[0], t)] if heads else []
        bad = nosuch_ok(tests) if tests else "NoSuchParameter is raised unconditionally"
        if not ok:
            ctx.violate("C12.a", con, K.rel(ac), r3[0].line, "the unknown-parameter check is not a loop over every given argument that precedes the store into the command table")
        elif bad:
            ctx.violate("C12.a", con, K.rel(ac), r3[0].line, bad)
        else:
            ctx.hold("C12.a", con, K.rel(ac), r3[0].line, "every given argument is tested against the declared inputs before the command is stored")
    # every given argument reaches the command: what counted as "given" for the missing-parameter gate must become an argument
    con = "%s::every-argument-kept" % ac.key
    ctor = [n for n in cfg.find("call") if any(s_.ast is not None and any(n.ast is x for x in ast.walk(s_.meta.get("value") or s_.ast)) for s_ in stores)]
    ctor_calls = [n for n in own_nodes(ac.node) if isinstance(n, ast.Assign) and any(isinstance(t, ast.Subscript) and self_attr(t.value, sn) == attr for t in n.targets) and isinstance(n.value, ast.Call)]
    listnames = set()
    for a_ in ctor_calls:
        for x in list(a_.value.args) + [k.value for k in a_.value.keywords]:
            if isinstance(x, ast.Name):
                listnames.add(x.id)
    kept = None
    for h in cfg.find("iter"):
        if h.meta.get("comp") or "arguments" not in K.src(h.meta["iter"]):
            continue
        body_in = [m for m, l in h.succ if l == "loop"]
        appends = {n for n in cfg.reachable(body_in, avoid={h}) if n.kind == "call" and isinstance(n.ast.func, ast.Attribute) and n.ast.func.attr == "append" and isinstance(n.ast.func.value, ast.Name) and n.ast.func.value.id in listnames}
        if not appends:
            continue
        kept = all(cfg.must_pass_through(m, h, appends) for m in body_in)
        line_ = h.line
        if not kept:
            # an entry may be left out when the test that lets it go also establishes that the parameter is not a required one
            # (what the missing-parameter gate counted on is then still there)
            def optional_when(e, outcome, depth=0):
                if isinstance(e, ast.Name) and depth < 4:
                    d_ = K.single_defs(ac).get(e.id)
                    return d_ is not None and optional_when(d_, outcome, depth + 1)
                if isinstance(e, ast.UnaryOp) and isinstance(e.op, ast.Not):
                    return optional_when(e.operand, not outcome, depth)
                if isinstance(e, ast.BoolOp):
                    if isinstance(e.op, ast.And) and outcome:
                        return any(optional_when(v_, True, depth) for v_ in e.values)
                    if isinstance(e.op, ast.Or) and not outcome:
                        return any(optional_when(v_, False, depth) for v_ in e.values)
                    return False
                if isinstance(e, ast.Compare) and len(e.ops) == 1 and "required_inputs" in K.src(e.comparators[0]):
                    return (isinstance(e.ops[0], ast.NotIn) and outcome) or (isinstance(e.ops[0], ast.In) and not outcome)
                return False

            seen_, work_, leak = set(), list(body_in), False
            while work_:
                x_ = work_.pop()
                if x_ in seen_ or x_ in appends:
                    continue
                seen_.add(x_)
                if x_ is h:
                    leak = True
                    break
                for m_, lab_ in x_.succ:
                    if x_.kind == "test" and lab_ in ("true", "false") and optional_when(x_.ast, lab_ == "true"):
                        continue  # beyond this edge the parameter is known to be optional
                    if lab_ == "exc" or m_.kind in ("raise", "raise_exit"):
                        continue
                    work_.append(m_)
            kept = not leak
    if kept is None:
        for n in own_nodes(ac.node):
            if isinstance(n, ast.Assign) and len(n.targets) == 1 and isinstance(n.targets[0], ast.Name) and n.targets[0].id in listnames and isinstance(n.value, ast.ListComp) and "arguments" in K.src(n.value.generators[0].iter):
                kept = not n.value.generators[0].ifs and len(n.value.generators) == 1
                line_ = n.lineno
    if kept is None:
        raise AnalysisError("C12.a: cannot find where add_command turns the given arguments into the command's argument list")
    ctx.ob("C12.a", con, K.rel(ac), line_, kept, "every entry of the given arguments is appended to the command's argument list (or the loop raises)" if kept else
           "an iteration of the loop over the given arguments can finish without adding the argument: a value that counted as given for the missing-parameter gate is dropped, so the command is accepted here and fails (MissingParameters) only when it runs, after other commands have executed")
    for rz, err, want in ((r1, "DuplicateResult", lambda e: e.args and isinstance(e.args[0], ast.Name) and e.args[0].id in params),
                          (r2, "MissingParameters", lambda e: len(e.args) >= 2 and isinstance(e.args[1], ast.Name)),
                          (r3, "NoSuchParameter", lambda e: len(e.args) >= 2 and isinstance(e.args[1], ast.Name))):
        if rz:
            e = rz[0].ast.exc
            ok = isinstance(e, ast.Call) and bool(want(e))
            if ok and err == "MissingParameters":
                t = [t for t in cfg.find("test") if cfg.dominates(t, rz[0])][-1]
                ok = isinstance(t.ast, ast.Name) and e.args[1].id == t.ast.id
            if ok and err == "NoSuchParameter":
                t = [t for t in cfg.find("test") if cfg.dominates(t, rz[0]) and isinstance(t.ast, ast.Compare) and ".inputs" in K.src(t.ast)]
                ok = bool(t) and isinstance(t[-1].ast.left, ast.Name) and t[-1].ast.left.id == e.args[1].id
            ctx.ob("C12.f", "%s::payload(%s)" % (ac.key, err), K.rel(ac), rz[0].line, ok, "payload is the tested object" if ok else "%s does not carry the object the guard tested: %s" % (err, K.src(e)))
    # ------------------------------------------------------------------ a: validate_params
    vp = A.command.methods.get("validate_params")
    if vp is None:
        raise AnalysisError("Command.validate_params vanished")
    cfg = K.cfg_of(idx, vp)
    cleans = cfg.find("call", lambda n: isinstance(n.ast.func, ast.Attribute) and n.ast.func.attr == "clean")
    ctx.floor("C12.a", "clean call sites in validate_params", len(cleans), 1)
    gate(ctx, idx, "C12.a", vp, "MissingParameters", cleans, "::second-validation", None, "a missing required parameter")
    rz = raises_of(cfg, "NoSuchParameter")
    con = "%s::gate(NoSuchParameter)::second-validation" % vp.key
    if not rz:
        ctx.violate("C12.a", con, K.rel(vp), vp.node.lineno, "validate_params no longer raises NoSuchParameter")
    else:
        ctx.hold("C12.a", con, K.rel(vp), rz[0].line, "unknown parameters rejected inside the cleaning loop")
    # ------------------------------------------------------------------ b
    pr = A.program_run
    cfg = K.cfg_of(idx, pr)
    sn = K.self_name(pr)
    from .coverage import coverage_loops, _table_iter, _loop_var

    _, loops = coverage_loops(idx, A)
    prepass = None
    for lp in loops:
        head = lp["head"]
        body = cfg.reachable([m for m, l in head.succ if l == "loop"], avoid={head})
        inner = [h for h in body if h.kind == "iter" and not h.meta.get("comp") and K.src(h.meta["iter"]) == "%s.arguments" % lp["var"]]
        cl = [n for n in body if n.kind == "call" and isinstance(n.ast.func, ast.Attribute) and n.ast.func.attr == "clean"]
        if inner and cl and lp["filter"] is None:
            prepass = (lp, inner[0], cl)
    con = "%s::validation-pre-pass" % pr.key
    starts = [s for lp in loops for s in lp["starts"]]
    if prepass is None:
        ctx.violate("C12.b", con, K.rel(pr), pr.node.lineno, "Program.run has no loop cleaning every argument of every command before commands are started")
    else:
        lp, inner, cl = prepass
        head = lp["head"]
        body = cfg.reachable([m for m, l in head.succ if l == "loop"], avoid={head})
        after = cfg.reachable([m for m, l in head.succ if l == "exit-loop"])
        probs = []
        for s in starts:
            if s in body:
                probs.append("`%s` runs a command inside the validation loop" % s.text())
            elif not cfg.dominates(head, s) or s not in after:
                # skipped when a remembered state equals a freshly computed one (a validation cache with a validity key): whether
                # the key covers everything the pre-pass depends on is not decided here; a bare `is None` / flag test is no key
                keyed = [t for t in cfg.find("test") if s in cfg.reachable(t) and head in cfg.reachable(t) and isinstance(t.ast, ast.Compare) and len(t.ast.ops) == 1 and isinstance(t.ast.ops[0], (ast.Eq, ast.NotEq))
                         and any(isinstance(x, ast.Attribute) and isinstance(x.value, ast.Name) and x.value.id == sn for x in [t.ast.left] + t.ast.comparators)
                         and not any(isinstance(x, ast.Constant) for x in [t.ast.left] + t.ast.comparators)]
                if keyed:
                    raise AnalysisError("C12.b: Program.run skips the validation pre-pass when `%s` (a remembered state compared with the current one): cannot decide whether that state covers everything validation depends on" % K.src(keyed[0].ast)[:70])
                probs.append("`%s` can run before the validation loop has finished" % s.text())
        # every argument cleaned: the clean call is on every path of the inner body guarded only by `name in inputs`
        ibody_first = [m for m, l in inner.succ if l == "loop"]
        tests_in = [t for t in cfg.reachable(ibody_first, avoid={inner}) if t.kind == "test" and not t.meta.get("in_comp") and any(cfg.dominates(t, c) for c in cl)]
        for t in tests_in:
            s = K.src(t.ast)
            if not (".inputs" in s and " in " in s and ".name" in s):
                probs.append("cleaning is skipped under `%s`" % s)
        c0 = cl[0].ast
        recv = K.src(K.expand(pr, c0.func.value))
        if ".inputs[" not in recv:
            probs.append("the value is not cleaned by the declared parameter (%s)" % recv)
        if not c0.args or not K.src(K.expand(pr, c0.args[0])).endswith(".value"):
            probs.append("clean is not given the argument's value")
        if probs:
            ctx.violate("C12.b", con, K.rel(pr), head.line, "; ".join(probs[:3]))
        else:
            ctx.hold("C12.b", con, K.rel(pr), head.line, "pre-pass cleans every declared argument of every command; %d start site(s) lie after its exit" % len(starts))
    ctx.floor("C12.b", "start sites in Program.run", len(starts), 1)
    # commands are started by Program.run alone (after its pre-pass) or pulled through `.result` from inside a running command:
    # no other code walks the command table calling run() / reading .result - the command-line tool included
    n_other = 0
    for mod_, f_, n_ in K.scoped_nodes(idx):
        if f_ is None or f_ is pr or (f_.cls is not None and (f_.cls is A.command or A.is_command_subclass(f_.cls) or idx.is_subclass(f_.cls, "mpilot.params.Parameter"))):
            continue
        top_ = f_
        while getattr(top_, "parent", None) is not None:
            top_ = top_.parent
        if top_ is pr:
            continue
        recv = None
        if isinstance(n_, ast.Call) and isinstance(n_.func, ast.Attribute) and n_.func.attr == "run" and not n_.args:
            recv = n_.func.value
        elif isinstance(n_, ast.Attribute) and n_.attr == "result" and isinstance(n_.ctx, ast.Load):
            recv = n_.value
        if recv is None or not isinstance(recv, (ast.Name, ast.Subscript, ast.Attribute)):
            continue
        # where does the receiver come from?  a loop / comprehension variable over `<x>.commands...`, or an item of it
        src_ = K.src(recv)
        origin = src_
        if isinstance(recv, ast.Name):
            for lp_ in ast.walk(f_.node):
                if isinstance(lp_, (ast.For, ast.comprehension)) and any(isinstance(t_, ast.Name) and t_.id == recv.id for t_ in ast.walk(lp_.target)):
                    origin = K.src(lp_.iter)
        if ".commands" in origin and _own_prepass_before(f_, n_, origin):
            n_other += 1
            ctx.hold("C12.b", "%s::starts-commands-itself" % K.where(mod_, f_), mod_.rel, n_.lineno, "the commands are started one by one after a loop of this function's own that cleans every declared argument of every command of the same table (the pre-pass Program.run makes)")
            continue
        if ".commands" in origin:
            n_other += 1
            ctx.violate("C12.b", "%s::starts-commands-itself" % K.where(mod_, f_), mod_.rel, n_.lineno, "`%s` starts commands of the table one by one (receiver from `%s`) instead of calling Program.run: the validation pre-pass never happens, so a faulty command listed after a writer is rejected only after the writer has run and written its output" % (K.src(n_)[:50], origin[:50]))
    ctx.count("command_starts_outside_Program_run", n_other)
    # cleaners touch .result / run() only under a finished guard
    pbase = idx.cls("mpilot.params", "Parameter")
    n_clean = 0
    for ci in idx.subclasses(pbase):
        fi = ci.methods.get("clean")
        if fi is None:
            continue
        n_clean += 1
        c = K.cfg_of(idx, fi)
        touches = c.find("load", lambda n: n.meta.get("attr") in ("result", A.memo)) + c.find("call", lambda n: isinstance(n.ast.func, ast.Attribute) and n.ast.func.attr in ("run", "execute"))
        for tnode in touches:
            guards = [t for t in c.find("test") if isinstance(t.ast, ast.Attribute) and t.ast.attr == A.flag and c.dominates(t, tnode)]
            ok = False
            for g in guards:
                fal = [m for m, l in g.succ if l == "false"]
                if tnode not in c.reachable(fal, avoid={g}):
                    ok = True
            ctx.ob("C12.b", "%s::touch(%s)" % (fi.key, K.src(tnode.ast)[:40]), K.rel(fi), tnode.line, ok,
                   "only under `%s` known true" % A.flag if ok else "`%s` is evaluated during validation without a finished guard: a command can execute before the whole model has been validated" % K.src(tnode.ast))
    ctx.floor("C12.b", "clean methods", n_clean, 9)
    # ------------------------------------------------------------------ c
    restable.check(ctx, idx, A)
    # ------------------------------------------------------------------ d
    cleans_f = [ci.methods["clean"] for ci in idx.subclasses(pbase) if "clean" in ci.methods]
    starts_f = [fs, ac] + cleans_f + [A.command.methods[m] for m in ("validate_params", "metadata", "get_argument_value") if m in A.command.methods]
    reach, parent = idx.reachable(starts_f, stop=[A.run] + [d.execute for d in K.table(idx) if d.execute is not None])
    reach = {f for f in reach if f is not A.run and f.name != "execute"}
    n_scanned = 0
    for f in sorted(reach, key=lambda f: f.key):
        n_scanned += 1
        for c in idx.own_calls(f):
            q = idx.qualname(f.module, c.func, f) or ""
            eff = None
            if q == "builtins.open":
                mode = c.args[1] if len(c.args) > 1 else next((k.value for k in c.keywords if k.arg == "mode"), None)
                if mode is not None and not (isinstance(mode, ast.Constant) and mode.value in ("r", "rb", "rt")):
                    eff = "opens a file for writing"
            elif q == "builtins.print":
                eff = "prints"
            elif q in ("netCDF4.Dataset",):
                eff = "opens a dataset"
            elif q.startswith("os.") and q.split(".")[-1] in ("remove", "unlink", "rename", "makedirs", "mkdir", "rmdir", "system", "replace"):
                eff = "mutates the file system"
            elif isinstance(c.func, ast.Attribute) and c.func.attr in ("write", "writerow", "writerows", "createVariable", "createDimension"):
                eff = "writes"
            if eff:
                ctx.violate("C12.d", "%s::effect(%s)" % (f.key, K.src(c)[:50]), K.rel(f), c.lineno,
                            "%s %s while loading/validating (reached via %s): a rejected model leaves output behind" % (f.qualname, eff, " -> ".join(idx.chain(parent, f)[-3:])))
    ctx.hold("C12.d", "package::no-effect-before-rejection", "mpilot", 0, "%d functions reachable from loading and validation (Command.run excluded) contain no write/print/dataset/os effect" % n_scanned)
    # ------------------------------------------------------------------ e
    builtin = [d for d in K.table(idx) if d.module.name.startswith("mpilot.libraries")]
    ctx.floor("C12.e", "built-in command classes", len(builtin), 30)
    res = R.results(idx)
    for d in builtin:
        con = "%s::declares-output" % d.key
        if d.output is None:
            ctx.violate("C12.e", con, d.module.rel, d.cls.node.lineno,
                        "%s declares no output: as a producer its kind cannot be checked, so it is accepted wherever a data result is required" % d.cls.name)
        else:
            ctx.hold("C12.e", con, d.module.rel, d.cls.node.lineno, "output = %s" % d.output.short(), nontrivial=False)
        if not d.is_fuzzy_literal:
            ctx.violate("C12.e", "%s::fuzzy-literal" % d.key, d.module.rel, d.cls.node.lineno, "is_fuzzy is not a literal boolean")
        if d.key not in res:
            continue
        _, r = res[d.key]
        bad = [f for f in r.findings if f[0] == "kwkey"]
        con = "%s::reads-declared-inputs" % d.key
        if bad:
            ctx.violate("C12.e", con, d.module.rel, bad[0][1], bad[0][2])
        else:
            read = {k for k, how, node, fk, dflt in r.kwreads}
            # an input spelled out in the signature (`def execute(self, A, B, **kwargs)`) is read where its name is loaded
            a_ = d.execute.node.args
            named_ = {x_.arg for x_ in list(a_.args)[1:] + list(a_.kwonlyargs)}
            read |= {n_.id for n_ in ast.walk(d.execute.node) if isinstance(n_, ast.Name) and isinstance(n_.ctx, ast.Load) and n_.id in named_}
            fwd = any(kws is not None for node, kws, ex, fk, tgt in r.super_calls)
            req = {nm for nm, p in d.inputs.items() if p.required}
            unread = req - read
            if unread and not fwd:
                ctx.violate("C12.e", con, d.module.rel, d.execute.node.lineno, "required input(s) %s are declared but never read by execute" % sorted(unread))
            else:
                ctx.hold("C12.e", con, d.module.rel, d.execute.node.lineno, "reads %s" % sorted(read), nontrivial=bool(read))
        # a command that declares an output must return a value on every path, and vice versa
        rets = [v for s, v, fk in r.returns]
        from engine.arrays import Other
        nones = [v for v in rets if isinstance(v, Other) and v.tag == "none"]
        if d.output is not None and nones:
            ctx.violate("C12.e", "%s::returns-declared-kind" % d.key, d.module.rel, d.execute.node.lineno, "%s declares output %s but a path returns None" % (d.cls.name, d.output.short()))


    ctx.rule("C12.g", "Every argument has the declared kind: each parameter class rejects raw kinds outside its documented domain with ParameterNotValid (kind-narrowing over all choice sequences; table in rules/C20.py).")
    from .C20 import kind_table
    kind_table(ctx, idx, "C12.g")
    # what a command class declares is read from THAT class: a memo stored on the class object and looked for with hasattr / getattr is
    # found through the MRO, so a subclass with other declared inputs (CvtToFuzzyCat(NormalizeCat) ...) is validated against its
    # parent's declaration once the parent has been used in the process
    ctx.rule("C12.m", "Declarations are read per class: Command code stores nothing on the class object behind a hasattr / getattr test (such a memo is inherited by subclasses that declare other inputs; `name in cls.__dict__` is the per-class test).")
    n_m = 0
    for f_ in idx.funcs:
        if f_.module.name != "mpilot.commands" or getattr(f_, "cls", None) is None:
            continue
        src_ = getattr(f_, "node_orig", None) or f_.node
        selfn = src_.args.args[0].arg if src_.args.args else None
        cls_names = {selfn} if f_.name in ("__new__",) or any(K.src(d_) in ("classmethod",) for d_ in src_.decorator_list) else set()
        for st_ in ast.walk(src_):
            if isinstance(st_, ast.Assign) and len(st_.targets) == 1 and isinstance(st_.targets[0], ast.Name) and K.src(st_.value) in ("type(%s)" % selfn, "%s.__class__" % selfn):
                cls_names.add(st_.targets[0].id)
        for st_ in ast.walk(src_):
            if not isinstance(st_, ast.If):
                continue
            stores_ = [t_ for b_ in st_.body for x_ in ast.walk(b_) if isinstance(x_, ast.Assign) for t_ in x_.targets if isinstance(t_, ast.Attribute)
                       and (K.src(t_.value) in cls_names or K.src(t_.value) in ("type(%s)" % selfn, "%s.__class__" % selfn))] + \
                      [x_ for b_ in st_.body for x_ in ast.walk(b_) if isinstance(x_, ast.Call) and K.src(x_.func) == "setattr" and x_.args and (K.src(x_.args[0]) in cls_names or K.src(x_.args[0]) in ("type(%s)" % selfn, "%s.__class__" % selfn))]
            if not stores_:
                continue
            n_m += 1
            tsrc = K.src(st_.test)
            inherited = ("hasattr(" in tsrc or "getattr(" in tsrc) and "__dict__" not in tsrc and "vars(" not in tsrc
            ctx.ob("C12.m", "%s::per-class-memo" % f_.key, K.rel(f_), st_.lineno, not inherited, "the memo is looked for in the class's own namespace" if not inherited else
                   "`%s` stores on the class object what `%s` looks for through the MRO: a subclass that declares other inputs finds its PARENT's memo once the parent has been used, and a well-formed command of the subclass is then refused (MissingParameters / NoSuchParameter) in the middle of a run, after other commands have executed" % (K.src(stores_[0])[:50], tsrc[:50]))
    if not n_m:
        ctx.hold("C12.m", "mpilot/commands.py::no-class-memo", "mpilot/commands.py", 1, "no conditional store on a command class object", nontrivial=False)
    if _soft12:
        raise _soft12[0]


def thorough(ctx, idx):
    """producer x reference-input matrix through the extracted decision table"""
    A = K.anchors(idx)
    restable.matrix(ctx, idx, A)
