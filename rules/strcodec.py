"""The reader's string decoding (Lexer.t_STRING) as data: delimiter removal and escape decoding, and the agreement checks between a
writer's escaping and this decoding.  The decoding is *extracted* from the source (a codec pair or a table of replacements) and the
extracted table is evaluated on every short string over a small alphabet; no mpilot code runs."""
import ast
import itertools

from engine.report import AnalysisError

from . import common as K

ALPHABET = ("\\", '"', "'", "n", "t", "x", " ")


def _pairs_of(idx, mod, cls_node, e):
    """constant ((a, b), ...) behind an expression: a literal, or a module / class level name bound to one"""
    if isinstance(e, ast.Attribute) and isinstance(e.value, ast.Name) and cls_node is not None:
        for st in cls_node.body:
            if isinstance(st, ast.Assign) and any(isinstance(t, ast.Name) and t.id == e.attr for t in st.targets):
                e = st.value
                break
    if isinstance(e, ast.Name) and e.id in getattr(mod, "consts", {}):
        e = mod.consts[e.id]
    if isinstance(e, ast.Call) and isinstance(e.func, ast.Attribute) and e.func.attr == "items" and isinstance(e.func.value, ast.Dict):
        e = ast.Tuple(elts=[ast.Tuple(elts=[k, v], ctx=ast.Load()) for k, v in zip(e.func.value.keys, e.func.value.values)], ctx=ast.Load())
    if isinstance(e, (ast.Tuple, ast.List)) and e.elts and all(isinstance(x, (ast.Tuple, ast.List)) and len(x.elts) == 2 and all(isinstance(y, ast.Constant) and isinstance(y.value, str) for y in x.elts) for x in e.elts):
        return [(x.elts[0].value, x.elts[1].value) for x in e.elts]
    return None


def unicode_escape_calls(fn):
    """-> [(call node, operand expression, encoding or None)] for `<x>.decode("unicode_escape")` and `codecs.decode(<x>,
    "unicode_escape")` in `fn`.  encoding: "latin-1" (with backslashreplace), "utf-8" (an explicit utf-8 encode, or TEXT handed to the
    codec - Python then takes its UTF-8 bytes), None when the operand is something else"""
    out = []
    for n in ast.walk(fn):
        if not isinstance(n, ast.Call):
            continue
        opnd = None
        method = False
        if isinstance(n.func, ast.Attribute) and n.func.attr == "decode" and n.args and isinstance(n.args[0], ast.Constant) and n.args[0].value == "unicode_escape":
            opnd = n.func.value
            method = True
        elif K.src(n.func) in ("codecs.decode", "decode") and len(n.args) >= 2 and isinstance(n.args[1], ast.Constant) and n.args[1].value == "unicode_escape":
            opnd = n.args[0]
        elif K.src(n.func) in ("codecs.decode", "decode") and n.args and any(k.arg == "encoding" and isinstance(k.value, ast.Constant) and k.value.value == "unicode_escape" for k in n.keywords):
            opnd = n.args[0]
        if opnd is None:
            continue
        enc = opnd
        if isinstance(enc, ast.Name):
            defs_ = [x.value for x in ast.walk(fn) if isinstance(x, ast.Assign) and len(x.targets) == 1 and isinstance(x.targets[0], ast.Name) and x.targets[0].id == enc.id
                     and not any(y is n for y in ast.walk(x.value))]  # (`v = decode(v)` rebinding the name to the decoded text is not a definition of the operand)
            ascii_only = any(isinstance(g_, ast.If) and "isascii" in K.src(g_.test) and any(y is n for y in ast.walk(g_)) for g_ in ast.walk(fn))
            if len(defs_) == 1 and not ascii_only:
                enc = defs_[0]
        encoding = None
        if isinstance(enc, ast.Call) and isinstance(enc.func, ast.Attribute) and enc.func.attr == "encode":
            eargs = [a.value for a in enc.args if isinstance(a, ast.Constant)] + [k.value.value for k in enc.keywords if isinstance(k.value, ast.Constant)]
            if eargs[:1] in (["latin-1"], ["latin1"], ["iso-8859-1"]) and "backslashreplace" in eargs:
                encoding = "latin-1"
            elif not eargs or str(eargs[0]).lower().replace("-", "") == "utf8":
                encoding = "utf-8"
        elif not method and isinstance(enc, ast.Subscript) and "value" in K.src(enc):
            encoding = "utf-8"  # codecs.decode(<text>, ...): the text's UTF-8 bytes
        out.append((n, enc, encoding))
    return out


def reader_decoder(idx, L):
    """-> dict(kind='codec'|'chain'|'none'|'eval', pairs=[...], node=ast node) for the STRING token function"""
    rs = L.rule("STRING")
    if rs is None or not isinstance(rs.node, ast.FunctionDef):
        raise AnalysisError("STRING rule vanished")
    fn = rs.node
    cls_node = None
    for n in ast.walk(L.mod.tree if hasattr(L.mod, "tree") else ast.Module(body=[], type_ignores=[])):
        if isinstance(n, ast.ClassDef) and any(isinstance(x, ast.FunctionDef) and x.name == fn.name for x in n.body):
            cls_node = n
    for n, _enc, encoding in unicode_escape_calls(fn):
        return {"kind": "codec", "node": n, "pairs": None, "encoding": encoding}
    # codecs.escape_decode(<text>.encode(E, [errors]))[0].decode(E, [errors]): the bytes-level escape decoder between an encode and
    # a decode with constant arguments
    for n in ast.walk(fn):
        if isinstance(n, ast.Call) and isinstance(n.func, ast.Attribute) and n.func.attr == "decode" and isinstance(n.func.value, ast.Subscript) \
                and isinstance(n.func.value.slice, ast.Constant) and n.func.value.slice.value == 0 and isinstance(n.func.value.value, ast.Call) \
                and K.src(n.func.value.value.func).split(".")[-1] == "escape_decode" and n.func.value.value.args:
            inner = n.func.value.value.args[0]
            if isinstance(inner, ast.Call) and isinstance(inner.func, ast.Attribute) and inner.func.attr == "encode" and all(isinstance(a_, ast.Constant) for a_ in inner.args + n.args) and not inner.keywords and not n.keywords:
                return {"kind": "escape_decode", "node": n, "pairs": None, "enc": tuple(a_.value for a_ in inner.args), "dec": tuple(a_.value for a_ in n.args)}
            raise AnalysisError("t_STRING decodes with codecs.escape_decode between an encode / decode pair whose arguments are not constants")
    for n in ast.walk(fn):
        if isinstance(n, ast.Call) and (K.src(n.func) in ("ast.literal_eval", "eval", "literal_eval")):
            return {"kind": "eval", "node": n, "pairs": None}
    # a loop over constant pairs applying .replace(a, b)
    for n in ast.walk(fn):
        if isinstance(n, ast.For) and isinstance(n.target, ast.Tuple) and len(n.target.elts) == 2 and all(isinstance(x, ast.Name) for x in n.target.elts):
            a, b = n.target.elts[0].id, n.target.elts[1].id
            reps = [c for st in n.body for c in ast.walk(st) if isinstance(c, ast.Call) and isinstance(c.func, ast.Attribute) and c.func.attr == "replace" and len(c.args) == 2 and isinstance(c.args[0], ast.Name) and isinstance(c.args[1], ast.Name) and c.args[0].id == a and c.args[1].id == b]
            if reps:
                pairs = _pairs_of(idx, L.mod, cls_node, n.iter)
                if pairs is None:
                    raise AnalysisError("t_STRING replaces the pairs of `%s`, which is not a constant table the analyser can read" % K.src(n.iter))
                return {"kind": "chain", "node": reps[0], "pairs": pairs}
    # an inline chain x.replace(a, b).replace(c, d)... or successive statements
    chain = []
    first = None
    for n in sorted([c for c in ast.walk(fn) if isinstance(c, ast.Call) and isinstance(c.func, ast.Attribute) and c.func.attr == "replace" and len(c.args) == 2 and all(isinstance(x, ast.Constant) and isinstance(x.value, str) for x in c.args)], key=lambda c: (c.end_lineno, c.end_col_offset)):
        chain.append((n.args[0].value, n.args[1].value))
        first = first or n
    if chain:
        return {"kind": "chain", "node": first, "pairs": chain}
    # one left-to-right pass: re.sub(r"\\.", lambda m: TABLE.get(m.group(0), m.group(0)), text)
    for n in ast.walk(fn):
        if isinstance(n, ast.Call) and isinstance(n.func, ast.Attribute) and n.func.attr == "sub" and len(n.args) >= 3 and isinstance(n.args[0], ast.Constant) and n.args[0].value == "\\\\." and isinstance(n.args[1], ast.Lambda):
            lam = n.args[1]
            marg = lam.args.args[0].arg if lam.args.args else None
            b = lam.body
            grp = "%s.group(0)" % marg
            if isinstance(b, ast.Call) and isinstance(b.func, ast.Attribute) and b.func.attr == "get" and len(b.args) == 2 and K.src(b.args[0]).replace(" ", "") in (grp, "%s.group()" % marg) and K.src(b.args[1]).replace(" ", "") in (grp, "%s.group()" % marg):
                table = b.func.value
                pairs = None
                if isinstance(table, ast.Name):
                    for st in ast.walk(fn):
                        if isinstance(st, ast.Assign) and any(isinstance(t_, ast.Name) and t_.id == table.id for t_ in st.targets):
                            v_ = st.value
                            if isinstance(v_, ast.Call) and isinstance(v_.func, ast.Name) and v_.func.id == "dict" and len(v_.args) == 1:
                                v_ = v_.args[0]
                            pairs = _pairs_of(idx, L.mod, cls_node, v_)
                else:
                    pairs = _pairs_of(idx, L.mod, cls_node, table)
                if pairs is None or not all(len(a_) == 2 and a_[0] == "\\" for a_, _b in pairs):
                    raise AnalysisError("t_STRING decodes escapes with a table the analyser cannot read")
                dotall = any(k.arg == "flags" and "DOTALL" in K.src(k.value) for k in n.keywords)
                return {"kind": "singlepass", "node": n, "pairs": pairs, "dotall": dotall}
    other = [c for c in ast.walk(fn) if isinstance(c, ast.Call) and isinstance(c.func, ast.Attribute) and c.func.attr in ("replace", "translate", "sub")]
    if other:
        raise AnalysisError("t_STRING rewrites the text with `%s`, outside the recognised decoders" % K.src(other[0])[:50])
    return {"kind": "none", "node": fn, "pairs": None}


def decode_with(dec, text):
    """the extracted decoder applied to a string body (None when it rejects the text)"""
    if dec["kind"] == "codec":
        try:
            if dec.get("encoding") == "utf-8":
                return text.encode("utf-8").decode("unicode_escape")
            return text.encode("latin-1", "backslashreplace").decode("unicode_escape")
        except UnicodeDecodeError:
            return None
    if dec["kind"] == "escape_decode":
        import codecs

        try:
            return codecs.escape_decode(text.encode(*dec["enc"]))[0].decode(*dec["dec"])
        except ValueError:
            return None
    if dec["kind"] == "chain":
        for a, b in dec["pairs"]:
            text = text.replace(a, b)
        return text
    if dec["kind"] == "singlepass":
        table = dict(dec["pairs"])
        out, i = [], 0
        while i < len(text):
            if text[i] == "\\" and i + 1 < len(text) and (dec.get("dotall") or text[i + 1] != "\n"):
                seq = text[i:i + 2]
                out.append(table.get(seq, seq))
                i += 2
            else:
                out.append(text[i])
                i += 1
        return "".join(out)
    if dec["kind"] == "none":
        return text
    raise AnalysisError("decoder kind %s cannot be evaluated" % dec["kind"])


def single_pass(pairs, text):
    """what the table means when each escape is decoded once, left to right"""
    keys = sorted(pairs, key=lambda p: -len(p[0]))
    out = []
    i = 0
    while i < len(text):
        for a, b in keys:
            if a and text.startswith(a, i):
                out.append(b)
                i += len(a)
                break
        else:
            out.append(text[i])
            i += 1
    return "".join(out)


def strings(maxlen=4, alphabet=ALPHABET):
    for n in range(maxlen + 1):
        for t in itertools.product(alphabet, repeat=n):
            yield "".join(t)


def chain_is_single_pass(dec, accepts, maxlen=5):
    """first token body on which sequential replacement and one left-to-right pass over the same table disagree (or None)"""
    for s in strings(maxlen):
        if not accepts('"' + s + '"'):
            continue
        if decode_with(dec, s) != single_pass(dec["pairs"], s):
            return s
    return None


def encode_with(chain, text):
    for a, b in chain:
        text = text.replace(a, b)
    return text


def round_trip_witness(writer_chain, dec, maxlen=4):
    """first value whose written form the reader does not decode back to it (or None)"""
    for s in strings(maxlen):
        w = encode_with(writer_chain, s)
        if decode_with(dec, w) != s:
            return s, w, decode_with(dec, w)
    # text outside ASCII: a Latin-1 letter, a BMP character, one beyond the BMP (what the reader's byte handling must give back)
    for s in strings(2, ("\\", '"', "n", "\u00e9", "\u20ac", "\U0001f600")):
        w = encode_with(writer_chain, s)
        if decode_with(dec, w) != s:
            return s, w, decode_with(dec, w)
    return None
