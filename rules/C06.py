"""C06 — fuzzy-logic operators: structural clauses (all inputs used, symmetric roles, right slice end, XOr guard)."""
import ast

from engine.arrays import Arr, Scal
from engine.report import AnalysisError

from . import arrayrules as R
from . import common as K

OPERATORS = ("FuzzyOr", "FuzzyAnd", "FuzzyNot", "FuzzyUnion", "FuzzyWeightedUnion", "FuzzySelectedUnion", "FuzzyXOr")


def branch_of(fi, node, names=("Truest", "Falsest")):
    """Which constant does the enclosing `if x == "<const>"` compare with, and is `node` in the body or the else part?"""
    for n in ast.walk(fi.node):
        if isinstance(n, ast.If) and isinstance(n.test, ast.Compare) and len(n.test.ops) == 1 and isinstance(n.test.ops[0], (ast.Eq, ast.NotEq)):
            c = n.test.comparators[0]
            left = n.test.left
            const = c.value if isinstance(c, ast.Constant) else (left.value if isinstance(left, ast.Constant) else None)
            if const not in names:
                continue
            inbody = any(node is x for b in n.body for x in ast.walk(b))
            inelse = any(node is x for b in n.orelse for x in ast.walk(b))
            eq = isinstance(n.test.ops[0], ast.Eq)
            if inbody:
                return const if eq else [x for x in names if x != const][0]
            if inelse:
                return [x for x in names if x != const][0] if eq else const
    return None


def run(ctx, idx):
    ctx.assume("numpy axioms A11/A12: an ascending layer-axis sort puts the truest layer last; [-k:] selects the k truest, [:k] the k falsest")
    ctx.rule("C06.a", "Every declared data input flows into the returned value (for list inputs: the first element and the rest).")
    ctx.rule("C06.b", "Inputs play symmetric roles: the input list is consumed only through sum, a fold with one binary function over [0] and [1:], stacking + layer-axis sort, len, or a zip of weights[i:] with arrays[i:] using the same i.")
    ctx.rule("C06.c", "FuzzySelectedUnion: after the ascending layer sort the Truest branch averages TopK(NumberToConsider), the Falsest branch BottomK(NumberToConsider); NumberToConsider is checked against the number of inputs before use.")
    ctx.rule("C06.d", "FuzzyXOr reads exactly the two truest layers of the sorted stack and guards the quotient whose divisor is Top(1) - FUZZY_MIN with a test Top(1) <= FUZZY_MIN selecting the constant FUZZY_MIN.")
    res = {d.cls.name: (d, r) for d, r in R.results(idx).values() if d.module.name.endswith("eems.fuzzy")}
    ctx.rule("C06.e", "Missing cells combine as the definitions require: the result is missing wherever any input is (the returned mask covers every input's mask).")
    for name in OPERATORS:
        if name not in res:
            raise AnalysisError("fuzzy operator %s vanished" % name)
        d, r = res[name]
        R.uses_all_inputs(ctx, "C06.a", d, r)
        for n, s, v in R.ret_sites(d, r):
            if isinstance(v, Arr):
                miss = R.input_tokens(d) - v.M
                ctx.ob("C06.e", R.ret_key(d, n) + "::union-of-masks", d.module.rel, R.line_of(s), not miss, "mask covers every input" if not miss else
                       "a cell missing in %s only comes out present: the operator then combines fewer inputs than its definition says (e.g. the k truest of the remaining layers)" % R.tok_text(miss))
        R.symmetric_roles(ctx, "C06.b", d, r)
    # C06.c
    d, r = res["FuzzySelectedUnion"]
    fi = d.execute
    kparam = [nm for nm, p in d.inputs.items() if p.name == "NumberParameter"]
    if len(kparam) != 1:
        raise AnalysisError("FuzzySelectedUnion: cannot identify the count parameter")
    k = "kw:" + kparam[0]
    con = "%s.execute::selected-end" % d.key
    seen = {}
    for node, sel, meth, fk in r.layer_reduces:
        br = branch_of(fi, node)
        seen[br] = (sel, meth, node)
    problems = []
    for br, want in (("Truest", "TopK"), ("Falsest", "BottomK")):
        if br not in seen:
            problems.append("no layer-axis mean is taken in the %s branch" % br)
            continue
        sel, meth, node = seen[br]
        if sel is None or sel[0] == "?":
            raise AnalysisError("C06.c: slice form in the %s branch is outside the recognised forms [-k:] / [:k]: %s" % (br, K.src(node)))
        if meth != "mean":
            problems.append("the %s branch takes the %s, not the mean, of the selected layers" % (br, meth))
        if sel[0] != want:
            problems.append("the %s branch selects %s(%s): that is the %s end of the ascending sort" % (br, sel[0], sel[1], "falsest" if sel[0].startswith("Bottom") else "truest" if sel[0].startswith("Top") else "unsorted"))
        elif sel[1] != k:
            problems.append("the %s branch selects %s layers instead of NumberToConsider itself" % (br, sel[1]))
    line = fi.node.lineno
    if problems:
        ctx.violate("C06.c", con, d.module.rel, seen.get("Truest", seen.get("Falsest", (None, None, fi.node)))[2].lineno, "; ".join(problems))
    else:
        ctx.hold("C06.c", con, d.module.rel, line, "Truest -> mean of TopK(%s), Falsest -> mean of BottomK(%s) on the sorted stack" % (kparam[0], kparam[0]))
    cfg = K.cfg_of(idx, fi)
    raises = [n for n in cfg.find("raise") if (n.meta.get("qual") or "").endswith("InvalidNumberToConsider")]
    slices = [n for n in cfg.find("sub") if any(n.ast is x[0] for x in r.layer_reads)]
    con = "%s.execute::count-checked" % d.key
    if not raises:
        ctx.violate("C06.c", con, d.module.rel, line, "NumberToConsider is never checked against the number of inputs (InvalidNumberToConsider is not raised)")
    else:
        tests = [p for rz in raises for p in cfg.find("test") if cfg.dominates(p, rz)]
        ok = bool(tests) and all(any(cfg.dominates(t, s) for t in tests) for s in slices)
        ctx.ob("C06.c", con, d.module.rel, raises[0].line, ok, "count guard dominates the layer slices" if ok else "the layer slice can be reached before NumberToConsider is checked")
    # C06.d
    d, r = res["FuzzyXOr"]
    fi = d.execute
    con = "%s.execute::two-truest" % d.key
    sels = {sel for node, sel, srt, fk in r.layer_reads}
    unsorted = [sel for node, sel, srt, fk in r.layer_reads if not srt]
    if unsorted:
        ctx.violate("C06.d", con, d.module.rel, fi.node.lineno, "layers are read from a stack that is not sorted ascending along the layer axis")
    elif sels == {("Top", 1), ("Top", 2)}:
        ctx.hold("C06.d", con, d.module.rel, fi.node.lineno, "reads Top(1) and Top(2) of the ascending layer sort")
    else:
        ctx.violate("C06.d", con, d.module.rel, fi.node.lineno, "the exclusive-or reads layers %s instead of the truest and second truest" % sorted(map(str, sels)))
    con = "%s.execute::guarded-quotient" % d.key
    fmin = ("c", -1)
    divs = [x for x in r.divisions if isinstance(x[2], Arr) and x[2].sel == ("Top", 1)]
    if not divs:
        raise AnalysisError("C06.d: no division by (Top(1) - FUZZY_MIN) found in FuzzyXOr")
    okall = True
    why = ""
    for rec in divs:
        node = rec[3]
        guard = None
        for wnode, cond, a, b, fk in r.wheres:
            if any(node is x for x in ast.walk(wnode)):
                guard = (cond, a, b, wnode)
        if guard is None:
            okall = False
            why = "the quotient is not selected through a where() guard"
            continue
        cond, a, b, wnode = guard
        in_else = any(node is x for x in ast.walk(wnode.args[2])) if len(wnode.args) > 2 else False
        cmp = getattr(cond, "cmp", None)
        if cmp is None or cmp[2] != fmin or cmp[1] not in ("LtE", "Lt", "Eq") or not in_else:
            okall = False
            why = "the guard `%s` does not test Top(1) <= FUZZY_MIN in front of the quotient" % K.src(wnode.args[0])
        elif cmp[1] == "Lt":
            okall = False
            why = "the guard uses `<`: Top(1) == FUZZY_MIN still divides by zero"
        elif not (isinstance(a, Scal) and a.const == -1):
            okall = False
            why = "the guarded branch yields %s instead of FUZZY_MIN" % K.src(wnode.args[1])
    ctx.ob("C06.d", con, d.module.rel, divs[0][0], okall, "quotient by (Top(1) - FUZZY_MIN) is guarded by Top(1) <= FUZZY_MIN -> FUZZY_MIN" if okall else why)
