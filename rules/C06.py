"""C06 — fuzzy-logic operators: structural clauses (all inputs used, symmetric roles, right slice end, XOr guard)."""
import ast

from engine.arrays import Arr, Scal
from engine.report import AnalysisError

from . import arrayrules as R
from . import common as K
from .C07 import dtype_rule

OPERATORS = ("FuzzyOr", "FuzzyAnd", "FuzzyNot", "FuzzyUnion", "FuzzyWeightedUnion", "FuzzySelectedUnion", "FuzzyXOr")


def branch_of(fi, node, names=("Truest", "Falsest")):
    """Which constant does the enclosing `if x == "<const>"` compare with, and is `node` in the body or the else part?"""
    for n in ast.walk(fi.node):
        if isinstance(n, ast.If) and isinstance(n.test, ast.Compare) and len(n.test.ops) == 1 and isinstance(n.test.ops[0], (ast.Eq, ast.NotEq)):
            c = n.test.comparators[0]
            left = n.test.left
            const = c.value if isinstance(c, ast.Constant) else (left.value if isinstance(left, ast.Constant) else None)
            if const not in names:
                continue
            inbody = any(node is x for b in n.body for x in ast.walk(b))
            inelse = any(node is x for b in n.orelse for x in ast.walk(b))
            eq = isinstance(n.test.ops[0], ast.Eq)
            if inbody:
                return const if eq else [x for x in names if x != const][0]
            if inelse:
                return [x for x in names if x != const][0] if eq else const
    return None


def xor_quotient_guard(ctx, rule, d, r, consequence=""):
    """the exclusive-or formula divides by (truest - FUZZY_MIN): every use of that quotient is selected away by
    where(truest <= FUZZY_MIN, FUZZY_MIN, ...) - a later item store through the (masked) comparison does not un-mask the 0/0 cells"""
    con = "%s.execute::guarded-quotient" % d.key
    divs = [x for x in r.divisions if isinstance(x[2], Arr) and x[2].sel == ("Top", 1)]
    if not divs:
        raise AnalysisError("%s: no division by (Top(1) - FUZZY_MIN) found in FuzzyXOr" % rule)
    bad_rets = [(n, s_, v) for n, s_, v in R.ret_sites(d, r) if isinstance(v, Arr) and v.unguarded]
    if bad_rets:
        ctx.violate(rule, con, d.module.rel, divs[0][0], "the quotient whose divisor is Top(1) - FUZZY_MIN reaches the result without a guard selecting FUZZY_MIN where Top(1) <= FUZZY_MIN (a `<` test, a swapped branch or no where() at all): when every input is fully false the cell is 0/0" + consequence)
    else:
        ctx.hold(rule, con, d.module.rel, divs[0][0], "every use of the quotient by (Top(1) - FUZZY_MIN) is selected by where(Top(1) <= FUZZY_MIN, FUZZY_MIN, ...)")


def run(ctx, idx):
    ctx.assume("numpy axioms A11/A12: an ascending layer-axis sort puts the truest layer last; [-k:] selects the k truest, [:k] the k falsest")
    ctx.rule("C06.a", "Every declared data input flows into the returned value (for list inputs: the first element and the rest).")
    ctx.rule("C06.b", "Inputs play symmetric roles (no buffer or accumulator whose element type is pinned to one input while the others are cast into it): the input list is consumed only through sum, a fold with one binary function over [0] and [1:], stacking + layer-axis sort, len, or a zip of weights[i:] with arrays[i:] using the same i.")
    ctx.rule("C06.c", "FuzzySelectedUnion: after the ascending layer sort the Truest branch averages TopK(NumberToConsider), the Falsest branch BottomK(NumberToConsider); NumberToConsider is checked against the number of inputs before use.")
    ctx.rule("C06.d", "FuzzyXOr reads exactly the two truest layers of the sorted stack and guards the quotient whose divisor is Top(1) - FUZZY_MIN with a test Top(1) <= FUZZY_MIN selecting the constant FUZZY_MIN.")
    ctx.rule("C06.g", "An operator is a function of the fields it is given: its execute keeps nothing between executions (no module-level table of stacks / results keyed by names, no cached helper) - two programs in one process, or one model loaded twice over different data, must not see each other's layers.")
    R.no_kept_state(ctx, idx, "C06.g", OPERATORS, ": the operator returns the mean / maximum of another data set's layers")
    # read before the array analyser runs: the exclusive-or is defined on the truest and the second truest of ALL inputs - the
    # formula is not associative, so a pairwise fold over the inputs (reduce) computes something else for three inputs or more,
    # and depends on their order
    xcls = idx.cls("mpilot.libraries.eems.fuzzy", "FuzzyXOr")
    xex = xcls.methods.get("execute") if xcls is not None else None
    if xex is None:
        raise AnalysisError("C06.d: FuzzyXOr.execute vanished")
    folds = [n for n in ast.walk(getattr(xex, "node_orig", None) or xex.node) if isinstance(n, ast.Call) and (idx.qualname(xex.module, n.func, xex) or K.src(n.func)).split(".")[-1] == "reduce"
             and len(n.args) >= 2 and not ("mask" in K.src(n.args[1]) or "mask" in K.src(n.args[0]))]
    if folds:
        # what is folded: the formula itself (a division in the folded function, directly or through another local function) is the
        # violation; a fold that carries something else along (the pair of the two truest so far, say) is not followed from here
        src_ = getattr(xex, "node_orig", None) or xex.node
        local_ = {n.name: n for n in ast.walk(src_) if isinstance(n, ast.FunctionDef) and n is not src_}
        local_.update({t.id: st.value for st in ast.walk(src_) if isinstance(st, ast.Assign) and isinstance(st.value, ast.Lambda) for t in st.targets if isinstance(t, ast.Name)})

        def _divides(fn, seen=()):
            if isinstance(fn, ast.Name):
                if fn.id in seen or fn.id not in local_:
                    return fn.id not in local_ and None
                return _divides(local_[fn.id], seen + (fn.id,))
            if not isinstance(fn, (ast.FunctionDef, ast.Lambda)):
                return None
            for n in ast.walk(fn):
                if isinstance(n, ast.BinOp) and isinstance(n.op, ast.Div):
                    return True
                if isinstance(n, ast.Call) and isinstance(n.func, ast.Name) and n.func.id in local_ and n.func.id not in seen and _divides(n.func, seen):
                    return True
                if isinstance(n, ast.Call) and (idx.qualname(xex.module, n.func, xex) or K.src(n.func)).split(".")[-1] in ("divide", "true_divide"):
                    return True
            return False
        dv = _divides(folds[0].args[0])
        if dv is not True:
            raise AnalysisError("C06.d: FuzzyXOr folds `%s` over its inputs and the folded function does not apply the exclusive-or formula itself: what it carries from input to input is outside what this rule decides" % K.src(folds[0].args[0])[:40])
        ctx.violate("C06.d", "%s::two-truest" % xex.key.replace(".execute", "") + ".execute", K.rel(xex), folds[0].lineno, "`%s` folds the exclusive-or over the inputs pair by pair: the EEMS formula is not associative, so with three or more inputs the value is not the one defined on the truest and second truest of all of them, and it changes with the order of the inputs" % K.src(folds[0])[:60])
        return
    res = {d.cls.name: (d, r) for d, r in R.results(idx).values() if d.module.name.endswith("eems.fuzzy")}
    ctx.rule("C06.f", "Operators leave their operands alone: no in-place write (data or mask buffer) reaches an input.")
    ctx.rule("C06.e", "Missing cells combine as the definitions require: the result is missing wherever any input is (the returned mask covers every input's mask).")
    for name in OPERATORS:
        if name not in res:
            raise AnalysisError("fuzzy operator %s vanished" % name)
        d, r = res[name]
        R.uses_all_inputs(ctx, "C06.a", d, r)
        for kind_, line_, msg_, fk_, node_ in r.findings:
            if kind_ == "out-container":
                ctx.violate("C06.e", "%s.execute::out-target-is-masked@%s" % (d.key, K.src(node_)[:40]), d.module.rel, line_, msg_ + " (the operator then combines a hidden value where the definition has a missing cell, and the result depends on which input comes first)")
        for n, s, v in R.ret_sites(d, r):
            if isinstance(v, Arr):
                miss = R.input_tokens(d) - v.M
                ctx.ob("C06.e", R.ret_key(d, n) + "::union-of-masks", d.module.rel, R.line_of(s), not miss, "mask covers every input" if not miss else
                       "a cell missing in %s only comes out present: the operator then combines fewer inputs than its definition says (e.g. the k truest of the remaining layers)" % R.tok_text(miss))
        R.symmetric_roles(ctx, "C06.b", d, r)
        dtype_rule(ctx, "C06.b", d, r)
        R.leaves_inputs_alone(ctx, "C06.f", d, r, "the operator's own result is right, but the input it wrote through now carries the other inputs' missing cells (or values), so every operator evaluated on it afterwards no longer computes its definition, and which input is damaged depends on the order they are listed in")
    # C06.c
    d, r = res["FuzzySelectedUnion"]
    fi = d.execute
    kparam = [nm for nm, p in d.inputs.items() if p.name == "NumberParameter"]
    if len(kparam) != 1:
        raise AnalysisError("FuzzySelectedUnion: cannot identify the count parameter")
    k = "kw:" + kparam[0]
    con = "%s.execute::selected-end" % d.key
    def branch_from_conditions(conds):
        """'Truest' / 'Falsest' from the stack of branch conditions under which a layer slice was taken"""
        for test, taken in reversed(conds):
            t = K.expand(fi, test) if hasattr(fi, "node") else test
            if isinstance(t, ast.Compare) and len(t.ops) == 1 and isinstance(t.ops[0], (ast.Eq, ast.NotEq)):
                consts = [x.value for x in [t.left] + list(t.comparators) if isinstance(x, ast.Constant)]
                if consts and consts[0] in ("Truest", "Falsest"):
                    eq = isinstance(t.ops[0], ast.Eq)
                    holds = taken == eq
                    other = "Falsest" if consts[0] == "Truest" else "Truest"
                    return consts[0] if holds else other
        return None

    seen = {}
    for rec in r.layer_reads:
        node, sel, srt, fk = rec[:4]
        conds = rec[4] if len(rec) > 4 else ()
        br = branch_from_conditions(conds) or branch_of(fi, node)
        if sel and sel[0] in ("TopK", "BottomK", "BottomKOrNone", "?", "UnsortedSlice"):
            # a slice taken under no Truest/Falsest condition serves both cases
            for b_ in ([br] if br is not None else ["Truest", "Falsest"]):
                if br is not None or b_ not in seen:
                    seen[b_] = (sel, "mean", node)
    meths = {meth for node, sel, meth, fk in r.layer_reduces}
    problems = []
    if not r.layer_reduces:
        problems.append("no layer-axis mean is taken at all")
    elif meths == {"sum"} and all(any(isinstance(q_, ast.BinOp) and isinstance(q_.op, ast.Div) and any(n_ is x_ for x_ in ast.walk(q_.left)) and isinstance(n_, ast.Call) and isinstance(n_.func, ast.Attribute)
                                        and K.src(q_.right) == "len(%s)" % K.src(n_.func.value) for q_ in ast.walk(fi.node)) for n_, sel_, m_, fk_ in r.layer_reduces):
        pass  # x.sum(axis=0) / len(x): the mean written out
    elif meths != {"mean"}:
        problems.append("the selected layers are combined by %s, not by their mean" % "/".join(sorted(meths - {"mean"})))
    for br, want in (("Truest", "TopK"), ("Falsest", "BottomK")):
        if br not in seen:
            problems.append("no layer slice is taken for the %s case" % br)
            continue
        sel, meth, node = seen[br]
        if sel is None or sel[0] == "?":
            raise AnalysisError("C06.c: slice form in the %s branch is outside the recognised forms [-k:] / [:k]: %s" % (br, K.src(node)))
        if sel[0] == "UnsortedSlice":
            problems.append("the %s case slices a stack that is not sorted along the layer axis" % br)
        elif sel[0] == "BottomKOrNone":
            problems.append("the %s branch takes `%s`, all layers but the last n - k: for k = n the upper bound is -0 = 0 and the slice is empty, so considering every input yields an all-missing result instead of the plain mean" % (br, K.src(node)))
        elif sel[0] != want:
            problems.append("the %s branch selects %s(%s): that is the %s end of the ascending sort" % (br, sel[0], sel[1], "falsest" if sel[0].startswith("Bottom") else "truest" if sel[0].startswith("Top") else "unsorted"))
        elif sel[1] != k:
            problems.append("the %s branch selects %s layers instead of NumberToConsider itself" % (br, sel[1]))
    line = fi.node.lineno
    parts_ = [c_ for c_ in ast.walk(fi.node) if isinstance(c_, ast.Call) and isinstance(c_.func, ast.Attribute) and c_.func.attr in ("partition", "argpartition")]
    if problems and any("not sorted along the layer axis" in p_ for p_ in problems) and parts_:
        # ONE partial ordering in front of both cases cannot serve both: a pivot at k - 1 puts the k falsest layers first, the k
        # truest need the pivot at n - k (the two coincide for two inputs only)
        par_p = {}
        for x_ in ast.walk(fi.node):
            for ch_ in ast.iter_child_nodes(x_):
                par_p[id(ch_)] = x_

        def _in_branch(n_):
            up_ = par_p.get(id(n_))
            while up_ is not None and up_ is not fi.node:
                if isinstance(up_, (ast.If, ast.IfExp)):
                    return True
                up_ = par_p.get(id(up_))
            return False
        shared_ = [c_ for c_ in parts_ if not _in_branch(c_)]
        if len(parts_) == 1 and shared_ and "Truest" in seen and "Falsest" in seen:
            piv_ = shared_[0].args[1] if K.src(shared_[0].func).startswith("numpy.") and len(shared_[0].args) > 1 else (shared_[0].args[0] if shared_[0].args else None)
            ctx.violate("C06.c", con, d.module.rel, shared_[0].lineno, "one partial ordering (pivot `%s`) is followed by the Truest slice and by the Falsest slice: a pivot that puts the k falsest layers first leaves the other end unordered (and the other way round), so for three or more inputs one of the two cases averages layers that are not the k truest / falsest" % (K.src(piv_)[:40] if piv_ is not None else "?"))
            problems = []
    if problems and any("not sorted along the layer axis" in p_ for p_ in problems) and parts_:
        raise AnalysisError("C06.c: FuzzySelectedUnion orders its layer stack only partially (partition): which layers the slices select depends on the pivot and is outside what this rule reads")
    if problems:
        ctx.violate("C06.c", con, d.module.rel, seen.get("Truest", seen.get("Falsest", (None, None, fi.node)))[2].lineno, "; ".join(problems))
    else:
        ctx.hold("C06.c", con, d.module.rel, line, "Truest -> mean of TopK(%s), Falsest -> mean of BottomK(%s) on the sorted stack" % (kparam[0], kparam[0]))
    cfg = K.cfg_of(idx, fi)
    raises = [n for n in cfg.find("raise") if (n.meta.get("qual") or "").endswith("InvalidNumberToConsider")]
    slices = [n for n in cfg.find("sub") if any(n.ast is x[0] for x in r.layer_reads)]
    con = "%s.execute::count-checked" % d.key
    if not raises:
        ctx.violate("C06.c", con, d.module.rel, line, "NumberToConsider is never checked against the number of inputs (InvalidNumberToConsider is not raised)")
    else:
        tests = [p for rz in raises for p in cfg.find("test") if cfg.dominates(p, rz)]
        ok = bool(tests) and all(any(cfg.dominates(t, s) for t in tests) for s in slices)
        ctx.ob("C06.c", con, d.module.rel, raises[0].line, ok, "count guard dominates the layer slices" if ok else "the layer slice can be reached before NumberToConsider is checked")
    # C06.d
    d, r = res["FuzzyXOr"]
    fi = d.execute
    con = "%s.execute::two-truest" % d.key
    sels = {rec[1] for rec in r.layer_reads}
    unsorted = [rec[1] for rec in r.layer_reads if not rec[2]]
    if unsorted:
        ctx.violate("C06.d", con, d.module.rel, fi.node.lineno, "layers are read from a stack that is not sorted ascending along the layer axis")
    elif sels == {("Top", 1), ("Top", 2)}:
        ctx.hold("C06.d", con, d.module.rel, fi.node.lineno, "reads Top(1) and Top(2) of the ascending layer sort")
    else:
        ctx.violate("C06.d", con, d.module.rel, fi.node.lineno, "the exclusive-or reads layers %s instead of the truest and second truest" % sorted(map(str, sels)))
    xor_quotient_guard(ctx, "C06.d", d, r)
