"""C16 — EEMS 2.0 command files translate to equivalent MPilot programs."""
import ast

from engine import tables
from engine.index import own_nodes
from engine.report import AnalysisError

from . import common as K


def run(ctx, idx):
    ctx.rule("C16.a", "Every value of the EEMS 2.0 name table names a command class that exists in both built-in library sets (table agreement, exact).")
    ctx.rule("C16.b", "convert_eems2_commands builds each new node with name table.get(old, old), result name = first present of {own result name, NewFieldName, InFieldName}, the old arguments minus exactly {NewFieldName, OutFileName} in order, and the old line.")
    ctx.rule("C16.c", "from_source converts when the parser reported version 2 or any command name is a table key; the parser's version flag is set exactly in the result-less command production.")
    conversion_keeps_every_command(ctx, idx, "C16.b", "the converted program lacks a command the EEMS 2.0 file has - its result is never defined, or a later command of that name is taken for it")
    utils = idx.module_of("mpilot.utils")
    if "EEMS_COMMANDS" not in utils.consts:
        raise AnalysisError("EEMS_COMMANDS vanished from mpilot/utils.py")
    tnode = utils.consts["EEMS_COMMANDS"]
    try:
        table = idx.const(utils, tnode)
    except KeyError:
        raise AnalysisError("EEMS_COMMANDS is not a literal table")
    ctx.floor("C16.a", "entries of EEMS_COMMANDS", len(table), 20)
    sets = tables.library_sets(idx)
    cmds = K.table(idx)
    lines = {}
    if isinstance(tnode, ast.Dict):
        for k in tnode.keys:
            if isinstance(k, ast.Constant):
                lines[k.value] = k.lineno
    for old, new in sorted(table.items()):
        missing = []
        for sname, libs in sorted(sets.items()):
            names = {c.name for c in tables.visible_commands(cmds, libs)}
            if new not in names:
                missing.append(sname)
        con = "mpilot/utils.py::EEMS_COMMANDS[%s]" % old
        if missing:
            ctx.violate("C16.a", con, utils.rel, lines.get(old, tnode.lineno), "EEMS 2.0 command %s maps to `%s`, which is not a command of %s: the file loads to CommandDoesNotExist" % (old, new, " or ".join(missing)))
        else:
            ctx.hold("C16.a", con, utils.rel, lines.get(old, tnode.lineno), "%s -> %s exists in both library sets" % (old, new))
    # ---- b
    fi = idx.func("mpilot.utils", "convert_eems2_commands")
    ctor = None
    for n in own_nodes(fi.node):
        if isinstance(n, ast.Call) and idx.qualname(fi.module, n.func, fi) == "mpilot.parser.parser.CommandNode":
            ctor = n
    # the conversion builds new nodes and leaves the parsed ones as they are: a parse tree may be kept and converted again
    # (a second load of the same text, a caller holding the tree) - arguments removed from the parsed node are gone for good
    for n in own_nodes(fi.node):
        mut = None
        if isinstance(n, ast.Call) and isinstance(n.func, ast.Attribute) and n.func.attr in ("remove", "pop", "clear", "append", "insert", "extend", "sort", "reverse") and K.src(n.func.value).endswith(".arguments"):
            mut = n
        if isinstance(n, ast.Delete) and any(isinstance(t_, ast.Subscript) and K.src(t_.value).endswith(".arguments") for t_ in n.targets):
            mut = n
        if isinstance(n, (ast.Assign, ast.AugAssign)) and any(isinstance(t_, ast.Subscript) and K.src(t_.value).endswith(".arguments") for t_ in (n.targets if isinstance(n, ast.Assign) else [n.target])):
            mut = n
        if mut is not None:
            ctx.violate("C16.b", "%s::parsed-nodes-left-alone" % fi.key, utils.rel, mut.lineno, "`%s` edits the argument list of the PARSED node in place: a tree that is converted again (the same text loaded twice through a parse cache, a caller that keeps the tree) has already lost its NewFieldName / OutFileName, so the second load names its results differently from the mapped MPilot file - or not at all" % K.src(mut)[:60])
            break
    else:
        ctx.hold("C16.b", "%s::parsed-nodes-left-alone" % fi.key, utils.rel, fi.node.lineno, "the conversion does not edit the parsed nodes' argument lists", nontrivial=False)
    if ctor is None:
        raise AnalysisError("convert_eems2_commands no longer builds CommandNode objects")
    fields = idx.const(idx.module_of("mpilot.parser.parser"), idx.module_of("mpilot.parser.parser").consts["CommandNode"].args[1])
    args = {}
    for i, a in enumerate(ctor.args):
        args[fields[i]] = K.expand(fi, a)
    for k in ctor.keywords:
        args[k.arg] = K.expand(fi, k.value)
    raw_args = {}
    for i, a in enumerate(ctor.args):
        raw_args[fields[i]] = a
    for k in ctor.keywords:
        raw_args[k.arg] = k.value
    loopvar = None
    for n in own_nodes(fi.node):
        if isinstance(n, ast.For) and any(ctor is x for x in ast.walk(n)) and isinstance(n.target, ast.Name):
            loopvar = n.target.id
    if loopvar is None:
        raise AnalysisError("C16.b: conversion loop not found")

    def is_node_attr(e, attr):
        return isinstance(e, ast.Attribute) and e.attr == attr and isinstance(e.value, ast.Name) and e.value.id == loopvar

    def find_arg(e):
        """find_argument(node, "X") -> "X" """
        if isinstance(e, ast.Call) and e.args and len(e.args) == 2 and isinstance(e.args[1], ast.Constant) and isinstance(e.args[0], ast.Name) and e.args[0].id == loopvar:
            return e.args[1].value
        return None

    def find_args(e):
        """find_argument(node, "X", "Y") -> ["X", "Y"] (the names in the order requested; who wins is decided under ::find_argument)"""
        if isinstance(e, ast.Call) and len(e.args) > 2 and all(isinstance(a_, ast.Constant) and isinstance(a_.value, str) for a_ in e.args[1:]) and isinstance(e.args[0], ast.Name) and e.args[0].id == loopvar:
            return [a_.value for a_ in e.args[1:]]
        return None

    # name
    e = args.get("command")
    ok = isinstance(e, ast.Call) and isinstance(e.func, ast.Attribute) and e.func.attr == "get" and idx.qualname(fi.module, e.func.value, fi) == "mpilot.utils.EEMS_COMMANDS" and len(e.args) == 2 and is_node_attr(e.args[0], "command") and is_node_attr(e.args[1], "command")
    if not ok and isinstance(raw_args.get("command"), ast.Name):
        ndefs = [n_ for n_ in own_nodes(fi.node) if isinstance(n_, ast.Assign) and any(isinstance(t_, ast.Name) and t_.id == raw_args["command"].id for t_ in n_.targets)]
        if len(ndefs) > 1:
            raise AnalysisError("C16.b: the converted command name `%s` is chosen among %d expressions under conditions; which files each applies to is outside the recognised forms" % (raw_args["command"].id, len(ndefs)))
    ctx.ob("C16.b", "%s::name" % fi.key, utils.rel, ctor.lineno, ok, "name = EEMS_COMMANDS.get(old, old)" if ok else "the converted command name is `%s`, not EEMS_COMMANDS.get(node.command, node.command)" % K.src(e))
    # result name
    e = args.get("result_name")
    if not (isinstance(e, ast.BoolOp) and isinstance(e.op, ast.Or)) and raw_args.get("result_name") is not None:
        e = K.flow_expand(fi, raw_args["result_name"], ctor)
    order = []

    def flat_or(x):
        if isinstance(x, ast.BoolOp) and isinstance(x.op, ast.Or):
            for v_ in x.values:
                for y in flat_or(v_):
                    yield y
        else:
            yield x

    if isinstance(e, ast.BoolOp) and isinstance(e.op, ast.Or):
        vals_ = list(flat_or(e))
        # `(not A and B) or A or C` has the value of `A or B or C` for every A, B, C (B is consulted only when A is falsy, and a
        # falsy A then contributes nothing): read it in that order
        if len(vals_) >= 2 and isinstance(vals_[0], ast.BoolOp) and isinstance(vals_[0].op, ast.And) and len(vals_[0].values) == 2 \
                and isinstance(vals_[0].values[0], ast.UnaryOp) and isinstance(vals_[0].values[0].op, ast.Not) and ast.dump(vals_[0].values[0].operand) == ast.dump(vals_[1]):
            vals_ = [vals_[1], vals_[0].values[1]] + vals_[2:]
        for v in vals_:
            if find_args(v):
                order.extend(find_args(v))
            else:
                order.append("own" if is_node_attr(v, "result_name") else find_arg(v))
    ok = order == ["own", "NewFieldName", "InFieldName"]
    if not ok and isinstance(e, ast.BoolOp):
        # a source that is a local filled in by a loop over the arguments: if it is not reset for each command it carries the
        # previous command's value over (a violation whatever the loop does); if it is, what the loop picks is not read here
        node_loop = next((n for n in own_nodes(fi.node) if isinstance(n, ast.For) and isinstance(n.target, ast.Name) and n.target.id == loopvar and any(ctor is x for x in ast.walk(n))), None)
        for v in flat_or(e):
            if isinstance(v, ast.Name) and v.id != loopvar and node_loop is not None:
                def _targets(st):
                    for t in (st.targets if isinstance(st, ast.Assign) else []):
                        for x in ([t] if isinstance(t, ast.Name) else t.elts if isinstance(t, ast.Tuple) else []):
                            if isinstance(x, ast.Name):
                                yield x.id
                reset = any(v.id in set(_targets(st)) for st in node_loop.body)
                inner = any(v.id in set(_targets(st)) for st in ast.walk(node_loop) if isinstance(st, ast.Assign))
                if inner and not reset:
                    ctx.ob("C16.b", "%s::result-name" % fi.key, utils.rel, ctor.lineno, False,
                           "the result-name source `%s` is filled in while the arguments are walked but never reset per command: a command without that argument gets the value left by an earlier command" % v.id)
                    order = None
                    break
                if inner:
                    raise AnalysisError("C16.b: the result-name source `%s` is picked up by a loop over the arguments; which argument it ends up holding is outside the recognised forms" % v.id)
    rn_ = raw_args.get("result_name")
    if order is not None and not ok and not order and isinstance(rn_, ast.Name):
        # one variable assigned, in a walk over the arguments, under a test that admits BOTH candidate arguments and never looks at
        # what the variable already holds, with no break: whichever of the two is WRITTEN LAST in the file wins - the documented
        # precedence (NewFieldName before InFieldName) holds only for files that list them in the conventional order
        for lp_ in [n for n in own_nodes(fi.node) if isinstance(n, ast.For) and isinstance(n.target, ast.Name) and K.src(n.iter).endswith(".arguments")]:
            av_ = lp_.target.id
            for if_ in [n for n in ast.walk(lp_) if isinstance(n, ast.If)]:
                asg_ = [st for st in if_.body if isinstance(st, ast.Assign) and any(isinstance(t, ast.Name) and t.id == rn_.id for t in st.targets)]
                if not asg_ or any(isinstance(x, ast.Break) for st in if_.body for x in ast.walk(st)):
                    continue
                names_ = set()
                for c_ in ast.walk(if_.test):
                    if isinstance(c_, ast.Compare) and len(c_.ops) == 1 and K.src(c_.left) == "%s.name" % av_:
                        if isinstance(c_.ops[0], ast.In) and isinstance(c_.comparators[0], (ast.Tuple, ast.List, ast.Set)):
                            names_ |= {x.value for x in c_.comparators[0].elts if isinstance(x, ast.Constant)}
                        elif isinstance(c_.ops[0], ast.Eq) and isinstance(c_.comparators[0], ast.Constant):
                            names_.add(c_.comparators[0].value)
                looks_ = any(isinstance(x, ast.Name) and x.id == rn_.id for x in ast.walk(if_.test))
                if {"NewFieldName", "InFieldName"} <= names_ and not looks_ and ("%s.value" % av_) in K.src(asg_[0].value):
                    ctx.ob("C16.b", "%s::result-name" % fi.key, utils.rel, asg_[0].lineno, False,
                           "`%s` is assigned for NewFieldName and for InFieldName alike while the arguments are walked, without a look at what it already holds: the one written LAST wins, so `READ(NewFieldName = b, InFieldName = a)` is named `a` - the precedence own name, NewFieldName, InFieldName holds only for files that list the arguments in that order" % rn_.id)
                    order = None
                    break
            if order is None:
                break
    if order is None:
        pass
    elif not ok and not order:
        # not an `a or b or c` chain (e.g. a loop over the candidate argument names): the order of the sources is not
        # something this rule can read off - no verdict rather than a guess
        raise AnalysisError("C16.b: the result name of a converted command is computed by `%s`, which is outside the recognised forms (own name or NewFieldName or InFieldName as one expression)" % K.src(e)[:60])
    if order is not None:
      ctx.ob("C16.b", "%s::result-name" % fi.key, utils.rel, ctor.lineno, ok,
           "result name = own or NewFieldName or InFieldName" if ok else "result name sources are %s, expected own result name, then NewFieldName, then InFieldName" % (order or K.src(e)))
    # the name comes from an argument *value*, which the parser delivers as any kind (list, number, boolean, nothing):
    # it must be checked to be a name before it is used as one
    name_expr = K.src(K.flow_expand(fi, raw_args.get("result_name"), ctor)) if raw_args.get("result_name") is not None else None
    checked = False
    for n in own_nodes(fi.node):
        if not isinstance(n, ast.If):
            continue
        t = n.test
        neg = False
        while isinstance(t, ast.UnaryOp) and isinstance(t.op, ast.Not):
            neg = not neg
            t = t.operand
        if isinstance(t, ast.Call) and isinstance(t.func, ast.Name) and t.func.id == "isinstance" and len(t.args) == 2 and ("string_types" in K.src(t.args[1]) or K.src(t.args[1]) in ("str", "(str,)", "six.text_type")):
            if K.src(K.flow_expand(fi, t.args[0], t)) == name_expr:
                branch = n.body if neg else n.orelse
                if any(isinstance(x, ast.Raise) for st in branch for x in ast.walk(st)):
                    checked = True
    ctx.ob("C16.b", "%s::result-name-is-a-name" % fi.key, utils.rel, ctor.lineno, checked,
           "the value used as result name is checked to be a string (anything else is refused with a ProgramError)" if checked else
           "the result name is taken from an argument value without checking that it is a name: `READ(InFileName=a.csv, InFieldName=[a, b])` makes a list the result name and a raw TypeError (unhashable list) escapes from loading; a command with no name source at all silently gets the result name None")
    # arguments
    e = args.get("arguments")
    ok = False
    why = "arguments are `%s`" % K.src(e)
    # shortcut form: the parsed list is passed through when it holds neither name -
    #   names = [a.name for a in node.arguments]; if "X" in names or "Y" in names: arguments = [filter] else: arguments = node.arguments
    shortcut = None
    ra_ = raw_args.get("arguments")
    if isinstance(ra_, ast.Name):
        defs_sc = [n_ for n_ in own_nodes(fi.node) if isinstance(n_, ast.Assign) and len(n_.targets) == 1 and isinstance(n_.targets[0], ast.Name) and n_.targets[0].id == ra_.id]
        ifs_sc = [n_ for n_ in own_nodes(fi.node) if isinstance(n_, ast.If) and len(defs_sc) == 2 and any(d_ in n_.body for d_ in defs_sc) and any(d_ in n_.orelse for d_ in defs_sc)]
        if len(defs_sc) == 2 and len(ifs_sc) == 1:
            if_ = ifs_sc[0]
            filt_ = next(d_ for d_ in defs_sc if d_ in if_.body)
            pass_ = next(d_ for d_ in defs_sc if d_ in if_.orelse)
            if is_node_attr(pass_.value, "arguments") and isinstance(filt_.value, ast.ListComp):
                tests_ = if_.test.values if isinstance(if_.test, ast.BoolOp) and isinstance(if_.test.op, ast.Or) else [if_.test]
                tested, holders = set(), set()
                for t_ in tests_:
                    if isinstance(t_, ast.Compare) and len(t_.ops) == 1 and isinstance(t_.ops[0], ast.In) and isinstance(t_.left, ast.Constant) and isinstance(t_.comparators[0], ast.Name):
                        tested.add(t_.left.value)
                        holders.add(t_.comparators[0].id)
                    else:
                        tested = None
                        break
                if tested is not None and len(holders) == 1:
                    hn_ = next(iter(holders))
                    hdefs = [n_.value for n_ in own_nodes(fi.node) if isinstance(n_, ast.Assign) and any(isinstance(t_, ast.Name) and t_.id == hn_ for t_ in n_.targets)]
                    if len(hdefs) == 1:
                        hv_ = hdefs[0]
                        comp_ = hv_.args[0] if isinstance(hv_, ast.Call) and K.src(hv_.func) in ("list", "set", "tuple", "frozenset") and len(hv_.args) == 1 else hv_
                        names_ok = isinstance(comp_, (ast.ListComp, ast.SetComp, ast.GeneratorExp)) and len(comp_.generators) == 1 and not comp_.generators[0].ifs and is_node_attr(comp_.generators[0].iter, "arguments") \
                            and isinstance(comp_.elt, ast.Attribute) and comp_.elt.attr == "name" and isinstance(comp_.elt.value, ast.Name) and isinstance(comp_.generators[0].target, ast.Name) and comp_.elt.value.id == comp_.generators[0].target.id
                        one_shot = isinstance(hv_, ast.GeneratorExp)
                        if names_ok:
                            shortcut = (tested, one_shot, if_, hn_)
                            e = filt_.value
    if isinstance(e, ast.ListComp) and len(e.generators) == 1:
        g = e.generators[0]
        if is_node_attr(g.iter, "arguments") and isinstance(e.elt, ast.Name) and isinstance(g.target, ast.Name) and e.elt.id == g.target.id and len(g.ifs) == 1:
            c = g.ifs[0]
            extra_keep = None
            if isinstance(c, ast.BoolOp) and isinstance(c.op, ast.Or) and len(c.values) == 2 and isinstance(c.values[1], ast.Compare) and isinstance(c.values[1].ops[0], ast.In) \
                    and isinstance(c.values[1].left, ast.Attribute) and c.values[1].left.attr == "name" and isinstance(c.values[1].comparators[0], ast.Name):
                # `... or arg.name in <kept>`: some of the two names survive.  That is the mapping only when <kept> is empty for
                # every EEMS 2.0 command: bound to an empty constant, and rebound only under `<node>.command not in <the mapping table>`
                # (a command written with its MPilot name is mapped to itself, arguments and all)
                kn = c.values[1].comparators[0].id
                defs_ = [n_ for n_ in own_nodes(fi.node) if isinstance(n_, ast.Assign) and any(isinstance(t_, ast.Name) and t_.id == kn for t_ in n_.targets)]
                par_ = {}
                for x_ in ast.walk(fi.node):
                    for ch_ in ast.iter_child_nodes(x_):
                        par_[id(ch_)] = x_

                def _mpilot_only(n_):
                    up_ = par_.get(id(n_))
                    if not (isinstance(up_, ast.If) and n_ in up_.body):
                        return False
                    conj_ = up_.test.values if isinstance(up_.test, ast.BoolOp) and isinstance(up_.test.op, ast.And) else [up_.test]
                    return any(isinstance(t_, ast.Compare) and len(t_.ops) == 1 and isinstance(t_.ops[0], ast.NotIn) and is_node_attr(t_.left, "command") and K.src(t_.comparators[0]).endswith("EEMS_COMMANDS") for t_ in conj_)

                empties_ = [n_ for n_ in defs_ if isinstance(n_.value, (ast.Tuple, ast.List, ast.Set)) and not n_.value.elts or K.src(n_.value) in ("frozenset()", "set()", "tuple()", "list()")]
                others_ = [n_ for n_ in defs_ if n_ not in empties_]
                if empties_ and all(_mpilot_only(n_) for n_ in others_) and not any(isinstance(par_.get(id(n_)), ast.If) for n_ in empties_):
                    extra_keep = kn
                    c = c.values[0]
            if isinstance(c, ast.Compare) and isinstance(c.ops[0], ast.NotIn) and isinstance(c.left, ast.Attribute) and c.left.attr == "name":
                try:
                    dropped = set(idx.const(fi.module, c.comparators[0], fi))
                except KeyError:
                    dropped = None
                ok = dropped == {"NewFieldName", "OutFileName"}
                why = "arguments kept in order, dropping exactly %s" % sorted(dropped or [])
                if extra_keep:
                    why += " for every EEMS 2.0 command (`%s` is empty unless the command is written with its MPilot name)" % extra_keep
    if not ok and isinstance(raw_args.get("arguments"), ast.Name):
        # loop form: out = []; for arg in node.arguments: if arg.name not in <const>: out.append(arg)
        nm = raw_args["arguments"].id
        for lp in [n for n in own_nodes(fi.node) if isinstance(n, ast.For)]:
            if not (is_node_attr(lp.iter, "arguments") and isinstance(lp.target, ast.Name)):
                continue
            apps = [c for c in ast.walk(lp) if isinstance(c, ast.Call) and isinstance(c.func, ast.Attribute) and c.func.attr == "append" and isinstance(c.func.value, ast.Name) and c.func.value.id == nm]
            tests = [t for t in ast.walk(lp) if isinstance(t, ast.Compare) and len(t.ops) == 1 and isinstance(t.ops[0], (ast.NotIn, ast.In)) and isinstance(t.left, ast.Attribute) and t.left.attr == "name"]
            inits = [n for n in own_nodes(fi.node) if isinstance(n, ast.Assign) and any(isinstance(t, ast.Name) and t.id == nm for t in n.targets)]
            if len(apps) == 1 and len(tests) == 1 and apps[0].args and isinstance(apps[0].args[0], ast.Name) and apps[0].args[0].id == lp.target.id and len(inits) == 1 and isinstance(inits[0].value, ast.List) and not inits[0].value.elts:
                try:
                    dropped = set(idx.const(fi.module, tests[0].comparators[0], fi))
                except KeyError:
                    dropped = None
                # append must happen exactly for names outside the dropped set
                guard_if = [n for n in ast.walk(lp) if isinstance(n, ast.If) and n.test is tests[0]]
                in_body = bool(guard_if) and any(apps[0] is x for b in guard_if[0].body for x in ast.walk(b))
                notin = isinstance(tests[0].ops[0], ast.NotIn)
                cont = bool(guard_if) and any(isinstance(x, ast.Continue) for b in guard_if[0].body for x in ast.walk(b))
                keeps_others = (notin and in_body) or ((not notin) and (cont or not in_body))
                ok = dropped == {"NewFieldName", "OutFileName"} and keeps_others
                why = "arguments kept in order by an explicit loop, dropping exactly %s" % sorted(dropped or [])
    if not ok and isinstance(raw_args.get("arguments"), ast.Name):
        verdict = _kept_by_name(idx, fi, raw_args["arguments"].id, is_node_attr)
        if verdict is not None:
            ok, why = verdict
    if shortcut is not None and ok:
        tested, one_shot, if_, hn_ = shortcut
        if one_shot and len(tested) > 1:
            ok, why = False, "`%s` is a generator: the first `in` test that fails has consumed it, so the second name is looked for in nothing - a command that carries only the second name keeps it (NoSuchParameter on the mapped command)" % hn_
        elif not tested >= {"NewFieldName", "OutFileName"}:
            ok, why = False, "the parsed argument list is passed through unless it holds %s: a command that carries %s keeps it" % (sorted(tested), sorted({"NewFieldName", "OutFileName"} - tested))
        else:
            why += "; the parsed list is passed through as it is only when it holds neither name"
    ctx.ob("C16.b", "%s::arguments" % fi.key, utils.rel, ctor.lineno, ok, why if ok else "converted arguments are not `old arguments minus {NewFieldName, OutFileName}` in order: %s" % why)
    # the conversion refuses a command only when none of the three name sources exists
    loop = next(n for n in own_nodes(fi.node) if isinstance(n, ast.For) and any(ctor is x for x in ast.walk(n)))
    par = {}
    for n in ast.walk(loop):
        for c in ast.iter_child_nodes(n):
            par[id(c)] = n
    for rz in [n for n in ast.walk(loop) if isinstance(n, ast.Raise)]:
        p_ = rz
        guard = None
        in_handler = False
        while id(p_) in par:
            q = par[id(p_)]
            if isinstance(q, ast.ExceptHandler):
                in_handler = True
                break
            if isinstance(q, ast.If) and any(p_ is b for b in q.body):
                guard = q.test
                break
            p_ = q
        con = "%s::refusal" % fi.key
        if in_handler:
            ctx.hold("C16.b", con, utils.rel, rz.lineno, "raised only from the handler around the construction", nontrivial=False)
            continue
        if guard is None:
            ctx.violate("C16.b", con, utils.rel, rz.lineno, "the conversion raises unconditionally inside its loop")
            continue
        # a refusal by pattern: `not <compiled pattern>.match(name)`.  It takes nothing away from the property when every name
        # the MPilot syntax allows in front of `=` (the lexer's ID token) matches - what is refused then has no MPilot file to be
        # equal to; a pattern narrower than ID refuses models whose translation exists (language inclusion on the two automata)
        g_ = guard
        if isinstance(g_, ast.UnaryOp) and isinstance(g_.op, ast.Not) and isinstance(g_.operand, ast.Call) and isinstance(g_.operand.func, ast.Attribute) and g_.operand.func.attr in ("match", "fullmatch") \
                and isinstance(g_.operand.func.value, ast.Name):
            from engine import regexlang as RL_
            from engine.grammar import Lexicon
            pat = None
            for st_ in utils.tree.body:
                if isinstance(st_, ast.Assign) and any(isinstance(t_, ast.Name) and t_.id == g_.operand.func.value.id for t_ in st_.targets) and isinstance(st_.value, ast.Call) and st_.value.args:
                    try:
                        pat = idx.const(utils, st_.value.args[0])
                    except Exception:
                        pat = None
            if not isinstance(pat, str):
                raise AnalysisError("C16.b: the result-name pattern `%s` is not a literal" % g_.operand.func.value.id)
            core = pat
            for suf in ("\\Z", "$"):
                if core.endswith(suf):
                    core = core[: -len(suf)]
            if core.startswith("^"):
                core = core[1:]
            lex_ = Lexicon(idx)
            idr = lex_.rule("ID")
            if idr is None:
                raise AnalysisError("C16.b: token ID vanished")
            wit = RL_.not_included(RL_.dfa(idr.pattern), RL_.dfa(core))
            ctx.ob("C16.b", con, utils.rel, rz.lineno, wit is None,
                   "names are refused by a pattern that admits every name the MPilot syntax admits (L(ID) is included in it)" if wit is None else
                   "the conversion refuses result names that do not match `%s`, but the MPilot syntax allows more: `%s` is a valid result name (token ID) the pattern rejects, so an EEMS 2.0 model whose translation `%s = ...` loads is refused" % (pat, wit, wit))
            continue
        # a refusal by NAME of the command: `node.command in <constant collection>` (commands EEMS 2.0 had and MPilot has not).  It
        # takes nothing away when none of those names is one the table maps - the file is refused anyway, later, as an unknown
        # command; a STRING on the right makes `in` a substring test (`"AND" in "EMDSANDWTDEMDSAND"`)
        conj0 = guard.values if isinstance(guard, ast.BoolOp) and isinstance(guard.op, ast.And) else [guard]
        byname = [t_ for t_ in conj0 if isinstance(t_, ast.Compare) and len(t_.ops) == 1 and isinstance(t_.ops[0], ast.In) and is_node_attr(t_.left, "command")]
        if byname:
            try:
                coll = idx.const(fi.module, byname[0].comparators[0], fi)
            except Exception:
                coll = None
            if isinstance(coll, str):
                hit = sorted(k_ for k_ in table if k_ in coll)
                ctx.ob("C16.b", con, utils.rel, rz.lineno, not hit, "substring test against a text that contains no mapped name" if not hit else
                       "`%s` tests the command name against the STRING %r - a substring test (adjacent literals without a comma make one string): the mapped EEMS 2.0 name%s %s %s part of it and %s refused, while the MPilot file it maps to loads" % (
                           K.src(byname[0]), coll, "s" if len(hit) > 1 else "", ", ".join(hit[:3]), "are" if len(hit) > 1 else "is", "are" if len(hit) > 1 else "is"))
                continue
            if isinstance(coll, (tuple, list, set, frozenset)) and all(isinstance(x_, str) for x_ in coll):
                hit = sorted(set(coll) & set(table))
                ctx.ob("C16.b", con, utils.rel, rz.lineno, not hit, "refused by name: none of %s is a name the table maps (such a file is refused in any case, as an unknown command)" % sorted(coll) if not hit else
                       "the conversion refuses %s, which the table maps to an MPilot command: the mapped file loads, the EEMS 2.0 file does not" % ", ".join(hit))
                continue
            raise AnalysisError("C16.b: the conversion refuses commands by name against `%s`, which is not a constant the analyser can read" % K.src(byname[0].comparators[0])[:40])
        absent = set()
        conj = guard.values if isinstance(guard, ast.BoolOp) and isinstance(guard.op, ast.And) else [guard]
        for t in conj:
            t = K.flow_expand(fi, t, rz)
            inner = None
            if isinstance(t, ast.UnaryOp) and isinstance(t.op, ast.Not):
                inner = t.operand
                if isinstance(inner, ast.Call) and isinstance(inner.func, ast.Name) and inner.func.id == "isinstance" and inner.args:
                    inner = inner.args[0]  # "is not a name" covers "is absent"
            elif isinstance(t, ast.Compare) and len(t.ops) == 1 and isinstance(t.ops[0], ast.Is) and isinstance(t.comparators[0], ast.Constant) and t.comparators[0].value is None:
                inner = t.left
            if inner is None:
                continue
            if is_node_attr(inner, "result_name"):
                absent.add("own result name")
            elif find_arg(inner):
                absent.add(find_arg(inner))
            elif isinstance(inner, ast.BoolOp) and isinstance(inner.op, ast.Or):
                for v in [y for x in flat_or(inner) for y in (x.values if isinstance(x, ast.BoolOp) and isinstance(x.op, ast.And) else [x])]:
                    while isinstance(v, ast.UnaryOp) and isinstance(v.op, ast.Not):
                        v = v.operand
                    if is_node_attr(v, "result_name"):
                        absent.add("own result name")
                    elif find_args(v):
                        absent.update(find_args(v))
                    elif find_arg(v):
                        absent.add(find_arg(v))
        need = {"own result name", "NewFieldName", "InFieldName"}
        ok = need <= absent
        ctx.ob("C16.b", con, utils.rel, rz.lineno, ok, "a command is refused only when it has no result name, no NewFieldName and no InFieldName" if ok else
               "the conversion refuses a command under `%s` without looking at %s: an EEMS 2.0 command named by that source alone (e.g. OR/AND/SUM with InFieldNames and a NewFieldName) no longer converts" % (K.src(guard)[:70], ", ".join(sorted(need - absent))))
    e = args.get("lineno")
    ok = is_node_attr(e, "lineno")
    ctx.ob("C16.b", "%s::line" % fi.key, utils.rel, ctor.lineno, ok, "line = old line" if ok else "the converted node's line is `%s`" % K.src(e))
    # find_argument returns the value of the named argument
    fa = next((g for g in K.helper_closure(idx, fi) if g is not fi and "find_argument" in g.name), None)
    if fa is not None:
        none_params = set()
        a_ = fa.node.args
        for p_, d_ in zip(a_.args[len(a_.args) - len(a_.defaults):], a_.defaults):
            if isinstance(d_, ast.Constant) and d_.value is None:
                none_params.add(p_.arg)
        rets = [n for n in own_nodes(fa.node) if isinstance(n, ast.Return) and not (n.value is None or isinstance(n.value, ast.Constant) and n.value.value is None or (isinstance(n.value, ast.Name) and n.value.id in none_params))]
        names_param = fa.node.args.vararg.arg if fa.node.args.vararg is not None else None
        if names_param is not None:
            # several names in one call: which one wins must be decided by the order of the names, not by the order the arguments
            # are written in the file
            loops = [n for n in own_nodes(fa.node) if isinstance(n, ast.For)]
            over_args = [lp for lp in loops if not (isinstance(lp.iter, ast.Name) and lp.iter.id == names_param)]
            over_names = [lp for lp in loops if isinstance(lp.iter, ast.Name) and lp.iter.id == names_param]
            leaves_in_arg_loop = [lp for lp in over_args if any(isinstance(x, (ast.Return, ast.Break)) for st in lp.body for x in ast.walk(st))]
            collects = [n for lp in over_args for n in ast.walk(lp) if isinstance(n, ast.Assign) and len(n.targets) == 1 and isinstance(n.targets[0], ast.Subscript) and K.src(n.targets[0].slice).endswith(".name") and K.src(n.value).endswith(".value.value")]
            first_only = all(any(isinstance(t_, ast.Compare) and isinstance(t_.ops[0], ast.NotIn) and K.src(t_.left).endswith(".name") for iff in ast.walk(lp) if isinstance(iff, ast.If) for t_ in ast.walk(iff.test)) for lp in over_args) if collects else False
            if leaves_in_arg_loop:
                ok, why = False, "find_argument(node, *names) walks the arguments and stops at the first one whose name is among the requested names: the argument written first in the file wins, not the name requested first (READ(InFieldName=A, NewFieldName=B) is named A)"
            elif over_names and collects and first_only:
                ok, why = True, "the first value of each requested name is collected, then the names are tried in the order requested"
            else:
                raise AnalysisError("C16.b: find_argument takes several names in a form the analyser cannot decide")
        else:
            ok = len(rets) == 1 and K.src(rets[0].value).endswith(".value.value")
            tests = [n for n in own_nodes(fa.node) if isinstance(n, ast.If)]
            ok = ok and len(tests) == 1 and isinstance(tests[0].test, ast.Compare) and isinstance(tests[0].test.ops[0], ast.Eq) and K.src(tests[0].test.left).endswith(".name")
            why = "returns the value of the argument whose name matches" if ok else "find_argument does not return the value of the argument whose name equals the requested one"
        ctx.ob("C16.b", "%s::find_argument" % fi.key, utils.rel, fa.node.lineno, ok, why)
    # ---- c
    fs = idx.func("mpilot.program", "Program.from_source")
    cfg = K.cfg_of(idx, fs)
    conv = cfg.find("call", lambda n: (n.meta.get("qual") or "").endswith("convert_eems2_commands"))
    con = "%s::detection" % fs.key
    if not conv:
        ctx.violate("C16.c", con, K.rel(fs), fs.node.lineno, "from_source never calls convert_eems2_commands")
    else:
        guard = None
        for n in own_nodes(fs.node):
            if isinstance(n, ast.If) and any(conv[0].ast is x for b in n.body for x in ast.walk(b)):
                guard = n.test
        ok = False
        why = "conversion is not guarded by the expected test"
        if guard is None:
            why = "conversion runs unconditionally: MPilot 3 files are rewritten too"
        elif isinstance(guard, ast.BoolOp) and isinstance(guard.op, ast.Or) and len(guard.values) == 2:
            v0, v1 = guard.values
            a = isinstance(v0, ast.Compare) and len(v0.ops) == 1 and isinstance(v0.ops[0], ast.Eq) and K.src(v0.left).endswith(".version")
            if a:
                try:
                    a = idx.const(fs.module, v0.comparators[0], fs) == 2
                except Exception:
                    a = False
            b = isinstance(v1, ast.Call) and isinstance(v1.func, ast.Name) and v1.func.id == "any" and "in EEMS_COMMANDS" in K.src(v1) and ".command in" in K.src(v1)
            ok = a and b
            why = "version == 2 or any command name is a table key" if ok else "guard is `%s`" % K.src(guard)
        else:
            why = "guard `%s` lacks one of the two detection clauses" % K.src(guard)
        ctx.ob("C16.c", con, K.rel(fs), conv[0].line, ok, why)
        # once triggered, the whole file is converted: named (MPilot-style) commands in a mixed file are renamed and lose their EEMS 2.0-only arguments too
        call = conv[0].ast
        a0 = K.expand(fs, call.args[0]) if call.args else None
        whole = isinstance(a0, ast.Attribute) and a0.attr == "commands"
        nested = False
        for n in own_nodes(fs.node):
            if isinstance(n, (ast.ListComp, ast.GeneratorExp, ast.IfExp, ast.For)) and any(call is x for x in ast.walk(n)):
                if isinstance(n, ast.For) and not any(call is x for st in n.body for x in ast.walk(st)):
                    continue
                nested = True
        okw = whole and not nested
        ctx.ob("C16.c", "%s::whole-file" % fs.key, K.rel(fs), call.lineno, okw, "every command of a detected EEMS 2.0 file goes through the conversion" if okw else
               "the conversion is applied to `%s`%s, not to the whole command list: in a mixed file the commands skipped keep their EEMS 2.0 names and arguments (CommandDoesNotExist, or an OutFileName that should have been dropped)" % (K.src(call.args[0]) if call.args else "nothing", " per command under a condition" if nested else ""))
        # converted nodes replace the parsed ones before the loading loop
        loops = [h for h in cfg.find("iter") if not h.meta.get("comp")]
        ok2 = all(cfg.dominates(conv[0], h) or not cfg.reachable(conv[0]).__contains__(h) for h in loops if h.line and h.line > conv[0].line)
        ctx.ob("C16.c", "%s::converted-nodes-loaded" % fs.key, K.rel(fs), conv[0].line, bool(loops), "loading loop follows conversion", nontrivial=False)
    pmod = idx.module_of("mpilot.parser.parser")
    pcls = pmod.classes.get("Parser")
    if pcls is None:
        raise AnalysisError("Parser vanished")
    setters = []
    for name, m in pcls.methods.items():
        for n in own_nodes(m.node):
            if isinstance(n, ast.Assign) and any(isinstance(t, ast.Attribute) and t.attr == "eems_v2" for t in n.targets):
                setters.append((m, n))
    true_sets = [(m, n) for m, n in setters if isinstance(n.value, ast.Constant) and n.value.value is True]
    con = "mpilot/parser/parser.py::Parser::version-flag"
    ok = bool(true_sets)
    why = "version flag never set"
    pp0 = pcls.methods.get("p_program")
    if not [1 for m_, n_ in setters if m_.name.startswith("p_")] and pp0 is not None:
        # no grammar action keeps state on the parser: the version is read off the parsed commands. A command has no result name exactly when the
        # result-less production built it, so "some command has no result name" is the same fact the flag recorded.
        parg0 = pp0.node.args.args[-1].arg
        verdict = None
        for c_ in own_nodes(pp0.node):
            if isinstance(c_, ast.Call) and K.src(c_.func).endswith("ProgramNode"):
                v_ = next((k.value for k in c_.keywords if k.arg == "version"), c_.args[1] if len(c_.args) > 1 else None)
                v_ = K.expand(pp0, v_) if v_ is not None else None
                if isinstance(v_, ast.IfExp) and isinstance(v_.body, ast.Constant) and isinstance(v_.orelse, ast.Constant):
                    t_ = v_.test
                    two_if_true = (v_.body.value, v_.orelse.value) == (2, 3)
                    three_if_true = (v_.body.value, v_.orelse.value) == (3, 2)
                    whole = isinstance(t_, ast.Call) and isinstance(t_.func, ast.Name) and t_.func.id in ("any", "all") and len(t_.args) == 1 and isinstance(t_.args[0], (ast.GeneratorExp, ast.ListComp)) and K.src(t_.args[0].generators[0].iter).replace(" ", "") == "%s[1]" % parg0 and not t_.args[0].generators[0].ifs
                    if whole:
                        e_ = t_.args[0].elt
                        is_none = isinstance(e_, ast.Compare) and len(e_.ops) == 1 and K.src(e_.left).endswith(".result_name") and isinstance(e_.comparators[0], ast.Constant) and e_.comparators[0].value is None
                        if is_none and isinstance(e_.ops[0], ast.Is) and t_.func.id == "any" and two_if_true:
                            verdict = (True, "version 2 iff some parsed command has no result name (what the result-less production builds)")
                        elif is_none and isinstance(e_.ops[0], ast.IsNot) and t_.func.id == "all" and three_if_true:
                            verdict = (True, "version 3 iff every parsed command has a result name")
                        elif is_none:
                            verdict = (False, "p_program derives the version from `%s`, which is not `2 iff some command has no result name`" % K.src(v_)[:70])
                    elif ".result_name" in K.src(t_):
                        verdict = (False, "p_program looks at `%s` only: a file whose EEMS 2.0 commands come after an MPilot-style first command is taken for an MPilot file and not converted" % K.src(t_)[:60])
        if verdict is None:
            raise AnalysisError("C16.c: the parser keeps no EEMS 2.0 flag and the version p_program reports is outside the recognised forms")
        ctx.ob("C16.c", con, pmod.rel, pp0.node.lineno, verdict[0], verdict[1])
        parser_state(ctx, idx, "C16.c")
        return
    for m, n in true_sets:
        doc = ast.get_docstring(m.node) or ""
        prods = [ln.strip() for ln in doc.splitlines() if ln.strip()]
        resultless = any(p.replace(" ", "") in ("command:IDarguments",) for p in prods)
        if not resultless and len([p for p in prods if ":" in p or p.startswith("|")]) == 1 and ":" in prods[0]:
            # `command : <name> arguments` where <name> is a nonterminal that stands for a single ID (among other single tokens)
            from engine.grammar import Lexicon
            lhs_, rhs_ = prods[0].split(":", 1)
            rhs_ = rhs_.split()
            if lhs_.strip() == "command" and len(rhs_) == 2 and rhs_[1] == "arguments":
                lex_ = Lexicon(idx)
                units = {}
                for pr in lex_.productions:
                    if len(pr.rhs) == 1:
                        units.setdefault(pr.lhs, set()).add(pr.rhs[0])
                seen_, work_ = set(), [rhs_[0]]
                while work_:
                    x_ = work_.pop()
                    if x_ in seen_:
                        continue
                    seen_.add(x_)
                    work_ += list(units.get(x_, ()))
                only_units = all(len(pr.rhs) == 1 for pr in lex_.productions if pr.lhs in seen_)
                resultless = "ID" in seen_ and only_units
        if not (m.name.startswith("p_") and resultless and len([p for p in prods if ":" in p or p.startswith("|")]) == 1):
            ok = False
            why = "the EEMS 2.0 flag is set in %s, whose production is not the result-less command form" % m.name
        else:
            why = "flag set exactly in the result-less command production (%s)" % m.name
    ctx.ob("C16.c", con, pmod.rel, true_sets[0][1].lineno if true_sets else pcls.node.lineno, ok, why)
    parser_state(ctx, idx, "C16.c")
    pp = pcls.methods.get("p_program")
    if pp is not None:
        # the version handed to ProgramNode, evaluated for both values of the flag (straight-line code, if / conditional expressions)
        def run_version(flag):
            env = {}

            def ev(e):
                if isinstance(e, ast.Constant):
                    return e.value
                if isinstance(e, ast.Name):
                    if e.id not in env:
                        try:
                            c_ = idx.const(pmod, e, pp)  # a module-level constant
                        except Exception:
                            c_ = None
                        if isinstance(c_, (int, bool, str)):
                            return c_
                    return env.get(e.id, ("?", e.id))
                if isinstance(e, ast.Attribute) and e.attr != "eems_v2":
                    try:
                        c_ = idx.const(pmod, e, pp)  # a class-level constant
                    except Exception:
                        c_ = None
                    return c_ if isinstance(c_, (int, bool, str)) else ("?",)
                if isinstance(e, ast.Attribute) and e.attr == "eems_v2":
                    return flag
                if isinstance(e, ast.UnaryOp) and isinstance(e.op, ast.Not):
                    v = ev(e.operand)
                    return (not v) if isinstance(v, bool) else ("?",)
                if isinstance(e, ast.Compare) and len(e.ops) == 1 and isinstance(e.ops[0], (ast.Is, ast.Eq, ast.IsNot, ast.NotEq)):
                    a, b = ev(e.left), ev(e.comparators[0])
                    if isinstance(a, tuple) or isinstance(b, tuple):
                        return ("?",)
                    r = a == b
                    return r if isinstance(e.ops[0], (ast.Is, ast.Eq)) else not r
                if isinstance(e, ast.IfExp):
                    t = ev(e.test)
                    if isinstance(t, tuple):
                        return ("?",)
                    return ev(e.body) if t else ev(e.orelse)
                if isinstance(e, ast.Call) and isinstance(e.func, ast.Name) and e.func.id in ("int", "bool") and len(e.args) == 1:
                    v = ev(e.args[0])
                    return ("?",) if isinstance(v, tuple) else (int(v) if e.func.id == "int" else bool(v))
                if isinstance(e, ast.BinOp) and isinstance(e.op, (ast.Add, ast.Sub)):
                    a, b = ev(e.left), ev(e.right)
                    if isinstance(a, tuple) or isinstance(b, tuple):
                        return ("?",)
                    return a + b if isinstance(e.op, ast.Add) else a - b
                if isinstance(e, ast.Subscript) and isinstance(e.value, (ast.Tuple, ast.List, ast.Dict)):
                    k_ = ev(e.slice)
                    if isinstance(k_, tuple):
                        return ("?",)
                    try:
                        if isinstance(e.value, ast.Dict):
                            d_ = {ev(a): b for a, b in zip(e.value.keys, e.value.values)}
                            return ev(d_[k_])
                        return ev(e.value.elts[int(k_)])
                    except Exception:
                        return ("?",)
                return ("?",)

            found = []

            def block(stmts):
                for st in stmts:
                    if isinstance(st, ast.Assign) and len(st.targets) == 1 and isinstance(st.targets[0], ast.Name):
                        env[st.targets[0].id] = ev(st.value)
                    elif isinstance(st, ast.If):
                        t = ev(st.test)
                        if isinstance(t, tuple):
                            found.append(("?",))
                            return
                        block(st.body if t else st.orelse)
                    for c in ast.walk(st) if not isinstance(st, ast.If) else []:
                        if isinstance(c, ast.Call) and K.src(c.func).endswith("ProgramNode"):
                            v = next((k.value for k in c.keywords if k.arg == "version"), c.args[1] if len(c.args) > 1 else None)
                            found.append(ev(v) if v is not None else ("?",))

            block(pp.node.body)
            return found[-1] if found else ("?",)

        v_true, v_false = run_version(True), run_version(False)
        if isinstance(v_true, tuple) or isinstance(v_false, tuple):
            raise AnalysisError("C16.c: the version p_program reports is outside the recognised forms")
        ok = v_true == 2 and v_false == 3
        ctx.ob("C16.c", "mpilot/parser/parser.py::Parser.p_program::version", pmod.rel, pp.node.lineno, ok, "program node reports 2 iff the flag is set" if ok else "p_program reports version %r with the EEMS 2.0 flag set and %r without it (2 and 3 expected)" % (v_true, v_false))


def _kept_by_name(idx, fi, listname, is_node_attr):
    """Which of the old arguments end up in the list `listname`, decided per argument name over the classes {NewFieldName,
    OutFileName, any other name}: the loop(s) over node.arguments are evaluated abstractly, branch tests on `<arg>.name` against
    constants decide, every other test is taken both ways.  -> (ok, why) or None when the construction is not a loop of that kind."""
    inits = [n for n in own_nodes(fi.node) if isinstance(n, ast.Assign) and any(isinstance(t, ast.Name) and t.id == listname for t in n.targets)]
    if len(inits) != 1:
        return None
    iv = inits[0].value
    if isinstance(iv, ast.List) and not iv.elts:
        start = False
    elif isinstance(iv, ast.Call) and isinstance(iv.func, ast.Name) and iv.func.id == "list" and len(iv.args) == 1 and is_node_attr(iv.args[0], "arguments"):
        start = True
    else:
        return None
    loops = [lp for lp in own_nodes(fi.node) if isinstance(lp, ast.For) and isinstance(lp.target, ast.Name) and is_node_attr(lp.iter, "arguments")
             and any(isinstance(c, ast.Call) and isinstance(c.func, ast.Attribute) and isinstance(c.func.value, ast.Name) and c.func.value.id == listname for c in ast.walk(lp))]
    if not loops:
        return None
    classes = ("NewFieldName", "OutFileName", "<any other name>")

    def test(e, var, cls):
        if isinstance(e, ast.UnaryOp) and isinstance(e.op, ast.Not):
            r = test(e.operand, var, cls)
            return None if r is None else not r
        if isinstance(e, ast.BoolOp):
            rs = [test(v, var, cls) for v in e.values]
            if isinstance(e.op, ast.And):
                return False if False in rs else (None if None in rs else True)
            return True if True in rs else (None if None in rs else False)
        if isinstance(e, ast.Compare) and len(e.ops) == 1 and K.src(e.left) == "%s.name" % var:
            try:
                c = idx.const(fi.module, e.comparators[0], fi)
            except Exception:
                return None
            op = e.ops[0]
            if isinstance(op, (ast.Eq, ast.NotEq)) and isinstance(c, str):
                r = (cls == c)
                return r if isinstance(op, ast.Eq) else not r
            if isinstance(op, (ast.In, ast.NotIn)) and isinstance(c, (tuple, list, set, frozenset)):
                r = cls in c
                return r if isinstance(op, ast.In) else not r
        return None

    def run(stmts, var, cls, kept):
        """-> set of (kept, stopped) outcomes"""
        states = {(kept, False)}
        for st in stmts:
            nxt = set()
            for k, stopped in states:
                if stopped:
                    nxt.add((k, True))
                    continue
                if isinstance(st, ast.If):
                    r = test(st.test, var, cls)
                    for br, taken in ((st.body, True), (st.orelse, False)):
                        if r is None or r == taken:
                            nxt |= run(br, var, cls, k)
                elif isinstance(st, ast.Continue):
                    nxt.add((k, True))
                elif isinstance(st, ast.Expr) and isinstance(st.value, ast.Call) and isinstance(st.value.func, ast.Attribute) and isinstance(st.value.func.value, ast.Name) and st.value.func.value.id == listname \
                        and st.value.args and isinstance(st.value.args[0], ast.Name) and st.value.args[0].id == var:
                    nxt.add((True if st.value.func.attr == "append" else False if st.value.func.attr == "remove" else k, False))
                else:
                    nxt.add((k, False))
            states = nxt
        return states

    result = {}
    for cls in classes:
        kept = {start}
        for lp in loops:
            new = set()
            for k in kept:
                new |= {k2 for k2, _s in run(lp.body, lp.target.id, cls, k)}
            kept = new
        result[cls] = kept
    want = {"NewFieldName": {False}, "OutFileName": {False}, "<any other name>": {True}}
    bad = [c for c in classes if result[c] != want[c]]
    if not bad:
        return True, "per argument name: NewFieldName and OutFileName are always dropped, every other argument is always kept (order of the old list)"
    c = bad[0]
    return False, "an argument named %s %s" % (c, "can stay in the converted command" if want[c] == {False} else "can be dropped from the converted command")


def _reset_by_every_reusing_caller(idx, pcls, attr):
    """every function outside Parser that calls .parse on a parser object it did not just build stores a constant into
    <that object>.<attr> on every path to the call"""
    found = False
    for mod, f, n in K.scoped_nodes(idx):
        if not (isinstance(n, ast.Call) and isinstance(n.func, ast.Attribute) and n.func.attr == "parse" and f is not None and f.cls is not pcls):
            continue
        recv = n.func.value
        if isinstance(recv, ast.Call) or "parser" not in K.src(recv).lower():
            continue
        cfg = K.cfg_of(idx, f)
        recv_src = K.src(recv)
        calls = [c for c in cfg.find("call") if isinstance(c.ast.func, ast.Attribute) and c.ast.func.attr == "parse" and K.src(c.ast.func.value) == recv_src]
        resets = {x for x in cfg.find("store") if x.meta.get("attr") == attr and isinstance(x.ast, ast.Attribute) and K.src(x.ast.value) == recv_src and isinstance(x.meta.get("value"), ast.Constant)}
        if not calls or not resets or not all(cfg.must_pass_through(cfg.entry, c, resets) for c in calls):
            return False
        found = True
    return found


def conversion_keeps_every_command(ctx, idx, rule, consequence):
    """In convert_eems2_commands every iteration over the old commands that ends normally has appended one converted node
    (no `continue` / branch that skips the append): the converted file has exactly the commands of the old one."""
    fi = idx.func("mpilot.utils", "convert_eems2_commands")
    if fi is None:
        raise AnalysisError("%s: convert_eems2_commands vanished" % rule)
    cfg = K.cfg_of(idx, fi)
    param = fi.node.args.args[0].arg
    heads = [h for h in cfg.find("iter") if not h.meta.get("comp") and isinstance(h.meta["iter"], ast.Name) and h.meta["iter"].id == param]
    con = "%s::one-node-per-command" % fi.key
    if not heads:
        comps = [n for n in own_nodes(fi.node) if isinstance(n, (ast.ListComp, ast.GeneratorExp)) and isinstance(n.generators[0].iter, ast.Name) and n.generators[0].iter.id == param]
        if comps and not comps[0].generators[0].ifs:
            ctx.hold(rule, con, K.rel(fi), comps[0].lineno, "an unfiltered comprehension over the old commands")
            return
        if comps:
            ctx.violate(rule, con, K.rel(fi), comps[0].lineno, "the old commands are filtered (`%s`) before they are converted: %s" % (K.src(comps[0].generators[0].ifs[0])[:60], consequence))
            return
        raise AnalysisError("%s: the loop over the old commands was not found in convert_eems2_commands" % rule)
    h = heads[0]
    firsts = [m for m, lab in h.succ if lab == "loop"]
    appends = {n for n in cfg.find("call") if isinstance(n.ast.func, ast.Attribute) and n.ast.func.attr in ("append", "add", "insert") and n in cfg.reachable(firsts, avoid={h})}
    yields = {n for n in cfg.nodes if n.kind in ("yield",) and n in cfg.reachable(firsts, avoid={h})}
    marks = appends | yields
    ok = bool(marks) and all(cfg.must_pass_through(b, h, marks) for b in firsts)
    skip = None
    if not ok:
        for t in cfg.find("test"):
            if t in cfg.reachable(firsts, avoid={h}):
                for m, lab in t.succ:
                    if not cfg.must_pass_through(m, h, marks) and h in cfg.reachable(m):
                        skip = t
    ctx.ob(rule, con, K.rel(fi), (skip or h).line, ok, "every old command that does not fail the conversion yields one converted command" if ok else
           "an old command can pass through the conversion loop without a converted node being added (under `%s`): %s" % (K.src(skip.ast)[:80] if skip is not None else "some path", consequence))


def _yacc_per_instance(idx, pcls, rule):
    """True when every Parser builds its own PLY parser: `self.<attr> = yacc.yacc(module=self, ...)` is a top-level statement of
    __init__ (executed on every construction, kept on the instance).  Otherwise (line, reason)."""
    init = pcls.methods.get("__init__")
    builds = []
    for nm, m in pcls.methods.items():
        node0 = getattr(m, "node_orig", None) or m.node
        for c in ast.walk(node0):
            if isinstance(c, ast.Call) and (idx.qualname(m.module, c.func, m) or K.src(c.func)).endswith("yacc.yacc"):
                builds.append((m, node0, c))
    if not builds or init is None:
        raise AnalysisError("%s: no yacc.yacc(...) call found in class Parser; where the PLY parser is built is outside this rule" % rule)
    for m, node0, c in builds:
        if m is not init:
            return (c.lineno, "the PLY parser is built in %s, not in the constructor" % m.name)
        sn = K.self_name(m)
        top = [st for st in node0.body if isinstance(st, ast.Assign) and st.value is c and len(st.targets) == 1 and isinstance(st.targets[0], ast.Attribute)
               and isinstance(st.targets[0].value, ast.Name) and st.targets[0].value.id == sn]
        if not top:
            return (c.lineno, "the PLY parser is built once and shared (`%s` is not an unconditional `self.<attr> = yacc.yacc(module=self)` of the constructor)" % K.src(c)[:40])
        modkw = next((k.value for k in c.keywords if k.arg == "module"), None)
        if not (isinstance(modkw, ast.Name) and modkw.id == sn):
            return (c.lineno, "the PLY parser is built with `module=%s`, not with the new object itself" % (K.src(modkw) if modkw is not None else "<default>"))
    return True


def parser_state(ctx, idx, rule):
    """Per-parse state written by grammar actions (e.g. the EEMS 2.0 flag) must not survive into the next parse."""
    pmod = idx.module_of("mpilot.parser.parser")
    pcls = pmod.classes["Parser"]
    written = {}
    for name, m in pcls.methods.items():
        if not name.startswith("p_"):
            continue
        sn = K.self_name(m)
        for n in own_nodes(m.node):
            if isinstance(n, (ast.Assign, ast.AugAssign)):
                tg = n.targets if isinstance(n, ast.Assign) else [n.target]
                for t in tg:
                    if isinstance(t, ast.Attribute) and isinstance(t.value, ast.Name) and t.value.id == sn:
                        written.setdefault(t.attr, m)
    parse = pcls.methods.get("parse")
    if parse is None:
        raise AnalysisError("Parser.parse vanished")
    cfg = K.cfg_of(idx, parse)
    sn = K.self_name(parse)
    calls = cfg.find("call", lambda n: isinstance(n.ast.func, ast.Attribute) and n.ast.func.attr == "parse" and n.ast.func.value is not None and K.src(n.ast.func.value).startswith(sn + "."))
    # call sites of Parser.parse in the package: is the receiver a freshly built Parser?
    fresh_everywhere = True
    stale_site = None
    n_sites = 0
    for mod, f, n in K.scoped_nodes(idx):
        if isinstance(n, ast.Call) and isinstance(n.func, ast.Attribute) and n.func.attr == "parse" and f is not None and not (f.cls is pcls):
            recv = n.func.value
            q = idx.qualname(mod, recv.func, f) if isinstance(recv, ast.Call) else None
            is_parser_call = bool(q and q.endswith("parser.Parser"))
            if "parser" in K.src(recv).lower() or is_parser_call:
                n_sites += 1
                if not is_parser_call:
                    fresh_everywhere = False
                    stale_site = (mod, n)
    for attr, m in sorted(written.items()):
        resets = cfg.find("store", lambda x: x.meta.get("attr") == attr and isinstance(x.ast.value, ast.Name) and x.ast.value.id == sn)
        reset_ok = bool(resets) and bool(calls) and all(cfg.must_pass_through(cfg.entry, c, set(resets)) for c in calls)
        con = "%s::Parser::per-parse-state(%s)" % (pmod.rel, attr)
        if reset_ok:
            ctx.hold(rule, con, pmod.rel, parse.node.lineno, "`%s` is reset at the start of every parse" % attr)
        elif fresh_everywhere and n_sites and _yacc_per_instance(idx, pcls, rule) is not True:
            why_ = _yacc_per_instance(idx, pcls, rule)
            ctx.violate(rule, con, pmod.rel, why_[0], "`%s` is set by the grammar action %s and never reset by parse(); every load builds a fresh Parser, but %s: PLY binds the grammar actions to the object given as `module=`, so the actions of every later Parser write and read the FIRST object's `%s` - after one EEMS 2.0 file every later file, from a new Parser too, is treated as EEMS 2.0 and loses its NewFieldName/OutFileName arguments" % (attr, m.name, why_[1], attr))
        elif fresh_everywhere and n_sites:
            ctx.hold(rule, con, pmod.rel, m.node.lineno, "`%s` is never reset by parse(), but every load builds a fresh Parser (%d call site(s)) whose grammar actions are bound to itself" % (attr, n_sites))
        elif _reset_by_every_reusing_caller(idx, pcls, attr):
            ctx.hold(rule, con, pmod.rel, m.node.lineno, "`%s` is put back by every caller that reuses a parser object, on every path to its parse call" % attr)
        else:
            mod, n = stale_site if stale_site else (pmod, parse.node)
            ctx.violate(rule, con, mod.rel, n.lineno, "`%s` is set by the grammar action %s and never reset, and `%s` reuses a parser object: after one EEMS 2.0 file every later file is treated as EEMS 2.0 and loses its NewFieldName/OutFileName arguments" % (attr, m.name, K.src(n)[:50]))
