"""C14 — cyclic models are rejected, never silently skipped."""
import ast

from engine.cfg import flag_test, self_attr
from engine.index import own_nodes
from engine.report import AnalysisError

from . import common as K
from . import coverage

ERR = "RecursiveModelStructure"


def raise_sites(idx, errcls):
    out = []
    for mod, fi, n in K.scoped_nodes(idx):
        if isinstance(n, ast.Raise) and n.exc is not None:
            t = n.exc.func if isinstance(n.exc, ast.Call) else n.exc
            r = idx.resolve(mod, t, fi)
            if r and r[0] == "class" and errcls in idx.mro(r[1]):
                out.append((mod, fi, n))
            elif isinstance(n.exc, ast.Name) and fi is not None:
                # `raise e` with e bound once to the constructed error (the CFG builder resolves it)
                for rn in K.cfg_of(idx, fi).find("raise"):
                    if rn.ast is n and (rn.meta.get("qual") or "") == errcls.qual:
                        out.append((mod, fi, n))
    return out


def rule_a(ctx, idx, A, errcls):
    ctx.rule(
        "C14.a",
        "At least one `raise RecursiveModelStructure` is reachable from Program.run over the call graph, and the class "
        "is an MPilotError (so Command.run's handler passes it through unchanged at every level of the recursion).",
    )
    root = idx.cls("mpilot.exceptions", "MPilotError")
    con = "mpilot/exceptions.py::%s" % ERR
    ctx.ob("C14.a", con + "::is-mpilot-error", errcls.module.rel, errcls.node.lineno, root in idx.mro(errcls),
           "%s derives from MPilotError" % ERR if root in idx.mro(errcls) else "%s is not an MPilotError: Command.run would wrap it as UnexpectedError" % ERR,
           nontrivial=False)
    sites = raise_sites(idx, errcls)
    reach, parent = idx.reachable([A.program_run])
    ok_sites = [(m, f, n) for m, f, n in sites if f is not None and f in reach]
    if ok_sites:
        m, f, n = ok_sites[0]
        ctx.hold("C14.a", con + "::raised", m.rel, n.lineno, "raised in %s, reachable from Program.run via %s" % (f.qualname, " -> ".join(idx.chain(parent, f))))
    else:
        ctx.violate(
            "C14.a", con + "::raised", errcls.module.rel, errcls.node.lineno,
            "%s is never raised on any call path from Program.run (%d raise site(s) in the package): a cyclic model cannot be rejected with the recursive-model error"
            % (ERR, len(sites)),
        )
    return ok_sites


def rule_b(ctx, idx, A, errcls):
    ctx.rule(
        "C14.b",
        "Command.run keeps a per-instance in-progress flag: on every path to the execute call the flag was tested "
        "false and then set true; the 'already running' outcome raises RecursiveModelStructure without reaching "
        "execute (path-sensitive typestate over all CFG paths; cuts the cycle run -> execute -> result -> run).",
    )
    fi = A.run
    sn = K.self_name(fi)
    cfg = K.cfg_of(idx, fi)
    execs = set(cfg.find("call", lambda n: K.is_self_call(n.ast, "execute", sn)))
    ctx.floor("C14.b", "self.execute(...) call sites in Command.run", len(execs), 1)
    cands = set()
    for t in cfg.find("test"):
        a = flag_test(t.ast, sn)
        if a and a != A.flag:
            cands.add(a)
    paths = cfg.paths(loop_bound=2)
    ctx.count("paths_enumerated", len(paths))

    def is_err_raise(n):
        if n.kind == "call" and (n.meta.get("raising_ctor") or isinstance(getattr(n, "stmt", None), ast.Assign)):
            q = n.meta.get("qual") or (idx.qualname(fi.module, n.ast.func, fi) if isinstance(n.ast, ast.Call) else "") or ""
            return q == errcls.qual  # the constructor evaluated by `raise Err(...)` or `e = Err(...)` ... `raise e` (C13.d: it constructs)
        if n.kind != "raise":
            return False
        q = n.meta.get("qual") or ""
        return q == errcls.qual or q.endswith("." + ERR)

    verdicts = {}
    soft = []
    for a in sorted(cands):
        why = None
        for p in paths:
            tested_false = False
            set_true = False
            running = False
            for n, facts in K.walk_facts(p, {a}, sn):
                f = facts.get(a)
                if f is False:
                    tested_false = True
                if f is True and not set_true:
                    running = True
                if n in execs:
                    if running:
                        why = (p, "execute is reached although `%s` was found true (already running)" % a)
                    elif not (tested_false and set_true):
                        why = (p, "execute is reached without `%s` having been tested false and then set true" % a)
                if n.kind == "store" and n.meta.get("attr") == a and self_attr(n.ast, sn):
                    v = n.meta.get("value")
                    set_true = isinstance(v, ast.Constant) and v.value is True and tested_false
            if running and not any(is_err_raise(n) for n, _ in p) and p[-1][0] is cfg.exit:
                why = (p, "`%s` found true but the path returns normally instead of raising %s" % (a, ERR))
            if running and not any(is_err_raise(n) for n, _ in p) and p[-1][0] is cfg.raise_exit and why is None:
                # leaves exceptionally by some other error: acceptable only if it is the dedicated error
                last = p[-2][0] if len(p) >= 2 else None
                st_ = getattr(last, "stmt", None)
                if isinstance(st_, ast.Raise) and isinstance(st_.exc, ast.Call) and (idx.qualname(fi.module, st_.exc.func, fi) or K.src(st_.exc.func)).endswith(ERR) and last is not None and last.kind == "call":
                    # an exception out of a call that computes an argument of the error itself (a message naming the loop): whether
                    # that call can fail is a matter of the callee, not of the guard
                    # ... except for what is plain to see in the callee: a next() without default outside a StopIteration handler
                    callee = None
                    f_ = last.ast.func
                    if isinstance(f_, ast.Attribute) and isinstance(f_.value, ast.Name) and f_.value.id == sn:
                        callee = idx.find_method(A.command, f_.attr)
                    bare = []
                    for g_ in ([callee] + [h_ for h_ in K.helper_closure(idx, callee) if h_ is not callee] if callee is not None else []):
                        node0 = getattr(g_, "node_orig", None) or g_.node
                        par_ = {}
                        for y_ in ast.walk(node0):
                            for c_ in ast.iter_child_nodes(y_):
                                par_[id(c_)] = y_
                        for y_ in ast.walk(node0):
                            if isinstance(y_, ast.Call) and isinstance(y_.func, ast.Name) and y_.func.id == "next" and len(y_.args) == 1 and not y_.keywords:
                                q_, caught_ = y_, False
                                while id(q_) in par_:
                                    q_ = par_[id(q_)]
                                    if isinstance(q_, ast.Try) and any(h_.type is None or "StopIteration" in K.src(h_.type) or K.src(h_.type) in ("Exception", "BaseException") for h_ in q_.handlers):
                                        caught_ = True
                                if not caught_:
                                    bare.append((g_, y_))
                    if bare:
                        why = (p, "the recursive-model error is built with `%s`, and %s evaluates `%s` with no default outside a StopIteration handler: when nothing is found the StopIteration escapes in place of %s (and Command.run reports it as an unexpected error)" % (K.src(last.ast)[:50], bare[0][0].qualname, K.src(bare[0][1])[:60], ERR))
                        continue
                    soft.append("C14.b: the recursive-model error is built with `%s`; whether that call can fail (and another exception escape in its place) is not decided by the guard rule" % K.src(last.ast)[:60])
                    continue
                why = (p, "`%s` found true but the path does not raise %s" % (a, ERR))
        verdicts[a] = why
    con = "%s::re-entrancy-guard" % fi.key
    good = [a for a, w in verdicts.items() if w is None]
    if good and soft:
        raise AnalysisError(soft[0])
    if good:
        ctx.hold("C14.b", con, K.rel(fi), fi.node.lineno, "in-progress flag `%s` is tested, raises %s when set, and is set before execute on all %d paths" % (good[0], ERR, len(paths)))
        # the flag must start false
        a = good[0]
        init_ok = False
        uses_getattr_default = any(
            isinstance(t.ast, ast.Call) and len(t.ast.args) == 3 and isinstance(t.ast.args[2], ast.Constant) and not t.ast.args[2].value
            for t in cfg.find("test") if flag_test(t.ast, sn) == a
        )
        if A.init is not None:
            for n in own_nodes(A.init.node):
                if isinstance(n, ast.Assign):
                    for t in n.targets:
                        if self_attr(t, K.self_name(A.init)) == a and isinstance(n.value, ast.Constant) and n.value.value is False:
                            init_ok = True
        c, v = idx.find_attr(A.command, a)
        if v is not None and isinstance(v, ast.Constant) and v.value is False:
            init_ok = True
        ctx.ob("C14.b", "%s::init(%s)" % (fi.key, a), K.rel(fi), fi.node.lineno, init_ok or uses_getattr_default,
               "in-progress flag starts false" if (init_ok or uses_getattr_default) else "in-progress flag `%s` is tested in run() but never initialised to False" % a)
    else:
        if verdicts:
            a, (p, msg) = sorted(verdicts.items())[0]
            ctx.violate("C14.b", con, K.rel(fi), fi.node.lineno, msg, path=K.path_text(p))
        else:
            stores = [n for n in cfg.find("store") if self_attr(n.ast, sn) and n.meta.get("attr") not in (A.flag, A.memo)]
            extra = ""
            if stores:
                extra = " (`%s` is set but never consulted)" % stores[0].meta.get("attr")
                # the flag may be consulted where references are resolved instead: ResultParameter.clean raising the
                # dedicated error for a running command.  That protects only if no resolved command leaves clean untested.
                rp = idx.cls("mpilot.params", "ResultParameter")
                cl = rp.methods.get("clean") if rp is not None else None
                if cl is not None:
                    ccfg = K.cfg_of(idx, cl)
                    flags = {s_.meta.get("attr") for s_ in stores}
                    tests = [t for t in ccfg.find("test") if isinstance(t.ast, ast.Attribute) and t.ast.attr in flags]
                    tests = [t for t in tests if any(is_err_raise(x) for x in ccfg.reachable([m for m, l in t.succ if l == "true"], avoid={m for m, l in t.succ if l == "false"}))]
                    if tests:
                        rets = [r_ for r_ in ccfg.find("return") if r_ in ccfg.reachable()]
                        loose = [r_ for r_ in rets if not any(ccfg.dominates(t, r_) for t in tests)]
                        if loose:
                            ctx.violate("C14.b", con, K.rel(fi), fi.node.lineno,
                                        "Command.run no longer tests `%s`; ResultParameter.clean does, but its return at line %d is reached without that test: a cycle through such a reference re-enters run() until the interpreter stack overflows" % (sorted(flags)[0], loose[0].line))
                            return
                        raise AnalysisError("C14.b: the in-progress test has moved from Command.run into ResultParameter.clean (it precedes every return there); whether every re-entry of run() passes through that test is outside this rule")
            ctx.violate(
                "C14.b", con, K.rel(fi), fi.node.lineno,
                "Command.run tests no in-progress flag before calling execute%s: a reference cycle re-enters run() until the interpreter stack overflows" % extra,
            )


def _loop_error_reported_first(idx, fi, h, errcls):
    """The handler keeps what it caught in a local list (errors gathered while independent branches go on); in the function that
    owns the list, the first statement after that which can raise is `if <those of the list that are RecursiveModelStructure>: raise
    <the first of them>` - so a reference loop is always reported as one, whatever else failed."""
    if h.name is None or fi is None:
        return False
    apps = [c for st in h.body for c in ast.walk(st) if isinstance(c, ast.Call) and isinstance(c.func, ast.Attribute) and c.func.attr in ("append", "add") and isinstance(c.func.value, ast.Name)
            and any(isinstance(x, ast.Name) and x.id == h.name for a in c.args for x in ast.walk(a))]
    if not apps:
        return False
    lst = apps[0].func.value.id
    owner = fi
    while owner is not None and not any(isinstance(st, ast.Assign) and any(isinstance(t, ast.Name) and t.id == lst for t in st.targets) for st in owner.node.body):
        owner = owner.parent
    if owner is None:
        return False
    ename = errcls.name if hasattr(errcls, "name") else "RecursiveModelStructure"
    body = owner.node.body
    for st in body:
        if isinstance(st, (ast.FunctionDef, ast.Assign, ast.For, ast.While, ast.Expr)) and not isinstance(st, ast.If):
            if isinstance(st, (ast.For, ast.While, ast.Expr)) and any(isinstance(x, ast.Raise) for x in ast.walk(st)):
                return False
            continue
        if isinstance(st, ast.If):
            if not any(isinstance(x, ast.Raise) for x in ast.walk(st)):
                continue
            # the first statement that raises: must be the loop-error report
            t = st.test
            defs = [a.value for a in body if isinstance(a, ast.Assign) and isinstance(t, ast.Name) and any(isinstance(x, ast.Name) and x.id == t.id for x in a.targets)]
            comp = defs[0] if len(defs) == 1 else t
            ok_comp = isinstance(comp, (ast.ListComp, ast.GeneratorExp)) and len(comp.generators) == 1 and isinstance(comp.generators[0].iter, ast.Name) and comp.generators[0].iter.id == lst \
                and any(isinstance(c, ast.Call) and K.src(c.func) == "isinstance" and len(c.args) == 2 and K.src(c.args[1]).split(".")[-1] == ename for i_ in comp.generators[0].ifs for c in ast.walk(i_))
            rz = [x for x in st.body if isinstance(x, ast.Raise)]
            ok_raise = len(st.body) == 1 and rz and isinstance(rz[0].exc, ast.Subscript) and isinstance(t, ast.Name) and K.src(rz[0].exc.value) == t.id
            return bool(ok_comp and ok_raise and not st.orelse)
        if any(isinstance(x, ast.Raise) for x in ast.walk(st)):
            return False
    return False


def rule_c(ctx, idx, A, errcls):
    ctx.rule(
        "C14.c",
        "On every normal exit of Program.run each command was started or found unfinished-and-reported: an unfiltered "
        "loop over the command table calling run()/result (or testing the finished flag and raising "
        "RecursiveModelStructure) lies on every path to the exit. A loop filtered by consumer bookkeeping alone leaves a "
        "pure cycle unexecuted.",
    )
    fi = A.program_run
    cfg, loops = coverage.coverage_loops(idx, A)
    con = "%s::nothing-skipped" % fi.key
    sn = K.self_name(fi)
    for lp in loops:
        if lp["filter"] is None and lp["on_all"]:
            if lp["every"]:
                ctx.hold("C14.c", con, K.rel(fi), lp["head"].line, "unfiltered loop `for %s in %s` starts every command" % (lp["var"], K.src(lp["for"].iter)))
                return
            # loop that checks the finished flag and raises
            var = lp["var"]
            firsts = [m for m, lab in lp["head"].succ if lab == "loop"]
            body_nodes = cfg.reachable(firsts, avoid={lp["head"]})
            raises = [n for n in body_nodes if n.kind == "raise" and ((n.meta.get("qual") or "").endswith(ERR))]
            tests = [n for n in body_nodes if n.kind == "test" and any(isinstance(x, ast.Attribute) and x.attr == A.flag and isinstance(x.value, ast.Name) and x.value.id == var for x in ast.walk(n.ast))]
            if raises and tests:
                # the not-finished outcome must lead to the raise
                t = tests[0]
                pol = True
                e = t.ast
                while isinstance(e, ast.UnaryOp) and isinstance(e.op, ast.Not):
                    pol = not pol
                    e = e.operand
                # CFG already pushes `not` into edge labels: test node holds the inner expression
                unfinished = [m for m, lab in t.succ if lab == "false"]
                if unfinished and all(cfg.must_pass_through(u, lp["head"], set(raises)) and cfg.must_pass_through(u, cfg.exit, set(raises)) for u in unfinished):
                    ctx.hold("C14.c", con, K.rel(fi), lp["head"].line, "unfiltered loop reports every unfinished command with %s" % ERR)
                    return
    comp_ = coverage.complementary_starts(A)
    if comp_ is not None:
        ctx.hold("C14.c", con, K.rel(fi), comp_[0], comp_[1])
        return
    starters = [lp for lp in loops if lp["starts"]]
    if starters:
        lp = starters[0]
        how = "selected by consumer bookkeeping" if lp["filter"] is not None else "on some paths of the loop body"
        if not lp["on_all"] and lp["filter"] is None and lp["every"]:
            how = "on some paths of Program.run only"
        ctx.violate(
            "C14.c", con, K.rel(fi), lp["head"].line,
            "Program.run starts commands only %s and never checks the others: in a pure reference cycle every "
            "command has a consumer, nothing is started, and run() returns normally with commands un-executed" % how,
        )
        return
    # commands started from a list built beforehand (an execution order computed by a helper): whether that list holds every
    # command is not something the loop shapes above can tell
    for lp_ in [n for n in own_nodes(fi.node) if isinstance(n, ast.For) and isinstance(n.iter, ast.Name) and isinstance(n.target, ast.Name)]:
        if any(isinstance(c, ast.Call) and isinstance(c.func, ast.Attribute) and c.func.attr == "run" and isinstance(c.func.value, ast.Name) and c.func.value.id == lp_.target.id for st in lp_.body for c in ast.walk(st)):
            raise AnalysisError("C14.c: Program.run starts the commands of the precomputed list `%s`: cannot decide whether it holds every command" % lp_.iter.id)
    ctx.violate("C14.c", con, K.rel(fi), fi.node.lineno, "Program.run contains no loop over the command table that starts commands")


def _excluded_by_test(idx, m, x, recv, attr):
    """The read `x` of <recv>.<attr> is reached only through the false edge of `isinstance(<recv>, C)` with C covering every class
    that computes `attr`, with no store to recv in between; and every loop of the method that advances recv stops on a reference
    loop (a membership test on a collection the loop adds to: in its condition with the add first in the body, or test-stop-record
    in the body).  True / None (shape not present); raises AnalysisError when the exclusion is there but a loop has no such guard."""
    cfg = K.cfg_of(idx, m)
    at = [n for n in cfg.nodes if isinstance(n.ast, ast.AST) and any(x is y for y in ast.walk(n.ast))]
    at += [n for n in cfg.nodes if isinstance(n.meta.get("value"), ast.AST) and any(x is y for y in ast.walk(n.meta["value"]))]
    if not at:
        return None
    computing = [d2.cls for d2 in K.table(idx) if (idx.find_method(d2.cls, attr) is not None and idx.find_method(d2.cls, attr).cls is not K.anchors(idx).command)]
    ok_tests = []
    for t in cfg.find("test"):
        e = t.ast
        if isinstance(e, ast.Call) and isinstance(e.func, ast.Name) and e.func.id == "isinstance" and len(e.args) == 2 and isinstance(e.args[0], ast.Name) and e.args[0].id == recv.id:
            cq = idx.qualname(m.module, e.args[1], m)
            if all(any(getattr(c_, "qual", None) == cq for c_ in idx.mro(c2)) for c2 in computing):
                ok_tests.append(t)
    good = [t for t in ok_tests if all(cfg.dominates(t, a) and K.holds_on_edge(cfg, t, a, "false") for a in at)]
    if not good:
        return None
    t = good[-1]
    # no store to recv between the test and the read
    between = cfg.reachable([m_ for m_, l in t.succ if l == "false"], avoid=set(at))
    if any(n.kind == "store" and n.meta.get("name") == recv.id for n in between if any(a in cfg.reachable(n) for a in at)):
        return None
    for lp in [n for n in ast.walk(m.node) if isinstance(n, ast.While)]:
        if not any(isinstance(z, ast.Assign) and any(isinstance(t_, ast.Name) and t_.id == recv.id for t_ in z.targets) for z in ast.walk(lp)):
            continue
        guarded = False
        conds = lp.test.values if isinstance(lp.test, ast.BoolOp) and isinstance(lp.test.op, ast.And) else [lp.test]
        for c in conds:
            if isinstance(c, ast.Compare) and len(c.ops) == 1 and isinstance(c.ops[0], ast.NotIn) and isinstance(c.comparators[0], ast.Name):
                coll, key = c.comparators[0].id, K.src(c.left)
                first = lp.body[0] if lp.body else None
                if isinstance(first, ast.Expr) and isinstance(first.value, ast.Call) and isinstance(first.value.func, ast.Attribute) and first.value.func.attr in ("add", "append") \
                        and isinstance(first.value.func.value, ast.Name) and first.value.func.value.id == coll and first.value.args and K.src(first.value.args[0]) == key:
                    guarded = True
        for y in lp.body:
            if isinstance(y, ast.If) and isinstance(y.test, ast.Compare) and len(y.test.ops) == 1 and isinstance(y.test.ops[0], ast.In) and isinstance(y.test.comparators[0], ast.Name) \
                    and y.body and isinstance(y.body[-1], (ast.Raise, ast.Return, ast.Break)):
                coll, key = y.test.comparators[0].id, K.src(y.test.left)
                later = lp.body[lp.body.index(y) + 1:]
                if any(isinstance(z, ast.Expr) and isinstance(z.value, ast.Call) and isinstance(z.value.func, ast.Attribute) and z.value.func.attr in ("add", "append") and isinstance(z.value.func.value, ast.Name)
                       and z.value.func.value.id == coll and z.value.args and K.src(z.value.args[0]) == key for z in later):
                    guarded = True
        if not guarded:
            raise AnalysisError("C14.d: `%s` of %s walks its references in a loop with no visited-guard of a recognised form" % (attr, m.qualname))
    return True


def _after_exclusion_loop(idx, m, x, attr):
    """`x` reads <recv>.<attr> after a top-level `while isinstance(<recv>, C):` loop without break, where C covers every command
    class that computes `attr`: the receiver is then none of them, so the read is of plain data.  The loop itself must stop on
    a reference loop: a membership test on a collection it adds to on every round, raising or leaving when the test hits.
    Returns False when the shape is different; raises AnalysisError when the shape matches but the loop's guard is not found."""
    recv = x.value if isinstance(x, ast.Attribute) else x.args[0]
    if not isinstance(recv, ast.Name):
        return False
    alt = _excluded_by_test(idx, m, x, recv, attr)
    if alt is not None:
        return alt
    body = m.node.body
    pos = next((i for i, st in enumerate(body) if any(x is y for y in ast.walk(st))), None)
    if pos is None:
        return False
    for st in body[:pos]:
        if not (isinstance(st, ast.While) and isinstance(st.test, ast.Call) and isinstance(st.test.func, ast.Name) and st.test.func.id == "isinstance" and len(st.test.args) == 2
                and isinstance(st.test.args[0], ast.Name) and st.test.args[0].id == recv.id and not st.orelse):
            continue
        if any(isinstance(y, ast.Break) for y in ast.walk(st)):
            continue
        if any(isinstance(z, ast.Assign) and any(isinstance(t, ast.Name) and t.id == recv.id for t in z.targets) for s2 in body[body.index(st) + 1:pos + 1] for z in ast.walk(s2)):
            continue
        cq = idx.qualname(m.module, st.test.args[1], m)
        computing = [d2.cls for d2 in K.table(idx) if (idx.find_method(d2.cls, attr) is not None and idx.find_method(d2.cls, attr).cls is not K.anchors(idx).command)]
        if not all(any(c_.qual == cq for c_ in idx.mro(c2) if hasattr(c_, "qual")) for c2 in computing):
            continue
        tests = [y for y in ast.walk(st) if isinstance(y, ast.Compare) and len(y.ops) == 1 and isinstance(y.ops[0], ast.In) and isinstance(y.comparators[0], ast.Name)]
        for t in tests:
            coll = t.comparators[0].id
            key = K.src(t.left)
            adds = [y for y in st.body if isinstance(y, ast.Expr) and isinstance(y.value, ast.Call) and isinstance(y.value.func, ast.Attribute) and y.value.func.attr in ("add", "append")
                    and isinstance(y.value.func.value, ast.Name) and y.value.func.value.id == coll and y.value.args and K.src(y.value.args[0]) == key]
            stops = [y for y in st.body if isinstance(y, ast.If) and y.test is t and y.body and isinstance(y.body[-1], (ast.Raise, ast.Return))]
            if adds and stops and st.body.index(stops[0]) < st.body.index(adds[0]):
                return True
        raise AnalysisError("C14.d: `%s` of %s walks its references in a loop; no visited-guard of the recognised form (test, stop, then record, each round) was found in it" % (attr, m.qualname))
    return False


def rule_d(ctx, idx, A, rule="C14.d"):
    """Validation reads attributes of referenced commands before anything runs (before the re-entry guard can fire):
    they must not recurse along references."""
    if rule != "C14.d":
        ctx.rule(rule, "What validation reads on a referenced command (is_fuzzy, output, ...) is evaluated in the pre-pass of Program.run, outside Command.run's error wrapper: a command class that computes such an attribute must not recurse along references (RecursionError) nor use a raw, uncleaned argument as a dictionary key or in an operation that can raise (TypeError for a list) - whatever escapes there is not an MPilot error.")
    else:
        ctx.rule("C14.d", "What validation reads on a referenced command (is_fuzzy, output, ... in ResultParameter.clean) is plain data: no command class turns such an attribute into a property or method that follows its own references to the same attribute of other commands — in a reference cycle that recursion has no re-entry guard and overflows the stack instead of reporting the cycle.")
    rp = idx.cls("mpilot.params", "ResultParameter")
    clean = rp.methods.get("clean") if rp else None
    if clean is None:
        raise AnalysisError("ResultParameter.clean vanished")
    val = clean.node.args.args[1].arg
    read = set()
    for n in own_nodes(clean.node):
        if isinstance(n, ast.Attribute) and isinstance(n.ctx, ast.Load) and isinstance(n.value, ast.Name) and n.value.id == val:
            read.add(n.attr)
        if isinstance(n, ast.Call) and isinstance(n.func, ast.Name) and n.func.id in ("getattr", "hasattr") and len(n.args) >= 2 and isinstance(n.args[0], ast.Name) and n.args[0].id == val and isinstance(n.args[1], ast.Constant):
            read.add(n.args[1].value)
    read -= {"result", A.memo, A.flag}  # `result` is the guarded evaluation itself (C14.a/b); the memo and flag are plain data
    n = 0
    for d in K.table(idx):
        for attr in sorted(read):
            m = idx.find_method(d.cls, attr)
            if m is None or m.cls is A.command:
                continue
            n += 1
            sn = K.self_name(m)
            follows = []
            for x in own_nodes(m.node):
                if isinstance(x, ast.Attribute) and x.attr == attr and isinstance(x.ctx, ast.Load) and not (isinstance(x.value, ast.Name) and x.value.id == sn):
                    follows.append(x)
                if isinstance(x, ast.Call) and isinstance(x.func, ast.Name) and x.func.id == "getattr" and len(x.args) >= 2 and isinstance(x.args[1], ast.Constant) and x.args[1].value == attr and not (isinstance(x.args[0], ast.Name) and x.args[0].id == sn):
                    follows.append(x)
            if follows:
                follows = [x for x in follows if not _after_exclusion_loop(idx, m, x, attr)]
            con = "%s::computed(%s)" % (d.key, attr)
            if rule != "C14.d" and not follows:
                # raw argument values used as keys / receivers without a kind test first
                raws = {t.id for st in own_nodes(m.node) if isinstance(st, ast.Assign) and isinstance(st.value, ast.Call) and isinstance(st.value.func, ast.Attribute) and st.value.func.attr == "get_argument_value"
                        for t in st.targets if isinstance(t, ast.Name)}
                cfg_ = K.cfg_of(idx, m)
                bad_use = None
                for c_ in cfg_.find("call"):
                    f_ = c_.ast.func
                    if isinstance(f_, ast.Attribute) and f_.attr in ("get", "__getitem__", "pop") and c_.ast.args and isinstance(c_.ast.args[0], ast.Name) and c_.ast.args[0].id in raws:
                        nm_ = c_.ast.args[0].id
                        guards_ = [t for t in cfg_.find("test") if isinstance(t.ast, ast.Call) and isinstance(t.ast.func, ast.Name) and t.ast.func.id == "isinstance" and t.ast.args and isinstance(t.ast.args[0], ast.Name) and t.ast.args[0].id == nm_
                                   and cfg_.dominates(t, c_) and K.holds_on_edge(cfg_, t, c_, "true")]
                        if not guards_:
                            bad_use = c_
                if bad_use is not None:
                    ctx.violate(rule, con, d.module.rel, bad_use.line, "`%s` of %s looks a raw argument value up as a key (`%s`) during validation, before that argument was cleaned: a list written there is unhashable and the TypeError escapes from Program.run's pre-pass, outside Command.run's wrapper" % (attr, d.cls.name, K.src(bad_use.ast)[:60]))
                    continue
            ctx.ob(rule, con, d.module.rel, m.node.lineno, not follows,
                   "`%s` is computed without consulting other commands" % attr if not follows else
                   "`%s` of %s is computed from the `%s` of the command it references (%s): validation reads it before anything runs, so in a cycle of such commands the recursion never reaches the re-entry guard and ends in RecursionError instead of %s" % (attr, d.cls.name, attr, K.src(follows[0])[:60], ERR))
    ctx.extra["validation_reads"] = sorted(read)
    ctx.count("computed_validation_attributes", n)


def rule_g(ctx, idx, A):
    ctx.rule(
        "C14.g",
        "A helper that walks the reference graph recursively marks a command before it descends: every self-recursive function "
        "reachable from Program.run whose recursion is guarded by membership in a collection adds to that collection on every path "
        "to the recursive call (a mark made after the descent never stops a reference loop: the walk recurses until the stack "
        "overflows, and the re-entry guard of Command.run is never reached).",
    )
    reach, _p = idx.reachable([A.program_run])
    cands = [f for f in reach if f is not A.run] + [g for f in reach for g in f.nested.values()]
    n = 0
    seen = set()
    for f in cands:
        if f in seen or not hasattr(f, "node"):
            continue
        seen.add(f)
        rec = [c for c in own_nodes(f.node) if isinstance(c, ast.Call) and isinstance(c.func, ast.Name) and c.func.id == f.name and f.parent is not None]
        rec += [c for c in own_nodes(f.node) if isinstance(c, ast.Call) and isinstance(c.func, ast.Attribute) and c.func.attr == f.name and isinstance(c.func.value, ast.Name) and c.func.value.id in ("self", "cls") and f.cls is not None and f.name not in ("run", "execute", "clean")]
        if not rec:
            continue
        cfg = K.cfg_of(idx, f)
        guards = [t for t in cfg.find("test") if isinstance(t.ast, ast.Compare) and len(t.ast.ops) == 1 and isinstance(t.ast.ops[0], (ast.In, ast.NotIn)) and isinstance(t.ast.comparators[0], ast.Name)]
        # a visited-collection is one the walk itself adds to; membership in a constant table (`type(v) in PLAIN_TYPES`) is no guard
        grown = {c.func.value.id for c in ast.walk(f.node) if isinstance(c, ast.Call) and isinstance(c.func, ast.Attribute) and c.func.attr in ("add", "append", "update", "extend", "insert") and isinstance(c.func.value, ast.Name)}
        grown |= {t_.value.id for st in ast.walk(f.node) if isinstance(st, ast.Assign) for t_ in st.targets if isinstance(t_, ast.Subscript) and isinstance(t_.value, ast.Name)}
        guards = [t for t in guards if t.ast.comparators[0].id in grown]
        reccalls = [c for c in cfg.find("call") if any(c.ast is r for r in rec)]
        if not reccalls:
            continue
        if f.name == "flatten" or not guards:
            # structural recursion over a finite nested value (lists inside lists) needs no guard; only graph walks do
            if not any("commands" in K.src(x) or "requires" in K.src(x) or "dependents" in K.src(x) for x in own_nodes(f.node) if isinstance(x, (ast.Subscript, ast.Attribute))):
                continue
            ctx.violate("C14.g", "%s::marks-before-descending" % f.key, K.rel(f), f.node.lineno, "%s follows references recursively with no visited-guard at all: a reference loop recurses until the stack overflows" % f.qualname)
            n += 1
            continue
        n += 1
        ok = False
        for g in guards:
            coll = g.ast.comparators[0].id
            marks = [c for c in cfg.find("call") if isinstance(c.ast.func, ast.Attribute) and c.ast.func.attr in ("add", "append", "update", "extend", "insert") and isinstance(c.ast.func.value, ast.Name) and c.ast.func.value.id == coll]
            marks += [s_ for s_ in cfg.find("store") if s_.meta.get("subscript") and isinstance(s_.ast.value, ast.Name) and s_.ast.value.id == coll]
            if marks and all(cfg.must_pass_through(cfg.entry, rc, set(marks)) for rc in reccalls):
                ok = True
        ctx.ob("C14.g", "%s::marks-before-descending" % f.key, K.rel(f), reccalls[0].line, ok, "the visited mark is made before the recursive call" if ok else
               "%s recurses along references before it records the command it is working on (the membership test only sees commands whose walk has ended): on a reference loop it never stops, and a RecursionError escapes instead of %s" % (f.qualname, ERR))
    ctx.count("recursive_graph_walks", n)


def rule_h(ctx, idx, A):
    ctx.rule(
        "C14.h",
        "Re-entry reaches the guard: on the way from a result access to execute no non-reentrant lock (threading.Lock, a Semaphore, "
        "a Condition built on one) is held while the command is evaluated. A command on a cycle asks for its own result again on "
        "the same thread; with such a lock held that request blocks forever, so the program neither raises the recursive-model error "
        "nor returns.",
    )
    n_with = 0
    blocking = {"threading.Lock", "_thread.allocate_lock", "threading.Semaphore", "threading.BoundedSemaphore", "multiprocessing.Lock", "threading.Condition"}
    held_attrs = {}
    for m in A.command.methods.values():
        for n in own_nodes(m.node):
            if isinstance(n, ast.Assign) and isinstance(n.value, ast.Call):
                q = idx.qualname(m.module, n.value.func, m) or ""
                if q in blocking and not (q == "threading.Condition" and n.value.args):
                    for t in n.targets:
                        if isinstance(t, ast.Attribute):
                            held_attrs[t.attr] = q
    for st in A.command.node.body:
        if isinstance(st, ast.Assign) and isinstance(st.value, ast.Call) and (idx.qualname(A.command.module, st.value.func) or "") in blocking:
            for t in st.targets:
                if isinstance(t, ast.Name):
                    held_attrs[t.id] = idx.qualname(A.command.module, st.value.func)
    reach, _p = idx.reachable([A.run])
    for m in A.command.methods.values():
        for n in own_nodes(m.node):
            if not isinstance(n, (ast.With,)):
                continue
            n_with += 1
            for item in n.items:
                e = item.context_expr
                if isinstance(e, ast.Attribute) and e.attr in held_attrs:
                    evaluates = any(isinstance(c, ast.Call) and isinstance(c.func, ast.Attribute) and c.func.attr in ("run", "execute") for b in n.body for c in ast.walk(b)) \
                        or any(isinstance(c, ast.Attribute) and c.attr == "result" and isinstance(c.ctx, ast.Load) for b in n.body for c in ast.walk(b))
                    con = "%s::lock-held-across-evaluation(%s)" % (m.key, e.attr)
                    ctx.ob("C14.h", con, K.rel(m), n.lineno, not evaluates,
                           "the lock does not span the evaluation" if not evaluates else
                           "`with %s:` (a %s, not re-entrant) is held while the command is evaluated: a command on a reference cycle that was itself started through `.result` asks for its own result again on the same thread and blocks forever - the run neither raises %s nor returns" % (K.src(e), held_attrs[e.attr], ERR))
        for n in own_nodes(m.node):
            if isinstance(n, ast.Call) and isinstance(n.func, ast.Attribute) and n.func.attr == "acquire" and isinstance(n.func.value, ast.Attribute) and n.func.value.attr in held_attrs:
                ctx.violate("C14.h", "%s::lock-held-across-evaluation(%s)" % (m.key, n.func.value.attr), K.rel(m), n.lineno,
                            "`%s` takes a %s inside the command's own evaluation path: a second request from the same thread (a reference cycle) blocks forever instead of reaching the re-entry guard" % (K.src(n), held_attrs[n.func.value.attr]))
    ctx.count("with_blocks_in_Command", n_with)
    ctx.count("blocking_lock_attributes", len(held_attrs))
    if not held_attrs:
        ctx.hold("C14.h", "%s::no-blocking-lock" % A.command.qual, K.rel(A.run), A.command.node.lineno, "Command creates no non-reentrant lock", nontrivial=False)


def rule_j(ctx, idx, A, errcls):
    ctx.rule(
        "C14.j",
        "The recursive-model error travels up unabsorbed: wherever a `try` evaluates other commands (`.result`, `.run()`, execute - "
        "directly or through a function defined beside it), no handler that admits RecursiveModelStructure (bare, BaseException, "
        "Exception, MPilotError, ProgramError, the class itself) swallows it: the handler re-raises it (bare `raise`, or `if "
        "isinstance(e, <MPilot error>): raise` first), ends the process with a non-zero status, or is preceded by a handler of "
        "RecursiveModelStructure that re-raises. A command that reports a failing input in place (a listing, a fallback value) "
        "and catches the MPilot root there turns a cyclic model into a normal run.",
    )
    ADMIT = {"BaseException", "Exception", "MPilotError", "ProgramError", errcls.name if hasattr(errcls, "name") else "RecursiveModelStructure", "RecursiveModelStructure"}

    def admits(h):
        if h.type is None:
            return True
        ts = h.type.elts if isinstance(h.type, ast.Tuple) else [h.type]
        return any((K.src(t).split(".")[-1]) in ADMIT for t in ts)

    def evaluates(mod, fi, stmts, depth=0, seen=None):
        seen = seen if seen is not None else set()
        for st in stmts:
            for x in ast.walk(st):
                if isinstance(x, ast.Attribute) and x.attr == "result" and isinstance(x.ctx, ast.Load):
                    return x
                if isinstance(x, ast.Call) and isinstance(x.func, ast.Attribute) and x.func.attr in ("run", "execute") and not (isinstance(x.func.value, ast.Name) and x.func.value.id in ("subprocess", "parser")):
                    return x
                if isinstance(x, ast.Call) and isinstance(x.func, ast.Name) and depth < 3:
                    for f2 in idx.funcs:
                        if f2.name == x.func.id and f2.module is mod and (f2.parent is fi or f2.parent is None and getattr(f2, "cls", None) is None) and id(f2) not in seen:
                            seen.add(id(f2))
                            if evaluates(mod, f2, f2.node.body, depth + 1, seen) is not None:
                                return x
        return None

    def reraises(h, cli_ok):
        """every way through the handler body leaves by raising what was caught (or by ending the process, for the command-line tool)"""
        nm = h.name

        def substitutes(stmts):
            """some path through these statements raises ANOTHER error in place of the one caught (raise X(...), raise_from(X(...), e))"""
            try:
                supers_ = {c_.name for c_ in idx.mro(errcls)} | {"RecursiveModelStructure", "ProgramError"}
            except Exception:
                supers_ = {"RecursiveModelStructure", "ProgramError"}
            spared = set()  # statements under `if not isinstance(<caught>, <a class of the loop error>)`: never reached by the loop error
            for st in stmts:
                for x in ast.walk(st):
                    if isinstance(x, ast.If) and isinstance(x.test, ast.UnaryOp) and isinstance(x.test.op, ast.Not) and isinstance(x.test.operand, ast.Call) \
                            and K.src(x.test.operand.func) == "isinstance" and len(x.test.operand.args) == 2 and K.src(x.test.operand.args[0]) == nm:
                        ts_ = x.test.operand.args[1]
                        if any(K.src(t_).split(".")[-1] in supers_ for t_ in (ts_.elts if isinstance(ts_, ast.Tuple) else [ts_])):
                            spared |= {id(y) for b_ in x.body for y in ast.walk(b_)}
            for st in stmts:
                for x in ast.walk(st):
                    if id(x) in spared:
                        continue
                    if isinstance(x, ast.Raise) and x.exc is not None and not (isinstance(x.exc, ast.Name) and x.exc.id == nm):
                        return x
                    if isinstance(x, ast.Call) and K.src(x.func).split(".")[-1] == "raise_from":
                        return x
            return None

        def leaves(stmts):
            for st in stmts:
                if isinstance(st, ast.Raise) and (st.exc is None or (isinstance(st.exc, ast.Name) and st.exc.id == nm)):
                    return True
                if isinstance(st, ast.If) and isinstance(st.test, ast.Call) and K.src(st.test.func) == "isinstance" and st.test.args and K.src(st.test.args[0]) == nm \
                        and any(K.src(t).split(".")[-1] in ADMIT - {"BaseException", "Exception"} for t in (st.test.args[1].elts if isinstance(st.test.args[1], ast.Tuple) else [st.test.args[1]])) \
                        and leaves(st.body) and substitutes(st.body) is None:
                    return True  # the MPilot errors (the recursive-model error among them) go on as they are; what follows deals with the others
                if isinstance(st, ast.If) and st.orelse and leaves(st.body) and leaves(st.orelse):
                    return True
                if cli_ok and isinstance(st, ast.Expr) and isinstance(st.value, ast.Call) and K.src(st.value.func) in ("sys.exit", "exit", "os._exit") and st.value.args \
                        and not (isinstance(st.value.args[0], ast.Constant) and st.value.args[0].value in (0, None)):
                    return True
            return False

        return leaves(h.body)

    n_try = n_adm = 0
    for mod, fi, n in K.scoped_nodes(idx):
        if not isinstance(n, ast.Try) or "/tests/" in mod.rel:
            continue
        n_try += 1
        ev = None
        for i, h in enumerate(n.handlers):
            if not admits(h):
                continue
            if ev is None:
                ev = evaluates(mod, fi, n.body) or False
            if not ev:
                break
            n_adm += 1
            con = "%s::handler@%s::loop-error-goes-on" % (K.where(mod, fi), K.src(h.type) if h.type is not None else "bare")
            is_cli = mod.rel.startswith("mpilot/cli/")
            from .C13 import status_reaches_exit

            if is_cli and not reraises(h, is_cli):
                # on the source as written: the same handler in a plain function that returns a non-zero status which its callers
                # hand to sys.exit (the normaliser inlines such a helper into the click command)
                found_ = False
                for f2 in idx.funcs:
                    if f2.module is not mod:
                        continue
                    n0 = getattr(f2, "node_orig", None) or f2.node
                    for t2 in [x for x in ast.walk(n0) if isinstance(x, ast.Try)]:
                        for h2 in t2.handlers:
                            if h2.lineno == h.lineno and status_reaches_exit(idx, f2, h2):
                                found_ = True
                if found_:
                    ctx.hold("C14.j", con, mod.rel, h.lineno, "the handler returns a non-zero status that every caller hands to sys.exit")
                    break
            if reraises(h, is_cli):
                ctx.hold("C14.j", con, mod.rel, h.lineno, "the handler hands the error on (re-raise%s)" % (" / non-zero exit" if is_cli else ""))
            elif _loop_error_reported_first(idx, fi, h, errcls):
                ctx.hold("C14.j", con, mod.rel, h.lineno, "the errors are gathered and the recursive-model error among them is raised first, unchanged, before anything else is reported")
            else:
                ctx.violate("C14.j", con, mod.rel, h.lineno, "`except %s` around `%s` absorbs the recursive-model error: a command on a reference loop is evaluated here, the loop error raised underneath is caught with the rest and the run goes on - the cyclic model is accepted (or its error replaced by whatever fails next)" % (K.src(h.type) if h.type is not None else "", K.src(ev)[:50]))
            break  # the first admitting handler is the one that catches it
    ctx.floor("C14.j", "try statements examined", n_try, 10)
    ctx.floor("C14.j", "handlers around an evaluation that admit the loop error", n_adm, 2)


def rule_f(ctx, idx, A):
    ctx.rule(
        "C14.f",
        "A rejected cycle stays rejected: Command.run marks a command finished only on the path where execute returned and its "
        "value was stored - never in a finally / except block or before the call - so the commands an aborted evaluation passed "
        "through are still unfinished when the program is run again and the cycle is found again.",
    )
    from .C01 import value_of_call_stores
    from engine.cfg import self_attr as _sa

    fi = A.run
    sn = K.self_name(fi)
    cfg = K.cfg_of(idx, fi)
    execs = cfg.find("call", lambda n: K.is_self_call(n.ast, "execute", sn))
    good, _all = value_of_call_stores(cfg, execs, A.memo, sn)
    flag_true = cfg.find("store", lambda n: n.meta.get("attr") == A.flag and _sa(n.ast, sn) and isinstance(n.meta.get("value"), ast.Constant) and n.meta["value"].value is True)
    con = "%s::finished-only-after-execute" % fi.key
    if not flag_true:
        raise AnalysisError("C14.f: Command.run never sets the finished flag")
    early = [f for f in flag_true if not cfg.must_pass_through(cfg.entry, f, set(good)) and not K.success_flag_ok(cfg, fi, f, good)]
    ctx.ob("C14.f", con, K.rel(fi), (early or flag_true)[0].line, not early, "the finished flag is set only after execute's value was stored" if not early else
           "`%s = True` at line %s is reached on paths where execute did not return (an exception unwinding through run): after a rejected cycle every command on the stack is left finished with no result, so a second run() of the same program returns normally or fails with an unrelated error instead of %s" % (A.flag, early[0].line, ERR))


def run(ctx, idx):
    A = K.anchors(idx)
    exc_mod = idx.module_of("mpilot.exceptions")
    if ERR not in exc_mod.classes:
        raise AnalysisError("exception class %s vanished" % ERR)
    errcls = exc_mod.classes[ERR]
    ctx.assume("call graph resolution: self/super/class/constructor calls resolved, unknown receivers by method name (over-approximation)")
    ctx.assume("Python recursion: a run() that re-enters execute without a guard overflows the stack; modelled, not executed")
    rule_a(ctx, idx, A, errcls)
    rule_b(ctx, idx, A, errcls)
    deferred = None
    try:
        rule_c(ctx, idx, A, errcls)
    except AnalysisError as ex:  # the other rules still run; "cannot decide" is reported at the end unless one of them is violated
        deferred = ex
    rule_d(ctx, idx, A)
    rule_g(ctx, idx, A)
    rule_f(ctx, idx, A)
    rule_h(ctx, idx, A)
    ctx.rule("C14.i", "A cycle written in EEMS 2.0 syntax reaches Program.run: the conversion turns every old command into one new command and drops none (a self-referencing COPYFIELD dropped as a 'no-op' is a cycle that is never reported).")
    from .C16 import conversion_keeps_every_command

    conversion_keeps_every_command(ctx, idx, "C14.i", "a command that references its own result (or closes a cycle) disappears before the program is run, and run() returns normally for a cyclic model")
    from .C01 import rule_e

    rule_e(ctx, idx, A, rule="C14.e", text="Restated here because the re-entry guard can only fire on a reference that is actually read: a cycle closed through an input the consumer skips (a zero weight, a short-circuit over the list) is never entered and the cyclic model runs to completion.")
    rule_j(ctx, idx, A, errcls)
    ctx.rule("C14.k", "Validation starts no command: a cleaner reads `<value>.result` (or calls run / execute) only on the true side of a test of the finished flag (C12.b's reading) - or every run() sets the in-progress flag before it validates. A cleaner that evaluates an unfinished reference while Command.run validates OUTSIDE the flag's window re-enters run() around the guard: on a loop of such commands the interpreter runs out of stack instead of reporting the recursive model.")
    pbase_ = idx.cls("mpilot.params", "Parameter")
    for ci_ in idx.subclasses(pbase_):
        fi_ = ci_.methods.get("clean")
        if fi_ is None:
            continue
        c_ = K.cfg_of(idx, fi_)
        touches_ = c_.find("load", lambda n: n.meta.get("attr") in ("result", A.memo)) + c_.find("call", lambda n: isinstance(n.ast.func, ast.Attribute) and n.ast.func.attr in ("run", "execute"))
        for tn_ in touches_:
            guards_ = [t for t in c_.find("test") if isinstance(t.ast, ast.Attribute) and t.ast.attr == A.flag and c_.dominates(t, tn_)]
            ok_ = any(tn_ not in c_.reachable([m for m, l in g.succ if l == "false"], avoid={g}) for g in guards_)
            if not ok_:
                # a cleaner that does evaluate unfinished references is still caught by the in-progress flag when every run() sets
                # the flag BEFORE it validates (the store dominates the validate_params call): each nested run() then either enters a
                # fresh command or meets a flag already set
                rc_ = K.cfg_of(idx, A.run)
                vals_ = rc_.find("call", lambda n: isinstance(n.ast.func, ast.Attribute) and n.ast.func.attr == "validate_params")
                sets_ = [n for n in rc_.find("store") if isinstance(n.ast, ast.Attribute) and n.ast.attr == "is_running" and isinstance(n.meta.get("value"), ast.Constant) and n.meta["value"].value is True]
                if vals_ and sets_ and all(any(rc_.dominates(s_, v_) for s_ in sets_) for v_ in vals_):
                    ctx.hold("C14.k", "%s::touch(%s)" % (fi_.key, K.src(tn_.ast)[:40]), K.rel(fi_), tn_.line,
                             "the cleaner evaluates a reference that may be unfinished, but every run() sets the in-progress flag before it validates: a loop meets a flag already set")
                    continue
            ctx.ob("C14.k", "%s::touch(%s)" % (fi_.key, K.src(tn_.ast)[:40]), K.rel(fi_), tn_.line, ok_,
                   "only under `%s` known true" % A.flag if ok_ else "`%s` is evaluated during validation for a command that may be unfinished: validation re-enters run() outside the in-progress guard, and a reference loop recurses until the stack overflows" % K.src(tn_.ast))
    ctx.count("functions", len(idx.funcs))
    if deferred is not None:
        raise deferred
